"""Abstract JSON trees <-> concrete JSON text, for checks that compare a fast / partial parser with a full parse (C19).

Abstract tree (as in specs/FastParse/FastParse.tla, JSON-able):
    {"t": "s", "ty": "string|number|boolean|null", "v": token, "n": small-int value or 0}
    {"t": "o", "kv": [{"k": key, "v": tree}, ...]}      ordered
    {"t": "a", "el": [tree, ...]}
Tokens: "k:<s>" the literal string s, "n:<i>" the integer i, "b:0|1", "z" null, "s:<id>" some other string,
"x:<id>" some other number.  The token <-> text table lives here, never in the specification.

concretise(): abstract tree + random source -> concrete node tree with RAW lexemes (so that number formats, escapes,
    raw UTF-8 etc. can be chosen freely);
serialise(): concrete node tree -> JSON text in a lexical style (compact as Elasticsearch emits, spaced, pretty with
    `"key" : value`, odd whitespace);
Table.project(): json.loads of the very bytes -> abstract tree again (tokens assigned by VALUE, so equal tokens <=>
    equal values); Table.value() does the same for values returned by the code under test.
"""
import decimal
import json
import re

SAFE_KEY = re.compile(r"^[A-Za-z_][A-Za-z0-9_]*$")
FIXED_WORDS = ("eq", "gte", "sort", "value", "")

# adversarial strings WITHOUT a closing bracket and without a raw `"sort"` token in their serialisation
STR_POOL = [
    "plain",
    'with "quotes" inside',
    "back\\slash",
    "ends with backslash\\",
    '\\"',
    "[open bracket",
    "cl}ose{ brace",
    '"sort"',
    '"sort": [1, 2',
    "sort",  # replaced below: the bare word is a FIXED word, see _pool_ok
    "ünï©öde é",
    "日本語のテキスト",
    "emoji \U0001f600 non-BMP",
    "tab\tnewline\ncr\r",
    "nul \u0000 and \u001f",
    "  line sep  ",
    "/slash/ and \\/",
    "colon : comma , {} ",
    "true",
    "null",
    "123",
    " ",
    "\\u005d escaped-looking",
    "x" * 300,
]
STR_POOL = [s for s in STR_POOL if s not in FIXED_WORDS]
# strings whose text contains a closing bracket
BRACKET_POOL = ["a]b", "]", "[1]", 'x"]', '"sort":[1]', "]]", "é]\U0001f600", "\\]"]
# numbers that are not small integers: raw lexemes
NUM_POOL = [
    "123456789012345678901234567890",
    "-98765432109876543210",
    "4294967296",
    "1.5",
    "0.1",
    "-0.25",
    "1E2",
    "1e-7",
    "2.5E+10",
    "1.7976931348623157E308",
    "3.141592653589793238462643383279",
    "1609780186000.5",
]
# object keys that may replace "free" keys of an abstract tree (no '.', see DOTTED_KEY_PAIRS for those; never a FIXED word)
KEY_POOL = ['f"q', "x[y", "ke}y", "ü", "so\\rt", "a b", "k]", "\U0001f600", "sort ", "Sort", "item", "true"]


# member names with dots (composite sources are commonly named after the field: `geo.src`, `source.ip`); pairs that may
# replace the free keys ("a", "b") of one case: same last component, same first component, one a suffix of the other
DOTTED_KEY_PAIRS = [
    ("source.ip", "destination.ip"),
    ("geo.src", "geo.dest"),
    ("host.name", "user.name"),
    ("a.b", "b"),
    ("x.y.z", "y.z"),
    ("event.dataset", "dataset"),
    ("k].ip", "ü.ip"),
]


class Obj:
    """json.loads object with its key order (object_pairs_hook)."""

    __slots__ = ("pairs",)

    def __init__(self, pairs):
        self.pairs = pairs


def loads_ordered(data):
    return json.loads(data, object_pairs_hook=Obj)


def plain(v):
    """Obj-tree -> plain dict/list python value."""
    if isinstance(v, Obj):
        return {k: plain(x) for k, x in v.pairs}
    if isinstance(v, list):
        return [plain(x) for x in v]
    return v


def _num_norm(v):
    if isinstance(v, int):
        return v
    f = float(v)
    if f == f and f not in (float("inf"), float("-inf")) and f.is_integer():
        return int(f)
    return f


class Table:
    """value <-> token table of ONE case."""

    def __init__(self, known_words=()):
        self.known = set(FIXED_WORDS) | set(known_words)
        self.keys = {}  # concrete key -> token
        self.segs = {}  # dot-free segment of a key -> token
        self.strs = {}
        self.nums = {}
        self.nkeys = 0

    # -- keys
    def _seg(self, seg):
        t = self.segs.get(seg)
        if t is None:
            if SAFE_KEY.match(seg):
                t = seg
            else:
                self.nkeys += 1
                t = "K%d" % self.nkeys
            self.segs[seg] = t
        return t

    def key(self, k):
        """token of an object key. A key may contain dots (`geo.src`): it is tokenised segment by segment so that the token
        of ijson's dotted prefix (which does not escape dots inside keys) is the concatenation of the key tokens."""
        t = self.keys.get(k)
        if t is None:
            t = self.keys[k] = ".".join(self._seg(seg) for seg in k.split("."))
            self.known.add(k)
        return t

    def path(self, dotted):
        """ijson prefix / relative key of a flat-object member (key texts joined by '.') -> token path."""
        if dotted == "":
            return ""
        return ".".join(self._seg(seg) for seg in dotted.split("."))

    # -- scalars
    def scalar(self, v):
        if v is None:
            return {"t": "s", "ty": "null", "v": "z", "n": 0}
        if v is True or v is False:
            return {"t": "s", "ty": "boolean", "v": "b:1" if v else "b:0", "n": 0}
        if isinstance(v, str):
            if v in self.known:
                tok = "k:" + (self.keys[v] if v in self.keys else v)
            else:
                tok = self.strs.get(v)
                if tok is None:
                    tok = self.strs[v] = "s:%d" % (len(self.strs) + 1)
            return {"t": "s", "ty": "string", "v": tok, "n": 0}
        if isinstance(v, (int, float, decimal.Decimal)):
            x = _num_norm(v)
            if isinstance(x, int) and abs(x) < 2**31:
                return {"t": "s", "ty": "number", "v": "n:%d" % x, "n": x}
            tok = self.nums.get(x)
            if tok is None:
                tok = self.nums[x] = "x:%d" % (len(self.nums) + 1)
            return {"t": "s", "ty": "number", "v": tok, "n": 0}
        raise TypeError("not a JSON scalar: %r" % (v,))

    def collect_keys(self, v):
        if isinstance(v, Obj):
            for k, x in v.pairs:
                self.key(k)
                self.collect_keys(x)
        elif isinstance(v, list):
            for x in v:
                self.collect_keys(x)

    def project(self, v):
        """ordered json.loads value -> abstract tree."""
        if isinstance(v, Obj):
            return {"t": "o", "kv": [{"k": self.key(k), "v": self.project(x)} for k, x in v.pairs]}
        if isinstance(v, list):
            return {"t": "a", "el": [self.project(x) for x in v]}
        return self.scalar(v)

    def value(self, v):
        """a python value returned by the code under test -> abstract tree."""
        if isinstance(v, dict):
            return {"t": "o", "kv": [{"k": self.key(k), "v": self.value(x)} for k, x in v.items()]}
        if isinstance(v, (list, tuple)):
            return {"t": "a", "el": [self.value(x) for x in v]}
        return self.scalar(v)


# ---------------------------------------------------------------------------------------------------
# concretisation
# ---------------------------------------------------------------------------------------------------
def render_string(s, mode):
    """JSON text of a string. mode 0: raw UTF-8 (as Elasticsearch emits), 1: \\uXXXX for non-ASCII, 2: also `\\/`,
    3: every non-alphanumeric character as \\uXXXX (surrogate pairs for non-BMP)."""
    if mode == 0:
        return json.dumps(s, ensure_ascii=False)
    if mode == 1:
        return json.dumps(s, ensure_ascii=True)
    if mode == 2:
        return json.dumps(s, ensure_ascii=True).replace("/", "\\/")
    out = ['"']
    for ch in s:
        if ch.isascii() and ch.isalnum():
            out.append(ch)
        else:
            cp = ord(ch)
            if cp > 0xFFFF:
                cp -= 0x10000
                out.append("\\u%04x\\u%04x" % (0xD800 + (cp >> 10), 0xDC00 + (cp & 0x3FF)))
            else:
                out.append("\\u%04x" % cp)
    out.append('"')
    return "".join(out)


class Concretiser:
    """Chooses concrete texts for the tokens / free keys of an abstract tree. One instance per case."""

    def __init__(self, rnd, free_keys=(), adversarial=True, permute=False, string_mode=None, requested=()):
        self.rnd = rnd
        self.free_keys = set(free_keys)
        self.adversarial = adversarial
        self.permute = permute
        self.string_mode = string_mode
        self.tok = {}  # token -> (python value, raw text)
        self.keymap = {}
        self.spool = list(STR_POOL)
        rnd.shuffle(self.spool)
        self.bpool = list(BRACKET_POOL)
        rnd.shuffle(self.bpool)
        self.npool = list(NUM_POOL)
        rnd.shuffle(self.npool)
        self.kpool = list(KEY_POOL)
        rnd.shuffle(self.kpool)
        self.bracket_values = set()  # python values / keys whose RAW text contains ']'
        # the free keys "a" / "b" are the member names of flat objects in the generated cases: dotted names for some cases
        # (never a name that occurs as a dotted sub-path of a requested path: ijson's prefix would make it that path)
        pairs = [p for p in DOTTED_KEY_PAIRS if not any("." in d and ("." + d + ".") in ("." + r + ".") for d in p for r in requested)]
        self.dotted = rnd.choice(pairs) if adversarial and pairs and rnd.random() < 0.4 else None

    def _mode(self):
        return self.string_mode if self.string_mode is not None else self.rnd.choice([0, 0, 1, 2, 3])

    def scalar(self, node):
        tok = node["v"]
        got = self.tok.get(tok)
        if got is not None:
            return got
        if tok == "z":
            got = (None, "null")
        elif tok.startswith("b:"):
            got = (tok == "b:1", "true" if tok == "b:1" else "false")
        elif tok.startswith("n:"):
            got = (int(tok[2:]), tok[2:])
        elif tok.startswith("k:"):
            s = tok[2:]
            got = (s, render_string(s, 0))
        elif tok.startswith("x:"):
            raw = self.npool.pop() if self.npool else "%d.5" % (7000 + len(self.tok))
            got = (_num_norm(json.loads(raw)), raw)
        elif tok.startswith("s:"):
            if tok == "s:b" or tok.startswith("s:b"):
                s = self.bpool.pop() if self.bpool else "br]%d" % len(self.tok)
            elif self.adversarial and self.spool:
                s = self.spool.pop()
            else:
                s = "str-%s" % tok[2:]
            got = (s, render_string(s, self._mode()))
        else:
            raise ValueError("unknown token %r" % tok)
        if isinstance(got[0], str) and "]" in got[1]:
            self.bracket_values.add(got[0])
        self.tok[tok] = got
        return got

    def key(self, k):
        if k in self.keymap:
            return self.keymap[k]
        c = k
        if self.dotted is not None and k in ("a", "b") and k in self.free_keys:
            c = self.dotted[0 if k == "a" else 1]
        elif k in self.free_keys and self.adversarial and self.kpool and self.rnd.random() < 0.6:
            c = self.kpool.pop()
        raw = render_string(c, self._mode() if c != k else 0)
        if "]" in raw:
            self.bracket_values.add(c)
        self.keymap[k] = (c, raw)
        return self.keymap[k]

    def node(self, tree):
        t = tree["t"]
        if t == "s":
            return ("s", self.scalar(tree)[1])
        if t == "a":
            return ("a", [self.node(x) for x in tree["el"]])
        kv = [(self.key(e["k"])[1], self.node(e["v"])) for e in tree["kv"]]
        if self.permute:
            self.rnd.shuffle(kv)
        return ("o", kv)


# ---------------------------------------------------------------------------------------------------
# serialisation styles
# ---------------------------------------------------------------------------------------------------
STYLES = ("compact", "spaced", "pretty", "odd")
SPACE_BEFORE_COLON = {"compact": False, "spaced": False, "pretty": True, "odd": True}


def serialise(node, style, rnd=None):
    """concrete node -> JSON text (str). 'compact' = Elasticsearch's default output, 'spaced' = json.dumps defaults,
    'pretty' = Elasticsearch with ?pretty (`"key" : value`, 2-space indent), 'odd' = random legal whitespace everywhere."""
    out = []

    def ws():
        return rnd.choice(["", "", " ", "  ", "\n", "\t", " \r\n "]) if style == "odd" else ""

    def emit(n, depth):
        kind, payload = n
        if kind == "s":
            out.append(payload)
            return
        if kind == "a":
            if not payload:
                out.append("[ ]" if style == "pretty" else "[" + ws() + "]")
                return
            out.append("[")
            for i, x in enumerate(payload):
                if i:
                    out.append(", " if style == "spaced" else ",")
                if style == "pretty":
                    out.append("\n" + "  " * (depth + 1))
                out.append(ws())
                emit(x, depth + 1)
                out.append(ws())
            if style == "pretty":
                out.append("\n" + "  " * depth)
            out.append("]")
            return
        if not payload:
            out.append("{ }" if style == "pretty" else "{" + ws() + "}")
            return
        out.append("{")
        for i, (k, x) in enumerate(payload):
            if i:
                out.append(", " if style == "spaced" else ",")
            if style == "pretty":
                out.append("\n" + "  " * (depth + 1))
            out.append(ws())
            out.append(k)
            if style == "pretty":
                out.append(" : ")
            elif style == "spaced":
                out.append(": ")
            elif style == "odd":
                out.append(rnd.choice([" ", "\t", "\n", "  "]) + ":" + ws())
            else:
                out.append(":")
            emit(x, depth + 1)
            out.append(ws())
        if style == "pretty":
            out.append("\n" + "  " * depth)
        out.append("}")

    out.append(ws())
    emit(node, 0)
    out.append(ws())
    return "".join(out)


# ---------------------------------------------------------------------------------------------------
# builders for abstract trees (random cases)
# ---------------------------------------------------------------------------------------------------
def sc_str(i):
    return {"t": "s", "ty": "string", "v": "s:%s" % i, "n": 0}


def sc_known(s):
    return {"t": "s", "ty": "string", "v": "k:" + s, "n": 0}


def sc_num(i):
    return {"t": "s", "ty": "number", "v": "n:%d" % i, "n": i}


def sc_big(i):
    return {"t": "s", "ty": "number", "v": "x:%s" % i, "n": 0}


def sc_bool(b):
    return {"t": "s", "ty": "boolean", "v": "b:1" if b else "b:0", "n": 0}


SC_NULL = {"t": "s", "ty": "null", "v": "z", "n": 0}
ABSENT = {"t": "absent"}


def obj(*pairs):
    return {"t": "o", "kv": [{"k": k, "v": v} for k, v in pairs if v is not None]}


def arr(*els):
    return {"t": "a", "el": list(els)}
