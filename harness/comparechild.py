"""C20 helper: run comparisons of stored races in a CHILD interpreter whose locale is not UTF-8 (LC_ALL=C, UTF-8 mode and
locale coercion off), so that every open() of the code under test that relies on the locale's encoding shows. The console
encoding is pinned to UTF-8 (PYTHONIOENCODING): only the encoding of the FILES esrally writes is under test.

parent:  run_cases(slots, naming, names, cases, root, repo) -> (encodings the child reported, [item fields | {"crash": text}, ...])
child :  python -m harness.comparechild <scratch root>   (request as JSON on stdin, results as JSON on stdout; both pure ASCII)
"""
import json
import os
import subprocess
import sys

from . import tlc

ENV = {"LC_ALL": "C", "LANG": "C", "LANGUAGE": "C", "PYTHONUTF8": "0", "PYTHONCOERCECLOCALE": "0", "PYTHONHASHSEED": "0", "PYTHONIOENCODING": "utf-8"}


def run_cases(slots, naming, names, cases, root, repo=None, timeout=300):
    """cases: [{"B":…, "C":…, "proc":…, "D":…}] -> one result per case, in order."""
    repo = repo or os.environ.get("VERIF_REPO", "/repo")
    env = dict(os.environ)
    for k in ("LC_CTYPE", "LC_MESSAGES", "TERM"):
        env.pop(k, None)
    env.update(ENV)
    env["VERIF_REPO"] = repo
    env["PYTHONPATH"] = tlc.VERIF + os.pathsep + repo
    req = {"slots": slots, "naming": naming, "names": names, "cases": cases}
    p = subprocess.run(
        [sys.executable, "-m", "harness.comparechild", root],
        input=json.dumps(req).encode("ascii"),
        stdout=subprocess.PIPE,
        stderr=subprocess.PIPE,
        env=env,
        cwd=tlc.VERIF,
        timeout=timeout,
        check=False,
    )
    if p.returncode != 0:
        raise tlc.MachineryError("child interpreter (non-UTF-8 locale) failed rc=%s: %s" % (p.returncode, p.stderr.decode("utf-8", "replace")[-1500:]))
    try:
        res = json.loads(p.stdout.decode("ascii"))
    except ValueError as ex:
        raise tlc.MachineryError("child interpreter printed no JSON: %r" % p.stdout[-500:]) from ex
    enc = res["encoding"]
    if any("utf" in e.lower().replace("-", "").replace("_", "") for e in enc.values()):
        raise tlc.MachineryError("the child interpreter's locale encoding is UTF-8 (%s): the locale leg would test nothing" % enc)
    if len(res["outs"]) != len(cases):
        raise tlc.MachineryError("child interpreter answered %d of %d cases" % (len(res["outs"]), len(cases)))
    return enc, res["outs"]


def main():
    import locale

    repo = os.environ.get("VERIF_REPO", "/repo")
    sys.path.insert(0, repo)
    from . import compare_impl as ci

    root = sys.argv[1]
    os.makedirs(root, exist_ok=True)
    req = json.loads(sys.stdin.read())
    real_stdout = sys.stdout
    runner = ci.Runner(req["slots"], root, req["naming"], req["names"])
    outs = []
    for c in req["cases"]:
        try:
            outs.append(runner.run(c["B"], c["C"], c["proc"], c["D"]))
        except tlc.MachineryError:
            raise
        except Exception as ex:  # pylint: disable=broad-except
            outs.append({"crash": "%s: %s" % (type(ex).__name__, str(ex)[:200]), "crash_type": type(ex).__name__})
    with open(os.devnull, "w") as probe:  # what a plain open() of the code under test would use
        enc_open = probe.encoding
    json.dump({"encoding": {"preferred": locale.getpreferredencoding(False), "open": enc_open}, "outs": outs}, real_stdout)


if __name__ == "__main__":
    main()
