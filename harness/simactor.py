"""SimActorSystem: runs REAL Thespian actor classes of esrally single-threaded under a scheduler the harness controls.

Thespian semantics reproduced:
  * messages between a (sender, receiver) pair are delivered FIFO; different pairs are unordered;
  * an actor handles one message at a time, a handler runs to completion;
  * wakeupAfter() arms a timer; a WakeupMessage is delivered not before its due time, timers of one actor in due order;
  * a handler that raises is retried once with the same message, then PoisonMessage(msg, details) goes to the sender;
  * createActor() returns an address immediately; ActorExitRequest is delivered to the actor's handler (if it has one),
    then forwarded to its children, the actor dies and its parent receives ChildActorExited;
  * messages to dead actors are dropped (dead letters).
The harness decides which enabled delivery happens next (a scripted schedule or a seeded fair random policy).
"""
import collections
import datetime
import traceback

import thespian.actors as ta


class Endpoint:
    """An external endpoint (e.g. race control) that just records what it receives."""

    def __init__(self, name):
        self.name = name
        self.inbox = []


class _Ref:
    """Replacement for thespian's ActorRef, installed as actor._myRef."""

    def __init__(self, system, name):
        self._sys = system
        self._name = name
        self.address = system.address(name)
        self.globalName = None

    def actor_send(self, target, msg):
        self._sys.send(self._name, target, msg)

    def wakeupAfter(self, period, payload=None):
        self._sys.arm_timer(self._name, period, payload)

    def createActor(self, actor_class, targetActorRequirements=None, globalName=None, sourceHash=None):
        return self._sys.create(actor_class, parent=self._name, requirements=targetActorRequirements)

    def notifyOnSystemRegistrationChanges(self, addr, enable):
        was = bool(self._sys.registration_listeners.get(self._name))
        self._sys.registration_listeners[self._name] = enable
        # optional (C12): the harness plays the convention notifier; hook(name, enable, was_enabled) may enqueue the
        # ActorSystemConventionUpdate messages thespian sends for the current convention members
        if self._sys.registration_hook is not None:
            self._sys.registration_hook(self._name, enable, was)

    def handleDeadLetters(self, addr, enable):
        pass

    def actorSystemShutdown(self):
        pass


class ActorRec:
    def __init__(self, name, instance, parent, cls, requirements):
        self.name = name
        self.instance = instance
        self.parent = parent
        self.cls = cls
        self.requirements = requirements
        self.alive = True
        self.children = []


class SimActorSystem:
    def __init__(self, clock, class_map=None, namer=None):
        self.clock = clock
        self.actors = collections.OrderedDict()  # name -> ActorRec
        self.endpoints = {}
        self.chan = collections.OrderedDict()  # (src, dst) -> deque of msg
        self.timers = []  # dicts: actor, due, seq, payload, delay
        self._seq = 0
        self._addr = {}
        self._names = {}
        self.class_map = class_map or {}  # real class -> substitute class (stubs)
        self.namer = namer
        self.registration_listeners = {}
        self.registration_hook = None
        self.dead_letters = []
        self.send_hook = None  # called as hook(src, dst, msg) for every message sent
        self.handler_errors = []  # (actor, msg type, traceback) for handlers that raised
        self._counter = collections.Counter()

    # ---- addressing
    def address(self, name):
        if name not in self._addr:
            a = ta.ActorAddress(name)
            self._addr[name] = a
            self._names[id(a)] = name
        return self._addr[name]

    def name_of(self, addr):
        if isinstance(addr, str):
            return addr
        n = self._names.get(id(addr))
        if n is not None:
            return n
        for name, a in self._addr.items():
            if a == addr:
                return name
        raise KeyError("unknown address %r" % (addr,))

    def endpoint(self, name):
        ep = Endpoint(name)
        self.endpoints[name] = ep
        return self.address(name)

    # ---- actor life cycle
    def create(self, actor_class, parent=None, requirements=None, name=None):
        cls = self.class_map.get(actor_class, actor_class)
        if name is None:
            base = self.namer(actor_class, requirements) if self.namer else actor_class.__name__
            self._counter[base] += 1
            name = "%s%d" % (base, self._counter[base])
        inst = cls()
        inst._myRef = _Ref(self, name)  # pylint: disable=protected-access
        rec = ActorRec(name, inst, parent, actor_class, requirements)
        self.actors[name] = rec
        if parent in self.actors:
            self.actors[parent].children.append(name)
        return self.address(name)

    def kill(self, name, notify_parent=True):
        """The actor process dies (also used for ActorExitRequest)."""
        rec = self.actors[name]
        if not rec.alive:
            return
        rec.alive = False
        self.timers = [t for t in self.timers if t["actor"] != name]
        for key in list(self.chan):
            if key[1] == name:
                self.dead_letters.extend(self.chan[key])
                del self.chan[key]
        if notify_parent and rec.parent is not None:
            self.send(name, rec.parent, ta.ChildActorExited(self.address(name)))

    # ---- messaging
    def send(self, src, target, msg):
        dst = self.name_of(target)
        if self.send_hook is not None:
            self.send_hook(src, dst, msg)
        if dst in self.endpoints:
            self.endpoints[dst].inbox.append((src, msg))
            return
        rec = self.actors.get(dst)
        if rec is None or not rec.alive:
            self.dead_letters.append(msg)
            return
        self.chan.setdefault((src, dst), collections.deque()).append(msg)

    def arm_timer(self, actor, period, payload):
        if isinstance(period, datetime.timedelta):
            secs = period.total_seconds()
        else:
            secs = float(period)
        self._seq += 1
        self.timers.append({"actor": actor, "due": self.clock.now + max(secs, 0.0), "seq": self._seq, "payload": payload, "delay": period})

    # ---- scheduling
    def enabled(self):
        """All scheduling decisions possible now: ('deliver', src, dst) and ('wakeup', actor) (earliest timer of that actor)."""
        res = []
        for (src, dst), q in self.chan.items():
            if q and self.actors[dst].alive:
                res.append(("deliver", src, dst))
        seen = set()
        for t in sorted(self.timers, key=lambda t: (t["due"], t["seq"])):
            if t["actor"] not in seen and self.actors[t["actor"]].alive:
                seen.add(t["actor"])
                res.append(("wakeup", t["actor"]))
        return res

    def pending_timers(self, actor):
        return sorted((t for t in self.timers if t["actor"] == actor), key=lambda t: (t["due"], t["seq"]))

    def _invoke(self, name, msg, sender_name):
        rec = self.actors[name]
        sender = self.address(sender_name)
        prev = self.clock.current
        self.clock.current = name
        try:
            for attempt in (1, 2):
                try:
                    rec.instance.receiveMessage(msg, sender)
                    return
                except Exception:  # pylint: disable=broad-except
                    tb = traceback.format_exc()
                    self.handler_errors.append((name, type(msg).__name__, tb))
                    if attempt == 2:
                        if not isinstance(msg, ta.PoisonMessage):
                            self.send(name, sender_name, ta.PoisonMessage(msg, tb))
                except SystemExit:
                    # not an Exception: Thespian's retry / PoisonMessage path does not apply, the actor's process ends
                    # (its parent is told ChildActorExited) - assumption, not cross-checked by ActorSem
                    self.handler_errors.append((name, type(msg).__name__, traceback.format_exc()))
                    self.kill(name)
                    return
        finally:
            self.clock.current = prev

    def step(self, decision):
        """Executes one scheduling decision; returns a description (kind, actor, msg) of what was delivered."""
        if decision[0] == "deliver":
            _, src, dst = decision
            msg = self.chan[(src, dst)].popleft()
            if not self.chan[(src, dst)]:
                del self.chan[(src, dst)]
            if isinstance(msg, ta.ActorExitRequest):
                self._exit(dst, msg, src)
            else:
                self._invoke(dst, msg, src)
            return ("deliver", src, dst, msg)
        if decision[0] == "wakeup":
            actor = decision[1]
            t = self.pending_timers(actor)[0]
            self.timers.remove(t)
            self.clock.advance_to(t["due"])
            msg = ta.WakeupMessage(t["delay"], t["payload"])
            self._invoke(actor, msg, actor)
            return ("wakeup", actor, actor, msg)
        raise ValueError(decision)

    def _exit(self, name, msg, src):
        rec = self.actors[name]
        self._invoke(name, msg, src)
        for ch in list(rec.children):
            if self.actors[ch].alive:
                self.send(name, ch, ta.ActorExitRequest())
        self.kill(name)

    def quiescent(self):
        return not self.enabled()
