"""Generates MANIFEST.json from the table below (python -m harness.manifest_gen). Keeps the manifest valid at all times."""
import json
import os

VERIF = os.path.dirname(os.path.dirname(os.path.abspath(__file__)))

ALL = ["C%02d" % i for i in range(1, 21)]

# pid -> dict(text, note, technique, design_ref, engine)
CHECKS = {}

HOOK_COMMITS = ["be4b9b8dcb68dc53ede79ccdba22a139e7d06988"]


SPEC_DIRS = {"C01": "RaceDriver", "C07": "RaceDriver", "C09": "RaceDriver", "C06": "Throughput", "C15": "BranchMatch"}


# legs / alphabets added after the first build, per property (kept short; details in DESIGN.md §10.2 and §11)
ADDED = {
    "C01": "real-race leg (real `esrally race` under real Thespian recorded through the ESRALLY_VERIF_TRACE hooks, per-process logs merged by causality and validated by TLC against specs/RealRace; informational: recorded in the evidence, rejections are reported as drift); clauses CompletedByEnds, CompletedByCuts, NoSpuriousFailure; scenarios W3Split/W3Early/TwoCB/TwoAny/Ragged and a generated family; blocking waits and unprojectable states handled; progress reporting on in half of the races.",
    "C02": "a leg on the real Driver.start_benchmark (rows sent to workers partition the clients).",
    "C03": "exact ceil table for ingest-percentage; corpora loaded by the real loader; stale offset-table histories; adapter leg through the real AsyncIoAdapter (tasks sharing an operation); explicit corpora lists. Registration order of the co-located clients of a worker varies (listed, reversed, rotated, shuffled).",
    "C04": "sub-millisecond schedule offsets; element leg (real Allocator/AsyncIoAdapter); completion event inside a throttle wait; wire leg incl. responses cut after the headers and two target hosts; TLS errors among the error outcomes. Clause C04_ProcessingWithinRequest.",
    "C05": "element leg with ramp-up; completion-exposing runners; driver progress leg (clients in lockstep and of any speed). Failing requests that still report a weight (success: false with weight > 0) in the model's outcome alphabet and in every generator.",
    "C06": "driver leg (calculate() calls of the real Driver in simulated races); mixed units within a task.",
    "C07": "generated scenarios; preemption at unlocked accesses to the sampler's deque; high-volume leg; client id observed at the wire. Composite leg: the dependent timings the real runner.Composite returns (one per executed sub-request) on seeded random request trees, clause TimingsOwn of specs/Composite as DependentTimingPerSubRequest.",
    "C08": "hand-overs through bulk_add as race control does; dependent timings; stored percentile key set; non-ASCII races read back under LC_ALL=C; query leg on two real EsMetricsStores (writer without refresh, reader) over a fake Elasticsearch that evaluates the searches and makes documents searchable on refresh only.",
    "C09": "prep leg (TrackPrep.tla); unsuccessful results and retried connection errors as request faults; lenient tasks next to strict ones; siblings that go on after a failure. The class of the injected parameter-source failure varies (RuntimeError family included); every 4th store failure is a SystemExit (not an Exception: ends the actor in the simulated system).",
    "C10": "target-index rules; exists_set_param macro; special characters; parameters used only in index bodies/templates; imported macros and single-quoted collect; base-url per document set; verbatim text of operation parameters inside included parts (IncludedTextVerbatim). Directed timing family: every non-empty subset of warmup-iterations / iterations / warmup-time-period / time-period / ramp-up on a task, inherited from a parallel element, or split.",
    "C11": "multi-challenge tracks; emptied parallels; case-sensitive and custom operation-type filters; a RACE leg: complete simulated races (real BenchmarkActor/DriverActor/Workers, TLC-simulated behaviours of RaceDriver.tla, TLC trace validation) on tracks that are what the real filter leaves of a larger track.",
    "C12": "multi-lifecycle histories incl. restart after a failed start; buffering metrics store (ShutdownMetricsStored); race unknown to the host's race store; exhaustive stop-outcome family under the real ProcessLauncher.stop (incl. gone at SIGKILL).",
    "C13": "several nodes from one Car object; docker provisioning path; locale leg (child interpreter under LC_ALL=C); a data path that cannot be deleted at clean-up. Templates that render to nothing (E1-E3) in the model universe and the generated team directories.",
    "C14": "CRLF corpora; corrupt-payload and over-expanding archives; short bodies; stalled connections; sub-second table age; final 3xx answers; signatures that tell who left a trusted file. Needs leg: WHICH document files preparation is asked for (specs/CorpusPrep/Needed.tla vs the real used_corpora / DefaultTrackPreparator over tracks with several schedule items per corpus).",
    "C15": "dirty working copy; branches deleted upstream; recorded revision. Tag-fallback repositories whose tags are string prefixes but not variants of the version.",
    "C16": "histories on one Retry instance and one shared params dict (ParamsUntouched).",
    "C17": "error body shapes; many-item bulk errors; concrete connection error classes; transport-layer leg through the real RallySyncElasticsearch; store leg (real EsMetricsStore put/flush/close histories over guarded calls with whole-call outcomes, validated against EsStore.tla: documents of a bulk_index call that returned are never handed over again).",
    "C18": "failing sub-requests and failed streams (judged after fix f822262); ClientIndependent (solo re-execution); DependentDated; wire leg incl. responses cut after the headers and two target hosts.",
    "C19": "bulk items status x _shards x op types; hits.total shapes; error description transcription; dotted member names.",
    "C20": "colliding task/operation names; locale leg (report file under LC_ALL=C).",
}

MORE_SPEC_DIRS = {"C07": ["Composite"], "C09": ["TrackPrep"], "C01": ["ActorSem", "RealRace"], "C17": ["EsStore"], "C11": ["RaceDriver"], "C04": ["WireTiming"], "C18": ["WireTiming"]}


def check(pid, text, note, technique, engine="tlc", design_ref=None, spec=None):
    CHECKS[pid] = dict(text=text, note=note, technique=technique, engine=engine, design_ref=design_ref or ("DESIGN.md §4 " + pid))
    if spec:
        SPEC_DIRS[pid] = spec


def claimed_spec_dirs():
    return sorted({SPEC_DIRS[p] for p in CHECKS if p in SPEC_DIRS} | {d for p in CHECKS for d in MORE_SPEC_DIRS.get(p, ())})


check(
    "C06",
    "TLC model-checks Throughput.tla (the calculator's TaskStats state machine; every arrival stream within the bounds x every cut into "
    "calculate() calls) against conservation / value / sample-type invariants; TLC-simulated behaviours are replayed into the real "
    "ThroughputCalculator with an exact Fraction clock and every recorded execution (also seeded random multi-task streams) is validated "
    "by TLC against TraceThroughput.tla: the property formulas on the recorded TaskStats (L1) and step conformance to the spec (L2). A driver leg validates every "
    "ThroughputCalculator.calculate() call the REAL Driver makes in simulated races (periodic post-processing and join points; whatever calculator object is in use) against the same trace spec.",
    "Bounds: <=5 samples, 2 clients, times <= 2.5 s exhaustive; wider alphabets by simulation. Trusted: TLC, the projection of TaskStats "
    "(attributes read directly), dyadic times so that the implementation's arithmetic is exact.",
    "TLA+ spec + TLC exhaustive model checking; spec-to-code replay of TLC behaviours; TLC trace validation of recorded executions",
)

check(
    "C15",
    "TLC enumerates every subset of a 9/13-branch universe x every version (BranchMatch.tla) and checks that the transcription of "
    "versions.best_match equals the documented precedence plus corollaries (never another major, never a later minor, master only if "
    "newer/unknown, error iff nothing qualifies); every TLC state is replayed on the real best_match, sampled states become real git "
    "repositories (remote, local branches, v-tags; branches deleted upstream after the clone; a working copy with uncommitted changes) run through RallyRepository.update; all recorded results are "
    "validated by TLC (also: the revision Rally records is the commit in use; with a dirty working copy Rally ends on the best match or reports an error).",
    "Bounds: majors 5..9, minors 0..4, patches {0,2}, 3 suffixes; wider numbers only by seeded random cases. git is trusted. "
    "A master branch is assumed to exist.",
    "TLA+ transcription + TLC exhaustive enumeration; every state replayed on the implementation; TLC validation of recorded results",
)

check(
    "C01",
    "TLC model-checks RaceDriver.tla (coordinator, workers, executors, FIFO channels, untimed wake-ups; one action per message handler / "
    "executor step of driver.py) for the barrier, exactly-once, complete-once, completed-by and no-stall invariants over every interleaving of a "
    "scenario family (also: the element ends as soon as the named task is done - CompletedByEnds; no failure is reported in a fault-free race - NoSpuriousFailure), and <>Complete under weak fairness; TLC behaviours and the counterexamples of the pinned model variants are replayed into the "
    "REAL DriverActor/Driver/Worker/AsyncIoAdapter/AsyncExecutor under a simulated actor system with virtual time; every recorded execution "
    "(also seeded random schedules, clock offsets, non-test mode) is validated by TLC against TraceRaceDriver.tla (property formulas on the "
    "recorded state = L1, step conformance = L2).",
    "Bounds: <= 3 workers, <= 3 clients, 2 schedule elements, iteration-based, time-period based and eternal tasks, unthrottled; hand-written scenario families are exhaustive in TLC, a seeded generated family (parallels of 1-3 tasks, clients cap, completed-by task/any) is simulated and run on the real actors. Trusted: the reproduction of "
    "Thespian's delivery semantics in harness/simactor.py; executor/actor thread interleaving only at request boundaries.",
    "TLA+ actor-protocol spec + TLC safety and liveness checking; replay of TLC behaviours/counterexamples into the real actors; TLC trace validation of simulated races and (informational) of real multi-process races recorded through environment-guarded hooks, per-process logs merged by causality",
    engine="tlc+simactor",
)
check(
    "C07",
    "Same specification and harness as C01; decides the sample-pipeline invariants of RaceDriver.tla: every produced, non-dropped sample is in exactly "
    "one stage (sampler queue, UpdateSamples in flight, raw samples, driver store, hand-over message, race control), everything is at race control "
    "when the race completes, only a full queue drops samples, and the final record table holds exactly one latency/service_time/processing_time "
    "record per executed request with the right meta data. Model checked by TLC for every interleaving of shipments, periodic post-processing "
    "ticks and step boundaries; checked on recorded executions of the real actors (queue sizes 1, 2, unbounded) by TLC trace validation. A high-volume leg queues 40,000+ samples in a real worker when its task ends: all must leave the worker unless the queue is full at its configured size.",
    "Bounds as C01; downsampling factor 1 only; in-memory metrics store; race control is an endpoint that keeps the received metrics payloads.",
    "TLA+ actor-protocol spec + TLC model checking; replay of TLC behaviours into the real actors; TLC trace validation",
    engine="tlc+simactor",
)

check(
    "C09",
    "Same specification and harness as C01/C07, extended by race control (the REAL BenchmarkActor/BenchmarkCoordinator with a scratch FileRaceStore; stub mechanic) and one "
    "fault per behaviour at every enabled point: request fails fatally (on-error=abort / fatal connection error / runner raises), parameter source raises, the driver's metrics "
    "store fails during periodic or join-point post-processing, race control's bulk_add fails, a worker dies, the user cancels. TLC checks FaultNeverSuccess, NoResultsOnFailure, "
    "CancelNoResults over all interleavings and FaultReported (failure reaches race control) as liveness under weak fairness; TLC behaviours and the counterexamples of the "
    "pinned/known-deviation variants are replayed into the real actors; every recorded execution is validated by TLC (L1 clauses on race.json / summary / first answer, L2 steps). "
    "Prep leg: TrackPrep.tla models DriverActor.prepare_track / TrackPreparationActor / TaskExecutionActor (barriers, resume, no_retry answers, PoisonMessage path) with one fault per "
    "behaviour (a task raises at any processor/position/host, on_prepare_track raises, load_track_plugins raises, a task failure combined with a failing Driver.close()); TLC checks "
    "FailureNeverCompletes, FaultNeverSuccess, NoResultsOnFailure, NoStall and FaultReported/Completes under fairness; TLC behaviours and random schedules run on the REAL preparation actors "
    "and BenchmarkActor and every step is validated by TLC against TraceTrackPrep.tla.",
    "Bounds: 2 workers, <= 3 clients, <= 2 elements, one fault; prep leg: 1-2 hosts x 1-2 executors, 1-2 processors of 0-3 tasks (plus the 3 required no-op processors). 'Bounded time' = "
    "bounded number of hops under fair scheduling, each hop at most one wake-up interval. Known finding F16 (race control's own store failure overtaken by completion) is re-observed and "
    "listed. PrepCompleteOnlyWhenAllDone is stronger than C09 and only reported as drift. The death of a preparation actor is not covered (C09 names worker processes).",
    "TLA+ actor-protocol spec with fault actions + TLC safety and liveness checking; replay of TLC behaviours/counterexamples into the real actors; TLC trace validation",
    engine="tlc+simactor",
)
check(
    "C08",
    "Function-like TLA+ transcription (Stats.tla) of the results path: store selection by task/sample type/operation type, percentile_value (rank p/100*(n-1), linear interpolation, exact "
    "rationals), stats, error rate, percentiles_for_sample_size, GlobalStatsCalculator, GlobalStats defaults and the as_dict -> JSON -> from_dict round trip. TLC enumerates bags of <= 5 values "
    "with success flags x warm-up / other-task / other-metric / foreign-operation records, arithmetic-progression stores around the size thresholds and 768 result documents; every TLC state is "
    "loaded into a REAL InMemoryMetricsStore, evaluated by calculate_results, stored with FileRaceStore and read back via find_by_race_id and list(); all recordings plus seeded random stores are "
    "validated by TLC (OnlyNormal, PctMonotone, PctBounds, P100Max, P50Median, MeanMinMax, PctSetByCount, ErrorRate, RoundTrip; L2 = transcription).",
    "An implementation float is identified with the rational (denominator <= 2*10^4) it agrees with to 1e-9; inputs are integers times a unit scale. Exact interpolation values and thresholds "
    "are L2. EsMetricsStore/EsRaceStore out of scope.",
    "TLA+ transcription + TLC exhaustive enumeration; every state replayed on the implementation incl. file round trip; TLC validation of recorded results",
    spec="Stats",
)
check(
    "C12",
    "TLC model (Mechanic.tla) of the MechanicActor / Dispatcher / NodeMechanicActor protocol (FIFO channels, handlers as written, race control and remote daemons as environment): safety "
    "invariants (StartedOnlyWhenAll, StopAtMostOnce, StoppedOnlyWhenAll incl. flush/store/cleanup-unless-preserve, ExternalUntouched/Answered, NoStall, FaultReported) over all interleavings "
    "and every single fault for target lists of <= 3 entries, liveness under weak fairness; TLC behaviours and counterexamples of the pinned variant are replayed into the REAL actors and "
    "Mechanic under SimActorSystem with recording supplier/provisioner/launcher stubs; every execution incl. seeded random schedules is validated by TLC (L1 formulas, L2 actions).",
    "Trusted: Thespian semantics as in simactor.py incl. convention updates; a host's start is atomic; at most one fault; remote departure explored only while the Dispatcher is subscribed.",
    "TLA+ actor-protocol spec + TLC safety and liveness checking; replay into the real actors; TLC trace validation",
    engine="tlc+simactor",
    spec="Mechanic",
)
check(
    "C16",
    "TLC model-checks Retry.tla (attempt loop of runner.Retry: 10 outcome classes x retries -1..3 x retry-until-success x retry-on-timeout x retry-on-error x wait period; every outcome "
    "sequence) for at-most retries+1, spacing = wait period, retry only when allowed, stop at first success, return that attempt, non-retryable immediately, last attempt verbatim, and for "
    "'transcribed reaction = documented reaction'; every maximal path of the model and TLC -simulate behaviours are executed on the REAL runner.Retry on a virtual-time asyncio loop around a "
    "scripted delegate raising real elasticsearch/elastic_transport/socket exceptions, also through the runner chain registered for every retryable operation type; every recorded run is "
    "validated by TLC against TraceRetry.tla. The registry's Retry table is compared by TLC with the operations marked retryable in docs/track.rst.",
    "Exhaustive for retries <= 3 (4), until-success depth 4 (6); wider by simulation/random. Trusted: the virtual-time loop, classification of exception classes of elasticsearch-py 8.6.1. "
    "A pause after the last attempt is L2 only.",
    "TLA+ transcription + documented reaction, TLC exhaustive checking; every path replayed on the implementation under virtual time; TLC trace validation",
    spec="Retry",
)
check(
    "C17",
    "TLC model-checks Guarded.tla (retry loop of metrics.EsClient.guarded; outcomes ok / ConnectionTimeout / ConnectionError / ApiError with 10 status codes / other TransportError / "
    "BulkIndexError with every set of item statuses) for budget 11 calls, exponentially growing pauses, retry only transient classes (also per bulk item), no call after success, first success "
    "returned, non-retryable and exhaustion surface as RallyError naming the cause; all paths of the real-budget model, an edge cover (#preceding retries x full alphabet) for EVERY public "
    "EsClient operation and TLC -simulate behaviours are executed on the real EsClient over a scripted client raising real exception instances (real elasticsearch.helpers.bulk), "
    "time.sleep/random.random recorded; all runs validated by TLC against TraceGuarded.tla.",
    "'names the cause' = message contains a word for the fault class or the fault's type/status; 'exponentially growing' = pause i in [2^(i-1), 2^i) s.",
    "TLA+ transcription + TLC exhaustive checking (history variable / VIEW); paths and edge cover replayed through every public store operation; TLC trace validation",
    spec="Guarded",
)
check(
    "C19",
    "TLC model-checks FastParse.tla: the event-level machine of runner.parse over ijson's (prefix, event, value) stream, BulkIndex.simple_stats/detailed_stats, SearchAfterExtractor, "
    "CompositeAggExtractor and the Query sub-runners' hit/page accounting, against equality with the full parse, over JSON trees with look-alike paths, bulk responses <= 3 (4) items with "
    "consistent and inconsistent 'errors', search responses with sort arrays and _source.sort, page sequences; the model's input universe is serialised by the harness into JSON bytes in seeded "
    "lexical variants (key order, whitespace styles, adversarial strings/escapes/UTF-8, big and float numbers, a filler crossing ijson's buffer) and run on the real code; every execution plus "
    "seeded random ones is validated by TLC (L1 clauses, L2 transcription, Events(tree) = ijson's stream).",
    "Tokenisation (ijson, re, json) is trusted. Failed(item) = status > 299 or _shards.failed > 0. Known findings F7a (fast path trusts 'errors') and F7b (search_after cursor regex) are "
    "re-observed and listed.",
    "TLA+ transcription + TLC exhaustive enumeration; model inputs executed on the implementation in lexical variants; TLC validation",
    spec="FastParse",
)
check(
    "C20",
    "Function-like spec Compare.tla listing all 124 row kinds of ComparisonReporter with their direction; TLC enumerates every ordered value pair (absent, 0, 4e-6, 1/2, 1, 3, -2, ...) on every "
    "row kind across structure variants; every TLC state becomes two real Race/GlobalStats objects stored with FileRaceStore and read back, the real _metrics_table is run plain and rich, "
    "swapped and as self-comparison, report() writes markdown and csv; all rows, colours and file/console cells (plus seeded random pairs) are validated by TLC: RowPerCommonMetric, "
    "DiffIsContenderMinusBaseline, MarkMatchesDirection, ZeroPrintsNeutral, SelfCompareNoDifference, SwapFlips, PlainIsRichWithoutColour, FileEqualsConsole.",
    "The relative difference for a zero baseline is not defined by the statement (known finding F8 for the swap clause). tabulate rendering trusted; rounding ties accepted either way.",
    "TLA+ transcription + TLC exhaustive enumeration; every state replayed on the implementation; TLC validation of recorded rows",
    spec="Compare",
)

check(
    "C02",
    "TLC enumerates every schedule (leaf tasks and parallel elements with per-task clients, client caps that over-commit or exceed need, completed-by) and every host list with core counts "
    "and client count within the bounds and checks on the transcription of Allocator.allocations / join_points / tasks_per_joinpoint and calculate_worker_assignments (Allocator.tla): "
    "rectangular matrix, aligned join points, every client index of a task exactly once, all tasks of an element between the same join points on every client, one non-empty progress entry per "
    "step equal to the element's tasks, exact contiguous one-worker-per-core +-1-balanced partition of client ids. Every TLC input runs on the real Allocator / calculate_worker_assignments "
    "with real track objects; schedules after the real TaskFilterTrackProcessor and seeded random larger shapes are added; the real Driver.update_progress_message walks every step; all "
    "recorded matrices and assignments are validated by TLC (L1 clauses on recorded values, L2 equality with the transcription).",
    "Bounds quick: <= 2 elements, parallels <= 2 tasks, clients 1..3, caps {none,1,2,5}; hosts <= 3 x cores 1..4 x n <= 12; thorough <= 3 elements, <= 3 tasks, clients <= 4, hosts <= 4, n <= 20; "
    "random <= 6 elements, <= 64 clients, <= 8 hosts. Assumes unique task names.",
    "TLA+ transcription + TLC exhaustive enumeration; every state replayed on the implementation; TLC validation of recorded results",
    spec="Allocator",
)
check(
    "C11",
    "TLC enumerates every (schedule, <= 2 filters from name / type: / tag: including ones matching nothing, include/exclude) on the transcription of TaskFilterTrackProcessor (TaskFilter.tla, "
    "extends Allocator.tla) and checks ExactSelection (remaining leaves = documented selection, same order, records unchanged), SameGrouping, NoEmptyParallel and Runnable (the C02 clauses on the "
    "allocation of the filtered schedule). Every TLC input becomes a real Track and goes through the real processor configured via config.Config with filters parsed by the real code, then the "
    "real Allocator and Driver.update_progress_message; seeded random larger schedules are added; all recorded results are validated by TLC.",
    "Bounds quick: <= 2 elements, parallels <= 2 tasks, 3 task kinds, 6-filter alphabet; thorough <= 3 elements, <= 3 tasks, 10 filters. 'Unchanged' is observed on name, type, tags, clients, "
    "completed-by flags and a fingerprint of the remaining attributes. Race leg: 13 (thorough ~150) generated schedules of <= 2 elements / <= 3 clients, each obtained by the real filter from a larger track, raced under SimActorSystem (trusted base as C01).",
    "TLA+ transcription + TLC exhaustive enumeration; every state replayed on the implementation; TLC simulation of RaceDriver.tla replayed as races on filtered tracks; TLC validation of recorded results and race traces",
    spec="TaskFilter",
)

check(
    "C13",
    "Function-like spec Team.tla: an operational transcription (folds) of team.load_car / CarLoader.load_car, ElasticsearchInstaller data paths and variables, _provisioner_variables, "
    "_apply_config (append or copy), delete_pre_bundled_configuration and cleanup, with declarative L1 clauses (BasesInOrderNoDuplicates, AtLeastOneBaseElseError, CarParamsOverrideAll, "
    "LaterCarOverridesEarlierAndBases, BaseVariablesInOrder, NodeVariablesNotOverridable, SameRelativePath, TextRenderedAndAppended, BinaryVerbatimLastWins, CleanupAllOrNothing); TLC checks "
    "three input universes exhaustively; each TLC input becomes a REAL team directory (cars/v1/*.ini, config bases with Jinja templates and binary blobs) and stub distribution archive, run "
    "through the real load_car, ElasticsearchInstaller, BareProvisioner.prepare and provisioner.cleanup; every execution (plus seeded random larger teams) is projected to JSON and validated by TLC.",
    "Bounds: <= 3 cars, 3 bases, trees of <= 3 files, single-line {{var}} templates, no plugins/hooks/Docker. jinja2, configparser, tarfile, file system trusted. Quick replays a 1/5 sample "
    "of the TLC inputs, thorough all.",
    "TLA+ transcription + TLC exhaustive enumeration; state table replayed on real file systems; TLC validation of recorded results",
    spec="Team",
)

check(
    "C04",
    "TLC model-checks ClientLoop.tla (one client's timed request loop: schedule_for / ScheduleHandle / IterationBased|TimePeriodBased / Unthrottled|UnitAwareScheduler->Deterministic|Poisson / "
    "AsyncExecutor / execute_single / Sampler, actions in the code's order of clock reads) over every service-time/overhead/outcome/weight sequence for every pacing and unit variant, against "
    "proc >= svc >= 0, svc = wire span, not-before-schedule, latency = response - scheduled time (throttled) / = service time (unthrottled), one sample per request carrying client/task/type/issue "
    "time. TLC-simulated behaviours are executed by the real code on a virtual-time asyncio loop with a scripted fake client; every recorded run (also seeded random dyadic and millisecond ones) is "
    "validated by TLC against TraceClientLoop.tla (L1 clauses on the record, L2 step conformance for tick-exact runs). An element leg runs parallel elements (over-committed or not) through the "
    "real Allocator -> ClientAllocations -> AsyncIoAdapter; a wire leg runs the REAL client of EsClientFactory.create_async() (aiohttp trace hooks) against a scripted loopback HTTP server in real time "
    "and lets TLC judge the recorded start/end against the server-side instants (WireTiming.tla).",
    "Bounds: <= 2 clients / parallel of <= 4 exhaustively, <= 3 iterations or <= 5 ticks, svc <= 2*interval+1, <= 1 error, weights {1,2}; wider by simulation/random; schedule offsets down to 1/2048 s. Trusted: vclock (time passes "
    "only in asyncio.sleep and the scripted request), dyadic parameters for exact floats (else 1 ms rounding, tolerance 3 ms). Wire leg: real time, injected delays 0.15-0.4 s, tolerance max(50 ms, 40% of the smallest delay). The first request of a throttled task is scheduled at 0 (named in the model).",
    "timed TLA+ spec + TLC exhaustive checking; spec-to-code replay of TLC behaviours on a virtual clock; TLC trace validation",
    engine="tlc+vclock",
    spec="ClientLoop",
)
check(
    "C05",
    "Same specification and legs as C04 (ClientLoop.tla); clauses: exact iteration count, warm-up flags by iteration or by decision instant (one straddling request free), no request decided "
    "after warm-up period + time period, sample type / progress / scheduled time monotone, progress in [0,1] and exactly 1 at the end of iteration-based tasks, deterministic gap = weight*C/T, "
    "first yield at ramp-up*i/total. Element leg: parallels with ramp-up through the real Allocator/AsyncIoAdapter; runners exposing completed/percent_completed; driver progress leg: "
    "DriverProgress.tla against the progress the REAL Driver reports across consecutive tasks (range, monotone within a task, never above the samples received).",
    "As C04, plus warm-up 0..2 x iterations 1..3, warm-up period 0..3(4) x time period 1..4 ticks, ramp-up for client 1 of 2 and clients 1 and 3 of 4.",
    "timed TLA+ spec + TLC exhaustive checking; spec-to-code replay of TLC behaviours on a virtual clock; TLC trace validation",
    engine="tlc+vclock",
    spec="ClientLoop",
)

check(
    "C03",
    "TLC model-checks BulkPartition.tla, a transcription of bounds, number_of_bulks, create_readers (corpus staggering, round-robin over files), Slice/reader chunking, _init_internal_params "
    "(min..max span, ceil of the percentage) and GenerateActionMetaData, over every file layout x client count x contiguous split into co-located groups x bulk size x percentage x either offset "
    "at a .5 tie x every order in which co-located clients call params() on the shared source: ExactCover, ContiguousInOrder, BulkBound, Paired, PctStop, ConflictsLocal, SeekCorrect. TLC "
    "-simulate behaviours are executed on the real code with real files (multi-byte text, with/without action-and-meta-data lines), real offset tables, real Track/Task and BulkIndexParamSource "
    "via loader.operation_parameters, partition() through the real driver.schedule_for, params() in TLC's order, every parameter dict through the real runner.BulkIndex to a stand-in _bulk "
    "endpoint; groups are also taken from the real Allocator + calculate_worker_assignments; files > 50,000 lines exercise the offset-table path; bounds() chains up to 10^12 documents. All "
    "recordings are validated by TLC against TraceBulkPartition.tla (L1 clauses on the recorded bulks, L2 = NextBulk step).",
    "Model bounds: <= 3 files in <= 2 corpora, docs <= 7, N <= 4, <= 3 groups, bulk 1..3, percentages 100/50/25/12.5; simulation/random wider. Totals 10^9..10^12 at bounds() level only "
    "(two 10^6 limbs). Non-contiguous client groups are shown not to be produced by the real allocator (re-derived on every run); a hand-made one is flagged.",
    "TLA+ spec + TLC exhaustive checking; replay of TLC behaviours and states on the real code with real files; TLC trace validation",
    spec="BulkPartition",
)
check(
    "C10",
    "TLC explores a builder state machine over abstract track files (TrackModel.tla: three challenge forms, parallel elements with defaults/cap/completed-by, operations by name/type/inline, "
    "corpora with indices | data streams, Jinja parameters with defaults, supplied --track-params, rally.collect parts, schema-level defects at every position) and checks that the transcription "
    "of the loader satisfies Fidelity / ValidLoads / Rejection w.r.t. declarative rules and the expected Track. Reachable files and the final files of TLC -simulate behaviours are rendered into "
    "real track directories and loaded by the real TrackFileReader.read (10% through load_track); the Track is projected back and every recorded load, plus seeded random files and the "
    "operation-type registry table, is validated by TLC against TraceTrackModel.tla (L1 clauses, L2 = transcription incl. error class).",
    "Bounds: <= 2-3 challenges, 3-4 elements, 3 parallel tasks, small alphabets exhaustively, wide ones by simulation/random. Jinja2, json, jsonschema trusted; only rendered constructs "
    "exercised. Known finding F13 (iterations together with time-period is loaded) is re-observed and listed.",
    "TLA+ builder spec + TLC exhaustive exploration; every state a generated implementation test; TLC validation of recorded loads",
    spec="TrackModel",
)
check(
    "C18",
    "TLC model-checks ReqContext.tla (asyncio tasks holding a context-variable pointer that create_task copies shallowly; one action per critical section of client/context.py: Enter, "
    "WireStart, WireEnd per chunk, Exit with propagation, Spawn, Join) over every program within the bounds, every interleaving and completion order, for SpanStart, SpanEnd, LeafExact and "
    "NoLeak; the as-written variant must violate them in the model and its counterexamples are executed on the real code. TLC -simulate behaviours are executed step by step by scripted "
    "coroutines on the real RequestContextHolder/Manager under a virtual clock, and projected onto composite requests run by the real AsyncExecutor -> Composite -> RequestTiming -> runners "
    "against a scripted fake ES with all clients in one loop. Every recording plus seeded random cases is validated by TLC against TraceReqContext.tla. A wire leg runs the REAL client of "
    "EsClientFactory.create_async() (aiohttp trace hooks) against a scripted loopback HTTP server (late headers, streamed bodies, timeouts, closed sockets; several wire requests and nested contexts per "
    "logical request) in real time; TLC judges recorded start/end against the server-side instants (WireTiming.tla).",
    "Exhaustive bounds: <= 2 clients, <= 4 tasks, <= 4 contexts, depth <= 3, <= 3 concurrent children, <= 4 wire requests, <= 2 extra chunks (split over three cfgs); simulation wider. "
    "Nothing is claimed for a context without any wire request.",
    "TLA+ spec + TLC exhaustive checking under a rank view; replay of TLC behaviours and counterexamples into real coroutines and the real AsyncExecutor/Composite; TLC trace validation",
    engine="tlc+vclock",
    spec="ReqContext",
)

check(
    "C14",
    "CorpusPrep.tla is a file-system state machine of prepare_document_set / prepare_bundled_document_set and what they call (one decision or one change of {doc, archive, .tmp, offset table, "
    "mtime relation} per step): every initial directory state x size declaration x 9 formats x tool mode x net mode x outcome of each of the up to 11 download attempts x kill/interrupt in every "
    "state of a first run followed by a fresh second run. TLC -simulate behaviours run on the real DocumentSetPreparator, Downloader, Decompressor, net.download, io.decompress, "
    "io.prepare_file_offset_table and io.skip_lines with real files (100,001-line ndjson, real bz2/gz/zst/zip/tar archives, real tools), a scripted urllib3 pool handing out real HTTPResponse "
    "objects, crashes by fork+_exit or BaseException at the k-th observed mutating call; every chain is projected (content class, mtime relation, table parse, seek equivalence for every line) "
    "and validated by TLC: L1 ReturnedOK, ExplicitEnd, NoPartialFinal; L2 the observed sequence of directory states, end kind, exception kind, numbers of requests and pauses.",
    "ndjson with \\n line ends; HTTP(S) only; no checksums in the track format (a complete local file is genuine unless a declared size contradicts it); no crash while an external tool runs; "
    "chains are two runs long. Known findings F10a/b/c (truncation inside the last line, skipped line-count check after a killed table build, offset tables trusted by mtime only) are re-observed and listed.",
    "TLA+ file-system state machine with crash actions + TLC exhaustive checking; replay of TLC behaviours on real files with fault and crash injection; TLC trace validation",
    spec="CorpusPrep",
)

NOT_YET = "check under construction in this round (specification planned in DESIGN.md §4); not claimed yet"


def build():
    checks = []
    for pid in ALL:
        if pid not in CHECKS:
            continue
        c = CHECKS[pid]
        checks.append(
            {
                "property_id": pid,
                "quick_cmd": "./check %s --tier quick" % pid,
                "thorough_cmd": "./check %s --tier thorough" % pid,
                "evidence_file": "/verif/evidence/%s.json" % pid,
                "replay_cmd_template": "./check %s --replay {path}" % pid,
                "engine": c["engine"],
                "level_claimed": {"category": "model_checking", "text": c["text"], "design_ref": c["design_ref"]},
                "level_note": c["note"] + ((" Added while seeded changes were studied (DESIGN.md §11): " + ADDED[pid]) if pid in ADDED else ""),
                "technique": c["technique"],
            }
        )
    m = {
        "version": 1,
        "setup_cmd": "./check --setup",
        "hooks": {
            "guard": "ESRALLY_VERIF_TRACE",
            "enable": "checks import esrally from /repo's working tree; the hooks (esrally/utils/veriftrace.py + one-line calls in esrally/driver/driver.py) are active only when ESRALLY_VERIF_TRACE=<dir> is set, which only the real-race leg (harness/extras/realrace.py, run by C01) does for the esrally processes it starts; all simulated legs remove the variable",
            "baseline_off_cmd": "cd /repo && env -u ESRALLY_VERIF_TRACE /venv/bin/python -m pytest -ra -q -p no:cacheprovider --timeout=900 --continue-on-collection-errors",
            "source_commits": HOOK_COMMITS,
            "add_only": True,
        },
        "engines": [
            {"name": "tlc", "path": "harness/tlc.py", "serves_properties": sorted(CHECKS), "kind_free_text": "TLC 1.8 model checker on specs/*/*.tla: exhaustive checking, simulation, batch trace validation"},
            {"name": "simactor", "path": "harness/simactor.py", "serves_properties": [p for p in ("C01", "C07", "C09", "C11", "C12") if p in CHECKS], "kind_free_text": "runs the real Thespian actor classes single-threaded under a scheduler the harness controls (virtual time, scripted fake Elasticsearch)"},
        ],
        "checks": checks,
        "notes": "All checks: ./check <id> [--tier quick|thorough]. known findings / fixed defects: /verif/known_findings.json. Design: /verif/DESIGN.md.",
        "not_applicable": [{"property_id": pid, "reason": NOT_YET} for pid in ALL if pid not in CHECKS],
    }
    return m


if __name__ == "__main__":
    m = build()
    with open(os.path.join(VERIF, "MANIFEST.json"), "w", encoding="utf-8") as f:
        json.dump(m, f, indent=1)
    print("MANIFEST.json written: %d checks, %d not_applicable" % (len(m["checks"]), len(m["not_applicable"])))
