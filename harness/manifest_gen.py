"""Generates MANIFEST.json from the table below (python -m harness.manifest_gen). Keeps the manifest valid at all times."""
import json
import os

VERIF = os.path.dirname(os.path.dirname(os.path.abspath(__file__)))

ALL = ["C%02d" % i for i in range(1, 21)]

# pid -> dict(text, note, technique, design_ref, engine)
CHECKS = {}

HOOK_COMMITS = []


SPEC_DIRS = {"C01": "RaceDriver", "C07": "RaceDriver", "C09": "RaceDriver", "C06": "Throughput", "C15": "BranchMatch"}


def check(pid, text, note, technique, engine="tlc", design_ref=None, spec=None):
    CHECKS[pid] = dict(text=text, note=note, technique=technique, engine=engine, design_ref=design_ref or ("DESIGN.md §4 " + pid))
    if spec:
        SPEC_DIRS[pid] = spec


def claimed_spec_dirs():
    return sorted({SPEC_DIRS[p] for p in CHECKS if p in SPEC_DIRS})


check(
    "C06",
    "TLC model-checks Throughput.tla (the calculator's TaskStats state machine; every arrival stream within the bounds x every cut into "
    "calculate() calls) against conservation / value / sample-type invariants; TLC-simulated behaviours are replayed into the real "
    "ThroughputCalculator with an exact Fraction clock and every recorded execution (also seeded random multi-task streams) is validated "
    "by TLC against TraceThroughput.tla: the property formulas on the recorded TaskStats (L1) and step conformance to the spec (L2).",
    "Bounds: <=5 samples, 2 clients, times <= 2.5 s exhaustive; wider alphabets by simulation. Trusted: TLC, the projection of TaskStats "
    "(attributes read directly), dyadic times so that the implementation's arithmetic is exact.",
    "TLA+ spec + TLC exhaustive model checking; spec-to-code replay of TLC behaviours; TLC trace validation of recorded executions",
)

check(
    "C15",
    "TLC enumerates every subset of a 9/13-branch universe x every version (BranchMatch.tla) and checks that the transcription of "
    "versions.best_match equals the documented precedence plus corollaries (never another major, never a later minor, master only if "
    "newer/unknown, error iff nothing qualifies); every TLC state is replayed on the real best_match, sampled states become real git "
    "repositories (remote, local branches, v-tags) run through RallyRepository.update; all recorded results are validated by TLC.",
    "Bounds: majors 5..9, minors 0..4, patches {0,2}, 3 suffixes; wider numbers only by seeded random cases. git is trusted. "
    "A master branch is assumed to exist.",
    "TLA+ transcription + TLC exhaustive enumeration; every state replayed on the implementation; TLC validation of recorded results",
)

check(
    "C01",
    "TLC model-checks RaceDriver.tla (coordinator, workers, executors, FIFO channels, untimed wake-ups; one action per message handler / "
    "executor step of driver.py) for the barrier, exactly-once, complete-once, completed-by and no-stall invariants over every interleaving of a "
    "scenario family, and <>Complete under weak fairness; TLC behaviours and the counterexamples of the pinned model variants are replayed into the "
    "REAL DriverActor/Driver/Worker/AsyncIoAdapter/AsyncExecutor under a simulated actor system with virtual time; every recorded execution "
    "(also seeded random schedules, clock offsets, non-test mode) is validated by TLC against TraceRaceDriver.tla (property formulas on the "
    "recorded state = L1, step conformance = L2).",
    "Bounds: <= 3 workers, <= 3 clients, 2 schedule elements, iteration-based and eternal tasks, unthrottled. Trusted: the reproduction of "
    "Thespian's delivery semantics in harness/simactor.py; executor/actor thread interleaving only at request boundaries.",
    "TLA+ actor-protocol spec + TLC safety and liveness checking; replay of TLC behaviours/counterexamples into the real actors; TLC trace validation",
    engine="tlc+simactor",
)
check(
    "C07",
    "Same specification and harness as C01; decides the sample-pipeline invariants of RaceDriver.tla: every produced, non-dropped sample is in exactly "
    "one stage (sampler queue, UpdateSamples in flight, raw samples, driver store, hand-over message, race control), everything is at race control "
    "when the race completes, only a full queue drops samples, and the final record table holds exactly one latency/service_time/processing_time "
    "record per executed request with the right meta data. Model checked by TLC for every interleaving of shipments, periodic post-processing "
    "ticks and step boundaries; checked on recorded executions of the real actors (queue sizes 1, 2, unbounded) by TLC trace validation.",
    "Bounds as C01; downsampling factor 1 only; in-memory metrics store; race control is an endpoint that keeps the received metrics payloads.",
    "TLA+ actor-protocol spec + TLC model checking; replay of TLC behaviours into the real actors; TLC trace validation",
    engine="tlc+simactor",
)

NOT_YET = "check under construction in this round (specification planned in DESIGN.md §4); not claimed yet"


def build():
    checks = []
    for pid in ALL:
        if pid not in CHECKS:
            continue
        c = CHECKS[pid]
        checks.append(
            {
                "property_id": pid,
                "quick_cmd": "./check %s --tier quick" % pid,
                "thorough_cmd": "./check %s --tier thorough" % pid,
                "evidence_file": "/verif/evidence/%s.json" % pid,
                "replay_cmd_template": "./check %s --replay {path}" % pid,
                "engine": c["engine"],
                "level_claimed": {"category": "model_checking", "text": c["text"], "design_ref": c["design_ref"]},
                "level_note": c["note"],
                "technique": c["technique"],
            }
        )
    m = {
        "version": 1,
        "setup_cmd": "./check --setup",
        "hooks": {
            "guard": "ESRALLY_VERIF_TRACE",
            "enable": "checks import esrally from /repo's working tree; hooks (if any) are active only when ESRALLY_VERIF_TRACE=<dir> is set by the harness",
            "baseline_off_cmd": "cd /repo && env -u ESRALLY_VERIF_TRACE /venv/bin/python -m pytest -ra -q -p no:cacheprovider --timeout=900 --continue-on-collection-errors",
            "source_commits": HOOK_COMMITS,
            "add_only": True,
        },
        "engines": [
            {"name": "tlc", "path": "harness/tlc.py", "serves_properties": sorted(CHECKS), "kind_free_text": "TLC 1.8 model checker on specs/*/*.tla: exhaustive checking, simulation, batch trace validation"},
        ],
        "checks": checks,
        "notes": "All checks: ./check <id> [--tier quick|thorough]. known findings / fixed defects: /verif/known_findings.json. Design: /verif/DESIGN.md.",
        "not_applicable": [{"property_id": pid, "reason": NOT_YET} for pid in ALL if pid not in CHECKS],
    }
    return m


if __name__ == "__main__":
    m = build()
    with open(os.path.join(VERIF, "MANIFEST.json"), "w", encoding="utf-8") as f:
        json.dump(m, f, indent=1)
    print("MANIFEST.json written: %d checks, %d not_applicable" % (len(m["checks"]), len(m["not_applicable"])))
