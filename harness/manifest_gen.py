"""Generates MANIFEST.json from the table below (python -m harness.manifest_gen). Keeps the manifest valid at all times."""
import json
import os

VERIF = os.path.dirname(os.path.dirname(os.path.abspath(__file__)))

ALL = ["C%02d" % i for i in range(1, 21)]

# pid -> dict(text, note, technique, design_ref, engine)
CHECKS = {}

HOOK_COMMITS = []


def check(pid, text, note, technique, engine="tlc", design_ref=None):
    CHECKS[pid] = dict(text=text, note=note, technique=technique, engine=engine, design_ref=design_ref or ("DESIGN.md §4 " + pid))


check(
    "C06",
    "TLC model-checks Throughput.tla (the calculator's TaskStats state machine; every arrival stream within the bounds x every cut into "
    "calculate() calls) against conservation / value / sample-type invariants; TLC-simulated behaviours are replayed into the real "
    "ThroughputCalculator with an exact Fraction clock and every recorded execution (also seeded random multi-task streams) is validated "
    "by TLC against TraceThroughput.tla: the property formulas on the recorded TaskStats (L1) and step conformance to the spec (L2).",
    "Bounds: <=5 samples, 2 clients, times <= 2.5 s exhaustive; wider alphabets by simulation. Trusted: TLC, the projection of TaskStats "
    "(attributes read directly), dyadic times so that the implementation's arithmetic is exact.",
    "TLA+ spec + TLC exhaustive model checking; spec-to-code replay of TLC behaviours; TLC trace validation of recorded executions",
)

check(
    "C15",
    "TLC enumerates every subset of a 9/13-branch universe x every version (BranchMatch.tla) and checks that the transcription of "
    "versions.best_match equals the documented precedence plus corollaries (never another major, never a later minor, master only if "
    "newer/unknown, error iff nothing qualifies); every TLC state is replayed on the real best_match, sampled states become real git "
    "repositories (remote, local branches, v-tags) run through RallyRepository.update; all recorded results are validated by TLC.",
    "Bounds: majors 5..9, minors 0..4, patches {0,2}, 3 suffixes; wider numbers only by seeded random cases. git is trusted. "
    "A master branch is assumed to exist.",
    "TLA+ transcription + TLC exhaustive enumeration; every state replayed on the implementation; TLC validation of recorded results",
)

NOT_YET = "check under construction in this round (specification planned in DESIGN.md §4); not claimed yet"


def build():
    checks = []
    for pid in ALL:
        if pid not in CHECKS:
            continue
        c = CHECKS[pid]
        checks.append(
            {
                "property_id": pid,
                "quick_cmd": "./check %s --tier quick" % pid,
                "thorough_cmd": "./check %s --tier thorough" % pid,
                "evidence_file": "/verif/evidence/%s.json" % pid,
                "replay_cmd_template": "./check %s --replay {path}" % pid,
                "engine": c["engine"],
                "level_claimed": {"category": "model_checking", "text": c["text"], "design_ref": c["design_ref"]},
                "level_note": c["note"],
                "technique": c["technique"],
            }
        )
    m = {
        "version": 1,
        "setup_cmd": "./check --setup",
        "hooks": {
            "guard": "ESRALLY_VERIF_TRACE",
            "enable": "checks import esrally from /repo's working tree; hooks (if any) are active only when ESRALLY_VERIF_TRACE=<dir> is set by the harness",
            "baseline_off_cmd": "cd /repo && env -u ESRALLY_VERIF_TRACE /venv/bin/python -m pytest -ra -q -p no:cacheprovider --timeout=900 --continue-on-collection-errors",
            "source_commits": HOOK_COMMITS,
            "add_only": True,
        },
        "engines": [
            {"name": "tlc", "path": "harness/tlc.py", "serves_properties": sorted(CHECKS), "kind_free_text": "TLC 1.8 model checker on specs/*/*.tla: exhaustive checking, simulation, batch trace validation"},
        ],
        "checks": checks,
        "notes": "All checks: ./check <id> [--tier quick|thorough]. known findings / fixed defects: /verif/known_findings.json. Design: /verif/DESIGN.md.",
        "not_applicable": [{"property_id": pid, "reason": NOT_YET} for pid in ALL if pid not in CHECKS],
    }
    return m


if __name__ == "__main__":
    m = build()
    with open(os.path.join(VERIF, "MANIFEST.json"), "w", encoding="utf-8") as f:
        json.dump(m, f, indent=1)
    print("MANIFEST.json written: %d checks, %d not_applicable" % (len(m["checks"]), len(m["not_applicable"])))
