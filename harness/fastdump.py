"""Fast reader for TLC '-dump' / '-simulate file=' output of specs whose states contain only integers, booleans,
plain-word strings, records, sequences and sets of integers/strings (used by the Retry / Guarded checks, whose
history variables make every state a long value).

The TLA+ value text is rewritten into a Python literal and evaluated without builtins; records become dicts,
sequences tuples, sets Python sets (the empty set becomes an empty dict: use `list(x)`/`sorted(x)` on it).
The first states of every file are cross-checked against the general parser harness.tlaparse; a disagreement is a
machinery error, never a verdict.
"""
import re

from . import tlc
from .tlaparse import parse_state as _slow_parse_state
from .tlaparse import to_json as _to_json

_CONJ = re.compile(r"^/\\ ([A-Za-z_][A-Za-z0-9_]*) = ", re.M)
_FIELD = re.compile(r"([A-Za-z_][A-Za-z0-9_]*) \|->")
_TRUE = re.compile(r"\bTRUE\b")
_FALSE = re.compile(r"\bFALSE\b")
_SAFE = re.compile(r'^[\sA-Za-z0-9_",:(){}\-]*$')


def _value(txt):
    txt = txt.replace("<<>>", "()").replace("<<", "(").replace(">>", ",)").replace("[", "{").replace("]", "}")
    txt = _FIELD.sub(r'"\1":', txt)
    txt = _FALSE.sub("False", _TRUE.sub("True", txt))
    if not _SAFE.match(txt):
        raise tlc.MachineryError("fastdump: unexpected characters in TLC value: %r" % txt[:120])
    return eval(txt, {"__builtins__": {}}, {})  # pylint: disable=eval-used


def parse_state(text):
    text = text.strip()
    ms = list(_CONJ.finditer(text))
    if not ms:
        raise tlc.MachineryError("fastdump: no state in %r" % text[:80])
    st = {}
    for i, m in enumerate(ms):
        end = ms[i + 1].start() if i + 1 < len(ms) else len(text)
        st[m.group(1)] = _value(text[m.end() : end])
    return st


def _norm(v):
    """Common normal form of fast / slow parser results (sets -> sorted lists, tuples -> lists)."""
    if isinstance(v, dict):
        return {str(k): _norm(x) for k, x in v.items()} if v else []
    if isinstance(v, (set, frozenset)):
        return sorted((_norm(x) for x in v), key=repr)
    if isinstance(v, (tuple, list)):
        return [_norm(x) for x in v]
    if isinstance(v, str):
        return str(v)
    return v


def _crosscheck(text, st):
    slow = _slow_parse_state(text)
    a = _norm(st)
    b = _norm(_to_json({k: v for k, v in slow.items()}))
    if a != b:
        raise tlc.MachineryError("fastdump disagrees with tlaparse on %r: %r vs %r" % (text[:200], a, b))


def parse_dump(path, crosscheck=10, skip_containing=None):
    """Yields one dict per state of a TLC -dump file (None for states whose text contains `skip_containing`)."""
    n = 0

    def one(text):
        nonlocal n
        if skip_containing is not None and skip_containing in text:
            return None
        st = parse_state(text)
        if n < crosscheck or n % 5000 == 0:
            _crosscheck(text, st)
        n += 1
        return st

    with open(path, "r", encoding="utf-8") as f:
        buf = []
        for line in f:
            if line.startswith("State ") and line.rstrip().endswith(":"):
                if buf:
                    yield one("".join(buf))
                buf = []
            else:
                buf.append(line)
        text = "".join(buf)
        if text.strip():
            yield one(text)


_SIM_STATE = re.compile(r"^STATE_(\d+) ==\s*$", re.M)


def last_simulation_state(path, crosscheck=False):
    """The last state of one behaviour written by 'tlc -simulate file=...'."""
    with open(path, "r", encoding="utf-8") as f:
        text = f.read()
    ms = list(_SIM_STATE.finditer(text))
    if not ms:
        return None
    body = text[ms[-1].end() :]
    body = "\n".join(ln for ln in body.splitlines() if not ln.startswith("\\*") and not ln.startswith("===="))
    st = parse_state(body)
    if crosscheck:
        _crosscheck(body, st)
    return st
