"""Virtual time for the conformance harness: a settable clock patched into `time`, and an asyncio loop on that clock."""
import asyncio
import time as _time

_real = {"perf_counter": _time.perf_counter, "time": _time.time, "sleep": _time.sleep, "monotonic": _time.monotonic}


class VirtualClock:
    """now: global virtual seconds. Each actor may see perf_counter shifted by its own offset (clock skew between workers)."""

    EPOCH = 1_700_000_000.0

    def __init__(self):
        self.now = 0.0
        self.offsets = {}
        self.current = None
        self.installed = False
        self.slept = []

    def perf_counter(self):
        return self.now + self.offsets.get(self.current, 0.0)

    def time(self):
        return self.EPOCH + self.now

    def sleep(self, secs):
        # a blocking sleep in code under test simply advances virtual time
        self.slept.append(secs)
        if secs > 0:
            self.now += secs

    def advance_to(self, t):
        if t > self.now:
            self.now = t

    def install(self):
        _time.perf_counter = self.perf_counter
        _time.time = self.time
        _time.sleep = self.sleep
        self.installed = True

    def uninstall(self):
        if self.installed:
            _time.perf_counter = _real["perf_counter"]
            _time.time = _real["time"]
            _time.sleep = _real["sleep"]
            self.installed = False

    def __enter__(self):
        self.install()
        return self

    def __exit__(self, *a):
        self.uninstall()
        return False


class VirtualLoop(asyncio.SelectorEventLoop):
    """An asyncio loop whose time() is the virtual clock. It never blocks: the harness steps it explicitly."""

    def __init__(self, clock):
        super().__init__()
        self._vclock = clock

    def time(self):
        return self._vclock.now

    def run_ready(self, limit=100000):
        """Run callbacks until nothing is ready at the current virtual instant."""
        n = 0
        while True:
            # move timers that are due into the ready queue happens inside _run_once
            due = [h for h in self._scheduled if not h._cancelled and h._when <= self._vclock.now]
            if not self._ready and not due:
                return n
            self.call_soon(self.stop)
            self.run_forever()
            n += 1
            if n > limit:
                raise RuntimeError("virtual loop does not become idle")

    def next_timer(self):
        whens = [h._when for h in self._scheduled if not h._cancelled]
        return min(whens) if whens else None


def run_coroutine(clock, coro, max_steps=1000000):
    """Run a coroutine to completion on a fresh VirtualLoop, jumping virtual time to the next asyncio timer when idle."""
    loop = VirtualLoop(clock)
    try:
        asyncio.set_event_loop(loop)
        task = loop.create_task(coro)
        steps = 0
        while not task.done():
            loop.run_ready()
            if task.done():
                break
            nt = loop.next_timer()
            if nt is None:
                raise RuntimeError("coroutine is blocked forever (no timers, nothing ready)")
            clock.advance_to(nt)
            steps += 1
            if steps > max_steps:
                raise RuntimeError("too many virtual-time steps")
        return task.result()
    finally:
        asyncio.set_event_loop(None)
        loop.close()
