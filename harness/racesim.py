"""A complete simulated race: REAL DriverActor / Driver / Worker / AsyncIoAdapter / AsyncExecutor / Sampler / runners
on SimActorSystem, a virtual clock and a scripted fake Elasticsearch client. Used by C01, C07, C09 (and C11).

A scenario is the record the RaceDriver.tla model uses:
  {"sched": [{"tasks": [{"id", "clients", "reqs", "cp", "acp"}...], "cap": int}...], "workerOf": [w per client], "W": n}
"""
import asyncio
import collections
import concurrent.futures
import os
import random
import sys

from . import tlc
from .simactor import SimActorSystem
from .vclock import VirtualClock, VirtualLoop

_HOME = None


def ensure_rally_home():
    """esrally needs RALLY_HOME with a logging configuration before actors are created."""
    global _HOME
    if _HOME is None:
        _HOME = tlc.scratch("rally_home")
        os.environ["RALLY_HOME"] = _HOME
        os.environ.pop("ESRALLY_VERIF_TRACE", None)
        from esrally import log

        log.install_default_log_config()
        import logging

        logging.disable(logging.CRITICAL)
    return _HOME


ETERNAL = -1
TIMED = -2
TIME_PERIOD = 2.0  # seconds (virtual) of a time-period based task


# ---------------------------------------------------------------------------------------------------
class StubPool:
    """Replacement for Worker.pool: the executor runs on a VirtualLoop stepped by the harness, not in a thread."""

    def __init__(self, world, worker_name):
        self.world = world
        self.worker_name = worker_name

    def submit(self, fn):
        run = ExecRun(self.world, self.worker_name, fn)
        self.world.exec_runs[self.worker_name] = run
        self.world.exec_all.append(run)
        return run.future

    def shutdown(self, *a, **k):
        pass


class PreemptDeque(collections.deque):
    """The deque inside a Sampler's queue.Queue. Every access that happens while the queue's mutex is NOT held is a point at which
    the other thread (the executor) may run: the harness is told (world.unlocked_access_hook). queue.Queue's own methods hold
    the mutex, so code that sticks to them is never preempted here; code that reaches into `q.queue` directly is."""

    _q = None
    _world = None

    def _maybe(self):
        w = self._world
        if w is not None and w.unlocked_access_hook is not None and self._q is not None and not self._q.mutex.locked():
            w.unlocked_access_hook(self)

    def __iter__(self):
        self._maybe()
        return super().__iter__()

    def clear(self):
        self._maybe()
        return super().clear()

    def popleft(self):
        self._maybe()
        return super().popleft()

    def pop(self, *a):
        self._maybe()
        return super().pop(*a)

    def copy(self):
        self._maybe()
        return super().copy()

    def __getitem__(self, i):
        self._maybe()
        return super().__getitem__(i)


class HandlerBlocked(BaseException):
    """An actor handler waits (without timeout) for an executor that will never finish: the actor thread is blocked for good."""


class HarnessFuture(concurrent.futures.Future):
    """The future Worker.pool.submit() returns. A handler that WAITS for a running executor (result()/exception() without
    timeout) blocks the actor thread while the executor thread goes on: the harness lets the executor run until it is done
    (world.block_hook) - or diagnoses that it never will be (HandlerBlocked)."""

    world = None
    run = None

    def _wait(self, timeout):
        if self.done() or (timeout is not None and timeout <= 0):
            return
        hook = self.world.block_hook if self.world is not None else None
        if hook is None:
            raise HandlerBlocked("a handler waits for a running executor (%s)" % (self.run.worker_name if self.run else "?"))
        hook(self.run)

    def result(self, timeout=None):
        self._wait(timeout)
        return super().result(timeout if self.done() or timeout is not None else 0)

    def exception(self, timeout=None):
        self._wait(timeout)
        return super().exception(timeout if self.done() or timeout is not None else 0)


class ExecRun:
    def __init__(self, world, worker_name, adapter):
        self.world = world
        self.worker_name = worker_name
        self.adapter = adapter
        self.future = HarnessFuture()
        self.future.world = world
        self.future.run = self
        self.loop = None
        self.task = None
        self.state = "submitted"

    def start(self):
        self.future.set_running_or_notify_cancel()
        self.loop = VirtualLoop(self.world.clock)
        self.loop.set_exception_handler(lambda loop, ctx: None)
        self.state = "running"
        self._run(lambda: setattr(self, "task", self.loop.create_task(self.adapter.run())))

    def _run(self, before=None):
        prev = self.world.clock.current
        prev_run = self.world.current_run
        self.world.clock.current = self.worker_name
        self.world.current_run = self
        asyncio.set_event_loop(self.loop)
        try:
            if before:
                before()
            self.loop.run_ready()
            # asyncio timers (ramp-up, throttling): the harness advances time explicitly via world decisions
            if self.task.done():
                self.state = "done"
                exc = self.task.exception()
                if exc is not None:
                    self.state = "failed"
                    self.future.set_exception(exc)
                    # run_until_complete() returns, the loop is closed: the other clients' coroutines die with it
                    for c in list(self.world.pending):
                        if self.world.worker_of_client(c) == self.worker_name:
                            del self.world.pending[c]
                            self.world.cell_override[c] = "aband"
                    # keep the abandoned coroutines alive until the end of the race: their `finally` blocks must not run at
                    # some garbage-collection dependent moment
                    self.world.keepalive.append(list(asyncio.all_tasks(self.loop)))

                else:
                    self.future.set_result(None)
                self.loop.close()
        finally:
            asyncio.set_event_loop(None)
            self.world.clock.current = prev
            self.world.current_run = prev_run

    def resume(self, action):
        self._run(action)


class FakeEs:
    """Created per client by the patched EsClientFactory; every wire request becomes a pending request the harness completes."""

    def __init__(self, world, client_id):
        self.world = world
        self.client_id = client_id

    def __init_subclass__(cls, **kw):
        super().__init_subclass__(**kw)

    def options(self, **kw):
        return self

    async def close(self):
        return None

    async def perform_request(self, method="GET", path="/", headers=None, body=None, params=None, **kw):
        w = self.world
        loop = asyncio.get_running_loop()
        fut = loop.create_future()
        req = {"client": self.client_id, "path": path, "t_issue": w.clock.now, "fut": fut, "n": len(w.reqlog), "run": w.current_run}
        w.reqlog.append({"client": self.client_id, "path": path, "t": w.clock.now})
        if self.client_id in w.pending:
            raise RuntimeError("client %s issued a second concurrent request" % self.client_id)
        w.pending[self.client_id] = req
        self.on_request_start()
        try:
            outcome = await fut
        finally:
            self.on_request_end()
        if isinstance(outcome, BaseException):
            raise outcome
        return outcome


def _make_fake_es_class():
    from esrally.client import context

    class _FakeEs(FakeEs, context.RequestContextHolder):
        pass

    return _FakeEs


class SyncFakeEs:
    """The coordinator's synchronous client (never used for requests when static responses are on)."""

    def __getattr__(self, name):
        raise AttributeError(name)


# ---------------------------------------------------------------------------------------------------
TRACK_HOOK = None  # optional: (scn, lenient) -> (track, tasks_by_id), replaces the track built from the scenario


def build_track(scn, lenient=()):
    """lenient: ids of tasks that set ignore-response-error-level: non-fatal (a failed request never aborts THEM under on-error=abort)."""
    from esrally.track import track

    elements = []
    tasks_by_id = {}
    for e in scn["sched"]:
        leaves = []
        for t in e["tasks"]:
            op = track.Operation(name="op%d" % t["id"], operation_type=t.get("optype", "raw-request"), params={"path": "/_t/%d" % t["id"], "method": "GET"})
            kw = dict(name="t%d" % t["id"], operation=op, clients=t["clients"], completes_parent=bool(t["cp"]), any_completes_parent=bool(t["acp"]))
            if t.get("tags"):
                kw.update(tags=list(t["tags"]))
            if t["reqs"] == ETERNAL:
                kw.update(warmup_time_period=0)
            elif t["reqs"] == TIMED:
                kw.update(warmup_time_period=0, time_period=TIME_PERIOD)
            else:
                kw.update(warmup_iterations=0, iterations=t["reqs"])
            if t["id"] in lenient:
                kw.update(params={"ignore-response-error-level": "non-fatal"})
            task = track.Task(**kw)
            tasks_by_id[t["id"]] = task
            leaves.append(task)
        if len(leaves) == 1 and e["cap"] == 0 and not e.get("parallel"):
            elements.append(leaves[0])
        else:
            elements.append(track.Parallel(leaves, clients=e["cap"] if e["cap"] > 0 else None))
    challenge = track.Challenge(name="c", default=True, schedule=elements)
    t = track.Track(name="verif", challenges=[challenge])
    return t, tasks_by_id


def build_config(world, test_mode, on_error, queue_size, downsample, cores, hosts):
    from esrally import config
    from esrally.utils import opts

    cfg = config.Config()
    S = config.Scope.application
    home = ensure_rally_home()
    cfg.add(S, "system", "env.name", "verif")
    cfg.add(S, "system", "race.id", "verif-race")
    import datetime

    cfg.add(S, "system", "time.start", datetime.datetime(2026, 1, 1))
    # half of the races run with progress reporting on (Driver.update_progress_message does its look-ups only then; nothing is
    # printed: stdout is no terminal)
    cfg.add(S, "system", "quiet.mode", bool(getattr(world, "quiet", True)))
    cfg.add(S, "system", "available.cores", cores)
    cfg.add(S, "node", "root.dir", os.path.join(home, "root"))
    cfg.add(S, "node", "rally.root", os.path.join(os.environ.get("VERIF_REPO", "/repo"), "esrally"))
    cfg.add(S, "reporting", "datastore.type", "in-memory")
    if queue_size is not None:
        cfg.add(S, "reporting", "sample.queue.size", queue_size)
    if downsample != 1:
        cfg.add(S, "reporting", "metrics.request.downsample.factor", downsample)
    cfg.add(S, "track", "challenge.name", "c")
    cfg.add(S, "track", "test.mode.enabled", test_mode)
    cfg.add(S, "track", "params", {})
    cfg.add(S, "mechanic", "skip.rest.api.check", True)
    cfg.add(S, "mechanic", "car.names", ["external"])
    cfg.add(S, "mechanic", "car.params", {})
    cfg.add(S, "mechanic", "distribution.version", "8.6.1")
    cfg.add(S, "driver", "on.error", on_error)
    cfg.add(S, "driver", "profiling", False)
    cfg.add(S, "driver", "assertions", False)
    cfg.add(S, "driver", "load_driver_hosts", hosts)
    cfg.add(S, "client", "hosts", opts.TargetHosts("127.0.0.1:9200"))
    cfg.add(S, "client", "options", opts.ClientOptions("timeout:60,static_responses:true"))
    cfg.add(S, "race", "pipeline", "benchmark-only")
    cfg.add(S, "mechanic", "plugin.params", {})
    cfg.add(S, "telemetry", "devices", [])
    cfg.add(S, "telemetry", "params", {})
    return cfg


class RaceWorld:
    """One simulated race. Decisions: ('deliver', src, dst) | ('wakeup', actor) | ('exec_start', worker) | ('req', client)."""

    DRIVER = "DriverActor1"

    RC = "BenchmarkActor1"

    def __init__(self, scn, seed=0, test_mode=True, on_error="continue", queue_size=None, downsample=1, pp_interval=2, offsets=None, hosts=None, cores=None, full=False, lenient=()):
        """full=True: race control is the REAL racecontrol.BenchmarkActor (+ BenchmarkCoordinator, FileRaceStore in scratch,
        in-memory metrics store); the mechanic is a stub actor; the 'user' endpoint plays actor_system.ask()."""
        self.full = full
        ensure_rally_home()
        sys.unraisablehook = lambda *a: None  # abandoned coroutines of hanging races complain when collected
        from esrally import client, metrics
        from esrally.driver import driver

        self.scn = scn
        self.fault_seed = seed
        self.rnd = random.Random(seed)
        self.clock = VirtualClock()
        self.driver_mod = driver
        self.metrics_mod = metrics
        self.pending = {}  # client id -> request dict
        self.reqlog = []
        self.exec_runs = {}  # worker name -> ExecRun (current)
        self.events = []
        self.exec_obs = {"started": [], "finished": []}  # observations of AsyncExecutor coroutines (client, task id, ...)
        self.fault = None
        self.fault_fired = False
        self.keepalive = []
        self.current_cell = {}  # client -> (task id, client index in task) of the executor coroutine started last
        self.cell_times = {}  # (client, task id) -> [virtual start, virtual end] of the executor coroutine
        self.timed_paths = {"/_t/%d" % t["id"] for e in scn["sched"] for t in e["tasks"] if t["reqs"] == TIMED}
        self.cell_override = {}  # client -> "failed" | "aband": coroutines that died with a failing executor / a dead worker
        self.exec_all = []  # every executor ever submitted, in order
        self.current_run = None
        self.block_hook = None  # called as hook(run) when a handler waits for a running executor (see HarnessFuture)
        self.param_fault = None  # (task id, client_index_in_task) whose parameter source raises on the next call
        self._patches = []
        world = self
        FakeEsCls = _make_fake_es_class()

        # --- patches (harness side, undone by close())
        self._patch(driver, "load_local_config", lambda c: c)
        self._patch(driver, "load_track", lambda *a, **k: None)
        self._patch(client.EsClientFactory, "__init__", lambda self_, *a, **k: None)
        self._patch(client.EsClientFactory, "create", lambda self_: SyncFakeEs())
        self._patch(client.EsClientFactory, "create_async", lambda self_, api_key=None, client_id=None: FakeEsCls(world, client_id))
        self._patch(driver.DriverActor, "POST_PROCESS_INTERVAL_SECONDS", pp_interval)
        orig_call = driver.AsyncExecutor.__call__

        async def observed_call(self_, *a, **k):
            # a cell of the allocation matrix is identified by (task id, client index in task): in an over-committed parallel a
            # client may run the SAME task in several rows (as different logical clients of that task)
            ta_ = getattr(getattr(self_, "schedule_handle", None), "task_allocation", None)
            tid = (int(self_.task.name[1:]), getattr(ta_, "client_index_in_task", 0))
            # WHICH client runs the cell is observed at the wire (the client object the worker created for that client id), not
            # taken from the executor's own belief (its client_id attribute only labels the samples - and is checked there)
            es_ = self_.es.get("default") if isinstance(self_.es, dict) else None
            cid = getattr(es_, "client_id", self_.client_id)
            world.exec_obs["started"].append((cid, tid))
            world.current_cell[cid] = tid
            world.cell_times[(cid, tid)] = [world.clock.now, None]
            try:
                return await orig_call(self_, *a, **k)
            finally:
                world.exec_obs["finished"].append((cid, tid))
                world.cell_times[(cid, tid)][1] = world.clock.now

        self._patch(driver.AsyncExecutor, "__call__", observed_call)

        # every ThroughputCalculator.calculate() call of the race (whatever calculator object the driver uses at that moment):
        # the batch, the result and a snapshot of the TaskStats afterwards (C06's driver leg validates them against Throughput.tla)
        self.tput_calls = []
        orig_calc = driver.ThroughputCalculator.calculate

        def observed_calc(self_, samples, *a, **k):
            batch = list(samples)
            res = orig_calc(self_, samples, *a, **k)
            snap = {}
            for task_, ts in getattr(self_, "task_stats", {}).items():
                snap[task_] = {
                    "unprocessed": list(ts.unprocessed),
                    "total_count": ts.total_count,
                    "interval": ts.interval,
                    "bucket": ts.bucket,
                    "sample_type": ts.sample_type,
                    "has": ts.has_samples_in_sample_type,
                    "start_time": ts.start_time,
                }
            world.tput_calls.append({"batch": batch, "res": res, "stats": snap})
            return res

        self._patch(driver.ThroughputCalculator, "calculate", observed_calc)

        # the sampler's queue is shared between the actor thread and the executor thread (see PreemptDeque)
        self.unlocked_access_hook = None
        orig_sampler_init = driver.Sampler.__init__

        def sampler_init(self_, *a, **k):
            orig_sampler_init(self_, *a, **k)
            q = getattr(self_, "q", None)
            if q is not None and isinstance(getattr(q, "queue", None), collections.deque) and not isinstance(q.queue, PreemptDeque):
                dq = PreemptDeque(q.queue)
                dq._q = q  # pylint: disable=protected-access
                dq._world = world  # pylint: disable=protected-access
                q.queue = dq

        self._patch(driver.Sampler, "__init__", sampler_init)

        class SimWorker(driver.Worker):
            def __init__(self_):
                super().__init__()
                self_.pool.shutdown()
                self_.pool = StubPool(world, None)

        class StubPreparator(ta_actor()):
            def receiveMsg_Bootstrap(self_, msg, sender):
                self_.send(sender, driver.ReadyForWork())

            def receiveMsg_PrepareTrack(self_, msg, sender):
                self_.send(sender, driver.TrackPrepared())

        from esrally import mechanic, racecontrol, reporter
        from esrally import track as track_pkg

        class StubMechanic(ta_actor()):
            def receiveMsg_StartEngine(self_, msg, sender):
                self_.send(sender, mechanic.EngineStarted(team_revision=None))

            def receiveMsg_StopEngine(self_, msg, sender):
                world.mechanic_stopped += 1
                self_.send(sender, mechanic.EngineStopped())

            def receiveMsg_ResetRelativeTime(self_, msg, sender):
                pass

        self.mechanic_stopped = 0
        self.summaries = []
        self.clock.install()
        self.sim = SimActorSystem(
            self.clock, class_map={driver.Worker: SimWorker, driver.TrackPreparationActor: StubPreparator, mechanic.MechanicActor: StubMechanic}
        )
        W = scn["W"]
        hosts = hosts or ["localhost"]
        cores = cores or W
        self.quiet = seed % 2 == 0
        self.cfg = build_config(self, test_mode, on_error, queue_size, downsample, cores, hosts)
        self.lenient = set(lenient)
        self.track, self.tasks_by_id = build_track(scn, self.lenient)
        if TRACK_HOOK is not None:
            # C11's race leg: the track race control loads is what the REAL task filter leaves of a larger track
            self.track, self.tasks_by_id = TRACK_HOOK(scn, self.lenient)
        if full:
            import shutil

            shutil.rmtree(os.path.join(ensure_rally_home(), "root"), ignore_errors=True)
            self._patch(track_pkg, "load_track", lambda cfg, install_dependencies=False: world.track)
            self._patch(racecontrol.track, "load_track", lambda cfg, install_dependencies=False: world.track)
            self._patch(reporter, "summarize", lambda results, cfg: world.summaries.append(results))
            self.user = self.sim.endpoint("user")
            self.rc = self.sim.create(racecontrol.BenchmarkActor, parent=None, name=self.RC)
        else:
            self.rc = self.sim.endpoint("rc")
            self.drv_addr = self.sim.create(driver.DriverActor, parent=None, name=self.DRIVER)
        for i in range(W):
            if offsets:
                self.clock.offsets["Worker%d" % (i + 1)] = offsets[i % len(offsets)]

    # ---- patching helpers
    def _patch(self, obj, attr, value):
        self._patches.append((obj, attr, getattr(obj, attr)))
        setattr(obj, attr, value)

    def close(self):
        for obj, attr, old in reversed(self._patches):
            setattr(obj, attr, old)
        self._patches = []
        # Abandoned executor coroutines (dead worker, failed executor, race left unfinished) are disposed of HERE and NOW, with no
        # current event loop: left to the garbage collector, their `finally` blocks (AsyncIoAdapter.run: `await
        # asyncio.get_event_loop().shutdown_asyncgens()`) would run at some collection-dependent moment of a LATER race and
        # shut down the async generators of whatever loop is current then (an eternal task's schedule ends silently).
        asyncio.set_event_loop(None)
        tasks = [t for grp in self.keepalive for t in grp]
        for run in (self.exec_all or list(self.exec_runs.values())):
            if run.loop is not None and not run.loop.is_closed():
                try:
                    tasks.extend(asyncio.all_tasks(run.loop))
                except Exception:  # pylint: disable=broad-except
                    pass
        seen = set()
        for t in tasks:
            if id(t) in seen or t.done():
                continue
            seen.add(id(t))
            try:
                t.get_context().run(t.get_coro().close)
            except BaseException:  # pylint: disable=broad-except
                pass  # "coroutine ignored GeneratorExit", RallyError from the executor's except clause, ...
        self.keepalive = []
        for run in (self.exec_all or list(self.exec_runs.values())):
            if run.loop is not None and not run.loop.is_closed():
                try:
                    run.loop.close()
                except Exception:  # pylint: disable=broad-except
                    pass
        del tasks
        # (no gc.collect() here: a full collection per race is quadratic over a long run; everything that must not run later has
        # been closed explicitly above)
        self.clock.uninstall()

    # ---- bootstrap up to start_benchmark (deterministic prefix, not part of the explored schedule)
    def start(self):
        d = self.driver_mod
        if self.full:
            from esrally import racecontrol

            self.sim.send("user", self.RC, racecontrol.Setup(self.cfg, external=True))
            # deterministic prefix: engine start, track preparation, until StartBenchmark has been handled by the driver
            self.run_until(lambda: self.DRIVER in self.sim.actors and self.sim.actors[self.DRIVER].instance.driver is not None and any(n.startswith("Worker") for n in self.sim.actors))
        else:
            self.sim.send("rc", self.DRIVER, d.PrepareBenchmark(self.cfg, self.track))
            self.run_until(lambda: any(isinstance(m, d.PreparationComplete) for _, m in self.rc_inbox()))
            self.sim.send("rc", self.DRIVER, d.StartBenchmark())
            self.sim.step(("deliver", "rc", self.DRIVER))
        # the preparation phase is over: let the track preparators exit before the explored part of the race begins
        while True:
            left = [d for d in self.sim.enabled() if d[0] == "deliver" and ("TrackPreparationActor" in d[1] or "TrackPreparationActor" in d[2])]
            if not left:
                break
            self.sim.step(left[0])
        # name the pools after their workers
        for name, rec in self.sim.actors.items():
            if name.startswith("Worker"):
                rec.instance.pool.worker_name = name

    def rc_inbox(self):
        return self.sim.endpoints["rc"].inbox

    def user_inbox(self):
        return self.sim.endpoints["user"].inbox

    def coordinator(self):
        return self.sim.actors[self.RC].instance.coordinator

    def race_file(self):
        from esrally import paths

        return os.path.join(paths.race_root(self.cfg), "race.json")

    def run_until(self, cond, limit=10000):
        n = 0
        while not cond():
            en = self.sim.enabled()
            if not en:
                raise tlc.MachineryError("simulated system quiescent before condition; handler errors: %s" % (self.sim.handler_errors[-1:],))
            self.sim.step(en[0])
            n += 1
            if n > limit:
                raise tlc.MachineryError("run_until: too many steps")

    # ---- decisions
    def workers(self):
        return [n for n in self.sim.actors if n.startswith("Worker")]

    def enabled(self):
        res = list(self.sim.enabled())
        for wn, run in self.exec_runs.items():
            # Worker.pool has ONE thread: a submitted executor starts only when no earlier one of this worker is still running
            if run.state == "submitted" and self.sim.actors[wn].alive and not any(r.state == "running" and r.worker_name == wn for r in self.exec_all):
                res.append(("exec_start", wn))
        for c in sorted(self.pending):
            res.append(("req", c))
        return res

    def step(self, decision, service_time=None, outcome=None):
        kind = decision[0]
        if kind in ("deliver", "wakeup"):
            info = self.sim.step(decision)
            return info
        if kind == "exec_start":
            self.exec_runs[decision[1]].start()
            return decision
        if kind == "req":
            c = decision[1]
            req = self.pending.pop(c)
            if service_time is None:
                service_time = self.rnd.choice([0.0, 0.25, 0.5, 1.0])
                if req["path"] in self.timed_paths:
                    # requests of a time-period based task take time, so that the period is over after a few of them
                    service_time = max(service_time, 0.5)
            self.clock.advance_to(self.clock.now + service_time)
            run = req.get("run") or self.exec_runs[self.worker_of_client(c)]  # the executor that issued it (a worker may have submitted another one since)
            res = outcome if outcome is not None else {}
            run.resume(lambda: req["fut"].set_result(res))
            return decision
        raise ValueError(decision)

    # ---- fault injection (C09). One fault per race.
    def arm_store_fault(self):
        """The next record the driver's post-processing stores raises (metrics store failure while samples are stored)."""
        world = self
        store = self.sim.actors[self.DRIVER].instance.driver.metrics_store
        orig = store.put_value_cluster_level
        state = {"armed": True}

        def failing(*a, **k):
            if state["armed"]:
                state["armed"] = False
                world.fault_fired = True
                # every 4th race: a failure that is not an Exception (a plugin or library calling sys.exit)
                raise (SystemExit if world.fault_seed % 4 == 3 else IOError)("verif: metrics store unavailable")
            return orig(*a, **k)

        store.put_value_cluster_level = failing

    def arm_rc_store_fault(self):
        """The next bulk_add of race control's metrics store raises."""
        world = self
        store = self.coordinator().metrics_store
        orig = store.bulk_add
        state = {"armed": True}

        def failing(*a, **k):
            if state["armed"]:
                state["armed"] = False
                world.fault_fired = True
                raise IOError("verif: metrics store unavailable")
            return orig(*a, **k)

        store.bulk_add = failing

    def kill_worker(self, w):
        self.fault_fired = True
        name = "Worker%d" % w
        run = self.exec_runs.get(name)
        for c in list(self.pending):
            if self.worker_of_client(c) == name:
                del self.pending[c]
                self.cell_override[c] = "aband"
        if run is not None and run.state in ("submitted", "running"):
            # the process is gone: its executor never makes another step (its state stays what it was)
            if run.loop is not None:
                self.keepalive.append(list(asyncio.all_tasks(run.loop)))
        self.sim.kill(name)

    def cancel(self):
        from esrally import actor

        self.fault_fired = True
        self.sim.send("user", self.RC, actor.BenchmarkCancelled())

    def fail_request(self, c, kind, service_time=0.0):
        """Completes the pending request of client c with a fatal outcome."""
        import elastic_transport
        import elasticsearch

        self.fault_fired = True
        if kind == "api_error":  # fails the race only under on-error=abort
            meta = elastic_transport.ApiResponseMeta(status=400, http_version="1.1", headers=elastic_transport.HttpHeaders(), duration=0.0, node=None)
            exc = elasticsearch.BadRequestError("verif bad request", meta, {"error": "verif"})
        elif kind == "conn_error":  # fatal regardless of on-error
            exc = elasticsearch.ConnectionError("verif connection refused")
        elif kind == "conn_error_retried":  # ... also when the transport had retried: the earlier attempts' errors are attached
            exc = elasticsearch.ConnectionError("verif connection refused", errors=(elasticsearch.ConnectionError("verif first attempt refused"), elasticsearch.ConnectionTimeout("verif second attempt timed out")))
        else:  # the runner itself raises
            exc = RuntimeError("verif runner failure")
        req = self.pending.pop(c)
        self.clock.advance_to(self.clock.now + service_time)
        run = req.get("run") or self.exec_runs[self.worker_of_client(c)]
        self.cell_override[c] = "failed"
        if kind == "unsuccessful":
            # the request is answered, but the runner reports it as failed (success: False), e.g. a bulk with rejected items:
            # fatal under on-error=abort only
            exc = {"vid": req["n"], "deps": 0, "t": self.clock.time(), "unsuccessful": True}
        run.resume(lambda: req["fut"].set_result(exc))

    def worker_of_client(self, c):
        return "Worker%d" % self.scn["workerOf"][c]

    def clients_of_worker(self, name):
        return [c for c, w in enumerate(self.scn["workerOf"]) if "Worker%d" % w == name]


def ta_actor():
    from esrally import actor

    return actor.RallyActor
