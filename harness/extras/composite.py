"""Extra module Composite: scheduling of the sub-requests of Rally's `composite` operation (runner.Composite, RequestTiming).
Specified (specs/Composite): `requests` is a tree of streams and operation items; a list is scanned in written order, stream
items are forked as asyncio tasks, an operation item first awaits the streams forked before it, takes one of `max-connections`
slots and runs the timed runner; a list ends when its last streams have ended.  Invariants (TLC + L1 on every recorded run):
on success every operation item was executed exactly once (SuccessComplete, AtMostOnce); an item is sent only after all that
precedes it in its stream has been answered (Sequential); sibling streams run concurrently, nothing startable waits while a
connection is free (NoIdleWaiting); never more than max-connections in flight (ConnLimit); one dependent timing per executed
item with its own type/start/end (TimingsOwn; L2: in document order); unsupported/malformed items are never executed and a
raising sub-request makes the composite raise that exception at once (RejectedNeverRuns, NoSuccessOnFailure, FailFast).
Model switches: CancelTail / AwaitCancelled = TRUE describe /repo since the fix of run_stream (final gather inside the try,
cancelled streams awaited before re-raising); FALSE/FALSE is the pre-fix code, kept as self-test: streams behind the gather at
the END of a list keep sending after the composite raised (QuiescentAfterRaise violated).  ValidateUpFront=FALSE: rejection is lazy.

Leg M   : TLC on Composite.{quick,thorough}.cfg (all trees up to 6/7 nodes, <= 2 levels of streams, <= 3 streams, <= 3 items
          per list, max-connections none/1/2/3, every completion order incl. ties, failures), the ValidateUpFront variant, the pre-fix variant (thorough), 2 self-tests.
Leg S2C : TLC -simulate behaviours (trees up to 8 nodes, 3 levels) -> tree + max-connections + latency / failure per
          sub-request -> executed by the REAL runner.Composite with the real raw-request / search / sleep runners on the
          virtual-time asyncio loop against a scripted fake client that logs every wire request, task and cancellation.
Leg C2S : every recorded run (S2C + seeded random deeper trees) validated by TLC against TraceComposite.tla (L1 + L2).
"""
import asyncio
import glob
import io
import os
import random
import re
import sys

from .. import tlc, tracecheck
from ..core import Violation
from ..tlaparse import parse_simulation_file
from ..vclock import VirtualClock, VirtualLoop

TPS = 64
UNSUP_TYPES = ["bulk", "force-merge", "index-stats", "node-stats", "scroll-search", "sql", "esql", "cluster-health", "refresh", "composite"]
OP_TYPES = ["raw-request", "search", "sleep"]
_SEARCH_BODY = b'{"took":1,"timed_out":false,"hits":{"total":{"value":1,"relation":"eq"},"hits":[]}}'
# clauses the code is known to violate by design of pinned model switches (none since the fix of run_stream)
PINNED = set()


class Boom(Exception):
    def __init__(self, node):
        super().__init__("scripted failure of n%d" % node)
        self.node = node


def _ticks(x):
    v = x * TPS
    r = int(round(v))
    if abs(v - r) > 1e-9:
        raise tlc.MachineryError("instant %r is not on the tick grid" % (x,))
    return r


# ---------------------------------------------------------------------------------------------------
# executing one case on the real code
# ---------------------------------------------------------------------------------------------------
_setup_done = False


def _setup():
    global _setup_done
    from .. import racesim

    racesim.ensure_rally_home()
    from esrally.driver import runner

    if not _setup_done:
        runner.register_default_runners()
        _setup_done = True
    return runner


def build_params(case):
    """-> (params for Composite.__call__, {id(list object): node}, {unsupported type: node})"""
    nodes = case["nodes"]
    lists = {0: []}
    by_list = {}
    unsup = {}
    for i, nd in enumerate(nodes, start=1):
        name = "n%d" % i
        k = nd["kind"]
        if k == "stream":
            lists[i] = []
            item = {"stream": lists[i]}
        elif k == "op":
            ty = nd["ty"]
            if ty == "raw-request":
                item = {"operation-type": ty, "name": name, "path": "/%s/_x" % name, "method": "GET"}
            elif ty == "search":
                item = {"operation-type": ty, "name": name, "index": name, "body": {"query": {"match_all": {}}}}
            elif ty == "sleep":
                item = {"operation-type": ty, "name": name, "duration": nd["lat"] / TPS}
            else:
                raise tlc.MachineryError("unknown operation type %r" % ty)
        elif k == "unsup":
            item = {"operation-type": nd["ty"], "name": name}
            unsup.setdefault(nd["ty"], i)
        elif k == "bad":
            item = {"streams": [], "name": name}
        else:
            raise tlc.MachineryError("unknown kind %r" % k)
        lists[nd["par"]].append(item)
    for i, lst in lists.items():
        by_list[id(lst)] = i
    params = {"name": "composite", "operation-type": "composite", "requests": lists[0]}
    if case["maxc"]:
        params["max-connections"] = case["maxc"]
    return params, by_list, unsup, lists


def execute(case):
    """Runs the real runner.Composite on the case; returns the trace item (without id)."""
    runner = _setup()
    from esrally import exceptions
    from esrally.client import context

    nodes = case["nodes"]
    params, by_list, unsup, keep = build_params(case)
    clock = VirtualClock()
    events = []
    bad_nodes = [i for i, nd in enumerate(nodes, start=1) if nd["kind"] == "bad"]

    def ev(a, n, err=0, tm=()):
        events.append({"a": a, "n": n, "t": _ticks(clock.now), "err": err, "tm": list(tm)})

    def err_of(ex):
        if isinstance(ex, asyncio.CancelledError):
            return 0
        if isinstance(ex, Boom):
            return ex.node
        if isinstance(ex, exceptions.RallyAssertionError):
            m = re.match(r"Unsupported operation-type \[([^\]]+)\]", str(ex))
            if m and m.group(1) in unsup:
                return unsup[m.group(1)]
            if str(ex).startswith("Requests structure must contain") and bad_nodes:
                return bad_nodes[0]
        return -1

    class Es(context.RequestContextHolder):
        def options(self, **kw):
            return self

        def return_raw_response(self):
            return None

        async def close(self):
            return None

        def on_request_start(self):  # pylint: disable=arguments-differ
            super().on_request_start()
            fr = sys._getframe(1)  # pylint: disable=protected-access
            if fr.f_code.co_name != "perform_request":
                # the sleep runner: identify the item by the params of the calling runner
                ev("S", int(fr.f_locals["params"]["name"][1:]))

        def on_request_end(self):  # pylint: disable=arguments-differ
            super().on_request_end()
            fr = sys._getframe(1)  # pylint: disable=protected-access
            if fr.f_code.co_name != "perform_request":
                ex = sys.exc_info()[1]
                ev("X" if isinstance(ex, asyncio.CancelledError) else "E", int(fr.f_locals["params"]["name"][1:]))

        async def perform_request(self, method="GET", path="/", headers=None, body=None, params=None, **kw):
            n = int(path.strip("/").split("/")[0][1:])
            nd = nodes[n - 1]
            ev("S", n)
            self.on_request_start()
            try:
                try:
                    await asyncio.sleep(nd["lat"] / TPS)
                except asyncio.CancelledError:
                    ev("X", n)
                    raise
            finally:
                self.on_request_end()
            if nd["fail"]:
                ev("F", n)
                raise Boom(n)
            ev("E", n)
            return io.BytesIO(_SEARCH_BODY) if path.endswith("_search") else None

    started = set()

    async def wrap(coro, s):
        started.add(s)
        try:
            r = await coro
        except BaseException as ex:  # pylint: disable=broad-except
            ev("findead", s, err=err_of(ex))
            raise
        ev("finok", s)
        return r

    class Task(asyncio.Task):
        _verif_stream = None

        def cancel(self, msg=None):
            if self._verif_stream is not None and not self.done():
                ev("cancel", self._verif_stream)
            return super().cancel(msg)

    def factory(loop, coro, **kw):
        s = None
        fr = getattr(coro, "cr_frame", None)
        if fr is not None and getattr(coro, "cr_code", None) is not None and coro.cr_code.co_name == "run_stream":
            s = by_list.get(id(fr.f_locals.get("stream")))
        if s is None:
            return asyncio.Task(coro, loop=loop, **kw)
        inner = coro
        t = Task(wrap(inner, s), loop=loop, **kw)
        t._verif_stream = s  # pylint: disable=protected-access
        ev("fork", s)

        def done(task, s=s, inner=inner):
            if s not in started:
                # cancelled before its first step: the coroutine never ran
                inner.close()
                ev("findead", s, err=0)
            if not task.cancelled():
                task.exception()

        t.add_done_callback(done)
        return t

    es = Es()
    comp = runner.Composite()

    def timings(resp):
        res = []
        for d in resp.get("dependent_timing") or []:
            if d is None:
                res.append({"n": -1, "ty": 0, "rs": 0, "re": 0, "svc": 0, "abs": 0})
                continue
            t = d["dependent_timing"]
            name = t.get("operation") or ""
            n = int(name[1:]) if re.fullmatch(r"n\d+", name) else -1
            ty_ok = 1 if 1 <= n <= len(nodes) and nodes[n - 1].get("ty") == t.get("operation-type") else 0
            res.append(
                {
                    "n": n,
                    "ty": ty_ok,
                    "rs": _ticks(t["request_start"]),
                    "re": _ticks(t["request_end"]),
                    "svc": _ticks(t["service_time"]),
                    "abs": _ticks(t["absolute_time"] - VirtualClock.EPOCH),
                }
            )
        return res

    async def main():
        try:
            resp = await comp(es, params)
        except BaseException as ex:  # pylint: disable=broad-except
            ev("retraised", 0, err=err_of(ex))
            return
        if resp.get("weight") != 1 or resp.get("unit") != "ops":
            raise tlc.MachineryError("composite returned %r" % (resp,))
        ev("retok", 0, tm=timings(resp))

    loop = VirtualLoop(clock)
    loop.set_exception_handler(lambda lp, c: None)
    loop.set_task_factory(factory)
    hung = False
    with clock:
        try:
            asyncio.set_event_loop(loop)
            mt = loop.create_task(main())
            steps = 0
            while True:
                loop.run_ready()
                nt = loop.next_timer()
                if nt is None:
                    break
                clock.advance_to(nt)
                steps += 1
                if steps > 10000:
                    raise tlc.MachineryError("too many virtual-time steps")
            if not mt.done():
                hung = True
            elif mt.exception() is not None:
                raise mt.exception()
        finally:
            try:
                for t in asyncio.all_tasks(loop):
                    t.cancel()
                n_ev = len(events)
                loop.run_ready()
                del events[n_ev:]
            except Exception:  # pylint: disable=broad-except
                pass
            asyncio.set_event_loop(None)
            loop.close()
    del keep
    return {
        "tree": [{"par": nd["par"], "kind": nd["kind"]} for nd in nodes],
        "maxc": case["maxc"],
        "hung": hung,
        "events": events,
    }


def wire(events):
    return sorted((e["t"], e["a"], e["n"]) for e in events if e["a"] in ("S", "E", "F", "X"))


# ---------------------------------------------------------------------------------------------------
# case sources
# ---------------------------------------------------------------------------------------------------
def _types(rnd, kind, fail, i):
    if kind == "op":
        return rnd.choice(["raw-request", "search"]) if fail else rnd.choice(OP_TYPES)
    if kind == "unsup":
        return UNSUP_TYPES[i % len(UNSUP_TYPES)]
    return ""


def behaviours_from_tlc(ctx, out, cfg, num, depth):
    wd = tlc.prepare_workdir("Composite", "xcompsim")
    simdir = os.path.join(wd, "sim")
    os.makedirs(simdir)
    res = tlc.run_tlc(
        wd,
        "MC_Composite",
        cfg,
        workers=1,
        simulate={"num": num, "file": os.path.join(simdir, "b")},
        depth=depth,
        seed=ctx.seed + 23,
        timeout=600,
        extra=["-deadlock"],
    )
    if not res.ok:
        raise tlc.MachineryError("simulation reported a model violation: %s" % res.out[-2000:])
    out.add_tlc(res)
    rnd = random.Random(ctx.seed + 29)
    cases = []
    for fn in sorted(glob.glob(os.path.join(simdir, "b_*"))):
        states = parse_simulation_file(fn)
        last = states[-1]
        tree = last["tree"]
        if not tree:
            continue
        now = last["now"]
        nodes = []
        for i, nd in enumerate(tree, start=1):
            kind = nd["kind"]
            lat, fail = 1, False
            if kind == "op":
                o, s, e = last["ost"][i - 1], last["st"][i - 1], last["en"][i - 1]
                fail = o == "failed"
                if o in ("done", "failed"):
                    lat = e - s
                elif o == "aborted":
                    lat = e - s + 1
                elif o == "flight":
                    lat = now - s + 1
            nodes.append({"par": nd["par"], "kind": kind, "ty": _types(rnd, kind, fail, i), "lat": lat, "fail": fail})
        model_wire = sorted((s["act"]["t"], s["act"]["name"], s["act"]["n"]) for s in states if s["act"]["name"] in ("S", "E", "F", "X"))
        ended = last["ret"]["st"] != "none" and "flight" not in last["ost"]
        cases.append({"src": "tlc-simulate", "maxc": last["maxc"], "nodes": nodes, "model_wire": model_wire if ended else None})
    return cases


def random_case(rnd):
    max_nodes = rnd.choice([4, 6, 9, 12, 14])
    max_depth = rnd.choice([1, 2, 3])
    p_fail = rnd.choice([0.0, 0.0, 0.0, 0.08, 0.2])
    p_stream = rnd.choice([0.3, 0.45, 0.6])
    malformed = rnd.choice(["", "", "", "", "", "unsup", "bad"])
    lats = rnd.choice([[1, 2, 3], [1, 1, 2, 5], [1, 2, 3, 4, 6, 9], [2]])
    tail_ops = rnd.random() < 0.35
    nodes = []
    mal_done = [False]

    def grow(par, depth):
        for _ in range(rnd.randint(1, 4)):
            if len(nodes) >= max_nodes:
                return
            r = rnd.random()
            if depth < max_depth and r < p_stream:
                nodes.append({"par": par, "kind": "stream", "ty": "", "lat": 1, "fail": False})
                me = len(nodes)
                if rnd.random() < 0.93:
                    grow(me, depth + 1)
            elif malformed and not mal_done[0] and rnd.random() < 0.25:
                mal_done[0] = True
                nodes.append({"par": par, "kind": malformed, "ty": _types(rnd, malformed, False, len(nodes)), "lat": 1, "fail": False})
            else:
                fail = rnd.random() < p_fail
                nodes.append({"par": par, "kind": "op", "ty": _types(rnd, "op", fail, 0), "lat": rnd.choice(lats), "fail": fail})
        if tail_ops and depth > 0 and len(nodes) < max_nodes and rnd.random() < 0.5:
            nodes.append({"par": par, "kind": "op", "ty": _types(rnd, "op", False, 0), "lat": rnd.choice(lats), "fail": False})

    grow(0, 0)
    if tail_ops and nodes:
        # an operation behind the top-level group of streams (gather in front of an operation) and a failure below it
        nodes.append({"par": 0, "kind": "op", "ty": _types(rnd, "op", False, 0), "lat": rnd.choice(lats), "fail": False})
        ops = [nd for nd in nodes if nd["kind"] == "op" and nd["ty"] != "sleep" and nd["par"] != 0]
        if ops and rnd.random() < 0.8:
            rnd.choice(ops)["fail"] = True
    return {"src": "random", "maxc": rnd.choice([0, 0, 1, 2, 3, 4]), "nodes": nodes}


# ---------------------------------------------------------------------------------------------------
def _signature(clauses, case, item):
    kinds = {nd["kind"] for nd in case["nodes"]}
    return {
        "clauses": sorted(clauses),
        "raised": any(e["a"] == "retraised" for e in item["events"]),
        "malformed": bool(kinds & {"unsup", "bad"}),
        "scripted_failure": any(nd["fail"] for nd in case["nodes"]),
    }


def run_cases(cases, out, label, stats):
    items = []
    index = {}
    for ci, case in enumerate(cases):
        item = execute(case)
        item["id"] = "%s-%d" % (label, ci)
        items.append(item)
        index[item["id"]] = (case, item)
        nops = sum(1 for nd in case["nodes"] if nd["kind"] == "op")
        out.add_case({"maxc": case["maxc"], "nodes": case["nodes"]}, nontrivial=nops >= 2)
        evs = item["events"]
        raised = any(e["a"] == "retraised" for e in evs)
        stats["runs"] += 1
        stats["raised"] += raised
        stats["cancels"] += any(e["a"] == "cancel" for e in evs)
        stats["aborted_requests"] += any(e["a"] == "X" for e in evs)
        if raised:
            t_ret = [e["t"] for e in evs if e["a"] == "retraised"][0]
            stats["orphan_runs"] += any(e["t"] > t_ret and e["a"] in ("S", "E", "F") for e in evs)
            sent_before = any(e["a"] == "S" for e in evs)
            if any(nd["kind"] in ("unsup", "bad") for nd in case["nodes"]) and sent_before:
                stats["rejected_after_sending"] += 1
        if case["maxc"]:
            fl = peak = 0
            for e in evs:
                fl += {"S": 1, "E": -1, "F": -1, "X": -1}.get(e["a"], 0)
                peak = max(peak, fl)
            stats["limit_reached"] += peak == case["maxc"]
        if case.get("model_wire") is not None:
            stats["s2c_complete"] += 1
            stats["s2c_followed"] += [tuple(x) for x in case["model_wire"]] == [tuple(x) for x in wire(evs)]
    if not items:
        raise tlc.MachineryError("no runs for %s" % label)
    verdicts = tracecheck.validate("Composite", "TraceComposite", "TraceComposite.cfg", items, name="xcomptrace", chunk=1500)
    out.states += verdicts.n_events
    out.transitions += verdicts.n_events
    out.traces_validated += verdicts.accepted(len(items))
    for tid, fails in sorted(verdicts.l1.items()):
        case, item = index[tid]
        clauses = sorted({c for _, cl in fails for c in cl})
        stats["l1"][",".join(clauses)] = stats["l1"].get(",".join(clauses), 0) + 1
        replay = {"maxc": case["maxc"], "nodes": case["nodes"]}
        out.violations.append(
            Violation(
                ",".join(clauses),
                replay,
                signature=_signature(clauses, case, item),
                detail="run %s, first failing event %d of %d%s"
                % (tid, fails[0][0], len(item["events"]), " (pinned behaviour of the model)" if PINNED and set(clauses) <= PINNED else ""),
            )
        )
    if verdicts.l2:
        # does the code behave like the pre-fix variant of the model (final gather outside the try block, no await of cancelled streams)?
        drifted = [index[tid][1] for tid in sorted(verdicts.l2)]
        with open(os.path.join(tlc.SPECS, "Composite", "TraceComposite.cfg"), encoding="utf-8") as f:
            cfg_text = f.read().replace("CancelTail = TRUE", "CancelTail = FALSE").replace("AwaitCancelled = TRUE", "AwaitCancelled = FALSE")
        v2 = tracecheck.validate("Composite", "TraceComposite", "TraceComposite.cfg", drifted, name="xcomptrace2", cfg_text=cfg_text)
        stats["drift_accepted_by_prefix_variant"] = stats.get("drift_accepted_by_prefix_variant", 0) + len(drifted) - len(v2.l2)
        if not v2.l2:
            out.drift.append("%s: %d runs are not behaviours of Composite.tla with CancelTail=AwaitCancelled=TRUE but all of them are with FALSE/FALSE (the pre-fix run_stream: streams behind a tail gather are not cancelled / not awaited)" % (label, len(drifted)))
    for tid, lines in sorted(verdicts.l2.items()):
        case, item = index[tid]
        ln = lines[0]
        what = item["events"][ln - 1] if ln <= len(item["events"]) else "end of run"
        out.drift.append("run %s: event %d (%s) is not a step of Composite.tla; case %s" % (tid, ln, what, {"maxc": case["maxc"], "nodes": case["nodes"]}))
    return items


def run(ctx, out):
    out.rule = (
        "case = one composite: request tree (streams / operation items raw-request|search|sleep / one unsupported or malformed item), "
        "max-connections, latency in ticks and scripted failure per sub-request; distinct by hash of that input; non-trivial = at least 2 "
        "operation items. Sources: TLC -simulate behaviours of Composite.tla (S2C) and seeded random deeper trees (C2S only)."
    )
    out.assumptions = [
        "virtual clock: time passes only in the scripted latency of a sub-request (asyncio.sleep inside the fake client / the sleep runner); 1 tick = 1/64 s",
        "one wire request per sub-request (raw-request, search, sleep); paginated operations and request-context nesting are property C18",
        "the order in which the asyncio semaphore serves waiters is left open in the specification (any waiter may get a free slot)",
        "max-connections >= 1 or absent; 0 (BoundedSemaphore(0): the composite blocks forever) and negative values (ValueError) are not modelled",
        "instrumentation: asyncio task factory (wrapping coroutine + Task.cancel override) and a RequestContextHolder subclass; runner.Composite, RequestTiming and the runners are the real ones",
    ]
    # ---- Leg M
    cfg = "Composite.quick.cfg" if ctx.quick else "Composite.thorough.cfg"
    todo = [(cfg, 200 if ctx.quick else 1500), ("Composite.upfront.cfg", 300)]
    if not ctx.quick:
        todo.append(("Composite.pinned.cfg", 300))
    for c, to in todo:
        wd = tlc.prepare_workdir("Composite", "xcompmc")
        res = tlc.run_tlc(wd, "MC_Composite", c, timeout=to, allow_violation=True, workers=4 if ctx.quick else 8)
        out.add_tlc(res)
        if not res.ok:
            raise tlc.MachineryError("model violates %s in %s: %s" % (res.invariant_violated or res.property_violated or "deadlock freedom", c, res.out[-1500:]))
        out.note("leg M %s: %d distinct states, depth %d, %.1fs" % (c, res.distinct, res.depth, res.wall_s))
    for c, inv, text in [
        ("Composite.selftest.orphan.cfg", "QuiescentAfterRaise", "CancelTail=AwaitCancelled=FALSE (run_stream before the fix): streams behind a tail gather keep running after the composite has raised"),
        ("Composite.selftest.lazy.cfg", "NothingSentIfMalformed", "ValidateUpFront=FALSE (code as it is): requests are sent before an unsupported/malformed item is rejected"),
    ]:
        wd = tlc.prepare_workdir("Composite", "xcompself")
        res = tlc.run_tlc(wd, "MC_Composite", c, timeout=200, allow_violation=True, workers=2)
        if res.invariant_violated != inv:
            raise tlc.MachineryError("self-test failed: %s no longer violates %s" % (c, inv))
        out.extra.setdefault("model_selftests", []).append("%s violates %s in the model, as expected: %s" % (c, inv, text))
    # ---- Leg S2C + C2S
    stats = {k: 0 for k in ("runs", "raised", "cancels", "aborted_requests", "orphan_runs", "rejected_after_sending", "limit_reached", "s2c_complete", "s2c_followed")}
    stats["l1"] = {}
    sim = behaviours_from_tlc(ctx, out, "Composite.sim.cfg", 350 if ctx.quick else 3500, 90)
    sim += behaviours_from_tlc(ctx, out, "Composite.simok.cfg", 350 if ctx.quick else 3500, 90)
    out.note("leg S2C: %d TLC behaviours" % len(sim))
    items = run_cases(sim, out, "sim", stats)
    out.sample({"source": "tlc-simulate", "maxc": sim[0]["maxc"], "nodes": sim[0]["nodes"], "recorded_wire": wire(items[0]["events"])})
    rnd = random.Random(ctx.seed + 31)
    rc = [random_case(rnd) for _ in range(700 if ctx.quick else 8000)]
    rc = [c for c in rc if c["nodes"]]
    items = run_cases(rc, out, "rnd", stats)
    out.sample({"source": "random", "maxc": rc[0]["maxc"], "nodes": rc[0]["nodes"], "recorded_wire": wire(items[0]["events"])})
    out.extra["coverage_of_runs"] = stats
    out.note(
        "leg C2S: %d runs validated; %d raised, %d with Task.cancel, %d with aborted requests, %d with orphaned streams after the raise, "
        "%d rejected only after requests had been sent, %d reached max-connections; S2C: %d/%d complete TLC behaviours reproduced event by event"
        % (
            out.traces_validated,
            stats["raised"],
            stats["cancels"],
            stats["aborted_requests"],
            stats["orphan_runs"],
            stats["rejected_after_sending"],
            stats["limit_reached"],
            stats["s2c_followed"],
            stats["s2c_complete"],
        )
    )
    for key in ("raised", "cancels", "aborted_requests", "limit_reached", "s2c_followed"):
        if not stats[key]:
            out.vacuous.append("no executed run exercised: " + key)
