"""Extra module RealRace: REAL races (`esrally race`, real Thespian multi-process actor system, real DriverActor / Worker processes /
AsyncExecutor threads, offline with static responses) recorded through the guarded hooks of esrally/utils/veriftrace.py
(ESRALLY_VERIF_TRACE=<dir>, one ndjson file per process, per-process sequence numbers, no clocks) and validated by TLC.

RealRace.tla is the race as the hooks see it (driver: start, join point reached, Drive / CompleteCurrentTask broadcasts, samples
received, post-processing, final message; worker: StartWorker, join point sent, Drive / CompleteCurrentTask received, task rows
started or skipped, samples sent) over FIFO channels. Invariants (TLC on the model AND L1 on every recorded event): Barrier,
JoinOnce, CompleteOnce / CompleteOnlyCompletedBy / CompleteNotEarly, SamplesConserved (+ SamplesComplete: what iteration-based
tasks must produce reaches the post-processor), FinishOnce / NoSpuriousFailure, WorkerFollows, AllTasksStarted,
SkipOnlyWhenCompleted. TraceRealRace.tla merges the per-process files by CAUSALITY (one cursor per file, TLC picks the
interleaving depth first; accepted = every file consumed); L2 = every event is the model's step with the model's values.
If the tree has no hooks the leg reports `skipped: hooks not present` and is green. This leg is what binds harness/simactor.py's
reading of Thespian (trusted by C01/C07/C09) to races under the real actor system.
"""
import copy
import json
import os
import re
import shutil
import signal
import subprocess
import sys
import time

from .. import tlc, tracecheck
from ..core import Violation
from ..tlaparse import to_json

PY = "/venv/bin/python"
RACE_TIMEOUT = 150


def tree():
    return os.environ.get("VERIF_REPO", "/repo")


# ---------------------------------------------------------------------------------------------------------------- tracks

OPS = [
    {"name": "health", "operation-type": "raw-request", "path": "/_cluster/health"},
    {"name": "nap", "operation-type": "sleep", "duration": 0.05},
    {"name": "nap2", "operation-type": "sleep", "duration": 0.02},
]


def _it(name, op, clients, wi, it):
    return {"operation": op, "name": name, "clients": clients, "warmup-iterations": wi, "iterations": it}


def _tp(name, op, clients, secs):
    return {"operation": op, "name": name, "clients": clients, "warmup-time-period": 0, "time-period": secs}


TRACKS = {
    # sequential / parallel completed-by a task / sequential with fewer clients
    "cbtask": [
        _it("t0", "health", 2, 2, 4),
        {"parallel": {"completed-by": "p1", "tasks": [_tp("p1", "nap", 2, 1), _tp("p2", "nap2", 2, 8)]}},
        _it("t2", "health", 1, 0, 1),
    ],
    # over-committed parallel (6 tasks on 2 clients) completed by the first task: rows are cut and skipped
    "skip": [
        _it("s0", "health", 2, 1, 2),
        {
            "parallel": {
                "clients": 2,
                "completed-by": "a",
                "tasks": [_tp("a", "nap", 1, 1), _tp("b", "nap", 1, 6), _tp("c", "nap", 1, 1), _tp("d", "nap", 1, 2), _tp("e", "nap", 1, 1), _tp("f", "nap", 1, 2)],
            }
        },
        _it("s2", "nap", 2, 0, 2),
    ],
    # over-committed parallel without completed-by: every row of every client runs; exact number of samples
    "rows": [
        {"parallel": {"clients": 2, "tasks": [_it("a", "health", 1, 1, 1), _it("b", "nap", 1, 1, 1), _it("c", "health", 1, 0, 1), _it("d", "nap", 1, 1, 1)]}},
        _it("r1", "health", 2, 2, 2),
        _tp("r2", "nap", 2, 1),
    ],
    # completed-by any
    "cbany": [
        _it("y0", "nap", 1, 0, 1),
        {"parallel": {"completed-by": "any", "tasks": [_tp("x", "nap", 1, 1), _tp("y", "nap2", 2, 5), _tp("z", "nap", 1, 4)]}},
        _it("y2", "health", 3, 1, 3),
    ],
    # sequential elements with 1, 3, 2, 1 clients: workers without work in a step; exact number of samples
    "seq": [_it("q0", "health", 1, 1, 1), _it("q1", "nap", 3, 3, 3), _it("q2", "health", 2, 2, 2), _it("q3", "nap", 1, 0, 1)],
    # two parallels, the first plain, the second completed by its iteration-based task
    "twopar": [
        {"parallel": {"tasks": [_it("u", "health", 2, 2, 2), _tp("v", "nap", 1, 1)]}},
        {"parallel": {"completed-by": "k", "tasks": [_it("k", "nap", 1, 1, 1), _tp("m", "nap2", 2, 6)]}},
    ],
}

QUICK = [("cbtask", None), ("skip", 2)]
THOROUGH = [
    ("cbtask", None), ("cbtask", 2), ("skip", 2), ("skip", 1), ("rows", 2), ("rows", 1),
    ("cbany", None), ("cbany", 3), ("seq", None), ("seq", 2), ("twopar", 3), ("twopar", 2),
]  # fmt: skip


def track_json(name):
    return {"version": 2, "description": "real-race verification track " + name, "operations": OPS, "challenges": [{"name": "c", "default": True, "schedule": TRACKS[name]}]}


class _Cfg:
    def opts(self, section, key, mandatory=True, default_value=None):
        if (section, key) == ("track", "test.mode.enabled"):
            return True
        return default_value


def scenario(name, cores):
    """The scenario record of a race, computed with the REAL loader, test-mode processor, Allocator and worker assignment."""
    import multiprocessing

    from esrally.driver import driver
    from esrally.track import loader

    t = loader.TrackSpecificationReader()("verif-" + name, copy.deepcopy(track_json(name)), "/nonexistent")
    t = loader.TestModeTrackProcessor(_Cfg()).on_after_load_track(t) or t
    schedule = t.challenges[0].schedule
    al = driver.Allocator(schedule)
    matrix = al.allocations
    ncl = al.clients
    ncores = cores or multiprocessing.cpu_count()
    assign = driver.calculate_worker_assignments([{"host": "localhost", "cores": ncores}], ncl)
    workers = [cl for a in assign for cl in a["workers"] if len(cl) > 0]
    worker_of = {c: w for w, cl in enumerate(workers) for c in cl}
    width = len(matrix[0])
    jpidx = [i for i in range(width) if isinstance(matrix[0][i], driver.JoinPoint)]
    nj = len(jpidx) - 1
    cb, cbw = [], []
    for k in range(1, nj + 1):
        jp = matrix[0][jpidx[k]]
        if jp.any_task_completes_parent:
            cb.append("any")
            cbw.append([])
        elif jp.preceding_task_completes_parent:
            cb.append("task")
            cbw.append(sorted({worker_of[c] for c in jp.clients_executing_completing_task}))
        else:
            cb.append("none")
            cbw.append([])
    rowsdef = []
    for cl in workers:
        per_step = []
        for s in range(nj):
            rows = []
            for i in range(jpidx[s] + 1, jpidx[s + 1]):
                tas = [matrix[c][i] for c in cl if matrix[c][i] is not None]
                if tas:
                    cp = any(bool(ta.task.completes_parent or ta.task.any_completes_parent) for ta in tas)
                    rows.append({"idx": i, "tasks": ",".join(str(ta.task.name) for ta in tas), "cp": cp})
            per_step.append(rows)
        rowsdef.append(per_step)
    # what iteration-based tasks must produce: every client runs warm-up + measurement iterations, one sample each
    min_samples, exact = 0, True
    for s, element in enumerate(schedule):
        for leaf in element:
            timed = leaf.warmup_time_period is not None or leaf.time_period is not None
            cut = cb[s] == "any" or (cb[s] == "task" and not leaf.completes_parent)
            if timed or cut:
                exact = False
            else:
                min_samples += leaf.clients * ((leaf.warmup_iterations or 0) + (leaf.iterations or 1))
    return {"nw": len(workers), "nj": nj, "cb": cb, "cbw": cbw, "rowsdef": rowsdef, "jpidx": jpidx, "minSamples": min_samples, "exact": exact, "clients": ncl}


# ----------------------------------------------------------------------------------------------------------------- races

_ISOLATE = None


def isolation():
    """Every race runs in its own network and pid namespace when the sandbox allows it: Rally probes / binds port 1900 machine-wide
    and other Rally processes may be running; all processes of the race die with it. Otherwise: own session, killed as a group."""
    global _ISOLATE
    if _ISOLATE is None:
        try:
            p = subprocess.run(
                ["unshare", "-n", "-p", "-f", "--kill-child", "--mount-proc", "sh", "-c", "ip link set lo up && echo ok"],
                stdout=subprocess.PIPE, stderr=subprocess.DEVNULL, timeout=20, check=False,
            )  # fmt: skip
            _ISOLATE = p.returncode == 0 and b"ok" in p.stdout
        except (OSError, subprocess.SubprocessError):
            _ISOLATE = False
    return _ISOLATE


def start_race(base, rid, name, cores):
    d = os.path.join(base, rid)
    home, tdir, trace = os.path.join(d, "home"), os.path.join(d, "track"), os.path.join(d, "trace")
    for p in (os.path.join(home, ".rally"), tdir, trace):
        os.makedirs(p)
    with open(os.path.join(tdir, "track.json"), "w", encoding="utf-8") as f:
        json.dump(track_json(name), f, indent=1)
    resp = os.path.join(d, "responses.json")
    with open(resp, "w", encoding="utf-8") as f:
        json.dump([{"path": "*", "body": {}}], f)
    with open(os.path.join(tree(), "esrally", "resources", "rally.ini"), "r", encoding="utf-8") as f:
        ini = f.read()
    if cores:
        ini = ini.replace("[system]\n", "[system]\navailable.cores = %d\n" % cores, 1)
    with open(os.path.join(home, ".rally", "rally.ini"), "w", encoding="utf-8") as f:
        f.write(ini)
    boot = "import sys, esrally; print('ESRALLY_FILE=' + esrally.__file__, flush=True); from esrally.rally import main; sys.argv[0] = 'esrally'; sys.exit(main())"
    cmd = [
        PY, "-c", boot, "race", "--track-path=" + tdir, "--pipeline=benchmark-only", "--distribution-version=8.6.1",
        "--client-options=static_responses:'%s'" % resp, "--offline", "--test-mode", "--quiet",
    ]  # fmt: skip
    if isolation():
        cmd = ["unshare", "-n", "-p", "-f", "--kill-child", "--mount-proc", "sh", "-c", 'ip link set lo up && exec "$@"', "sh"] + cmd
    env = {k: v for k, v in os.environ.items() if k not in ("PYTHONHASHSEED",)}
    env.update({"RALLY_HOME": home, "PYTHONPATH": tree(), "ESRALLY_VERIF_TRACE": trace, "THESPLOG_FILE": os.path.join(d, "thespian.log")})
    log = open(os.path.join(d, "stdout.log"), "wb")
    proc = subprocess.Popen(cmd, cwd=d, env=env, stdout=log, stderr=subprocess.STDOUT, start_new_session=True)
    return {"id": rid, "dir": d, "proc": proc, "log": log, "track": name, "cores": cores, "t0": time.time()}


def finish_race(r):
    try:
        rc = r["proc"].wait(timeout=max(1, RACE_TIMEOUT - (time.time() - r["t0"])))
    except subprocess.TimeoutExpired:
        rc = None
    # whatever is left of this race's process group (only this race's) goes away
    try:
        os.killpg(r["proc"].pid, signal.SIGKILL)
    except (ProcessLookupError, PermissionError):
        pass
    if rc is None:
        r["proc"].wait(timeout=10)
    r["log"].close()
    with open(os.path.join(r["dir"], "stdout.log"), "r", encoding="utf-8", errors="replace") as f:
        r["stdout"] = f.read()
    r["rc"] = rc
    m = re.search(r"ESRALLY_FILE=(\S+)", r["stdout"])
    r["esrally_file"] = m.group(1) if m else None
    races = os.path.join(r["dir"], "home", ".rally", "benchmarks", "races")
    r["race_json"] = any("race.json" in fs for _p, _d, fs in os.walk(races)) if os.path.isdir(races) else False
    tr = os.path.join(r["dir"], "trace")
    r["trace_files"] = sorted(os.listdir(tr))
    return r


# ----------------------------------------------------------------------------------------------------------------- traces

FIELDS = {
    "start": {"workers": int, "steps": int, "clients": int},
    "jp": {"w": int, "jp": int, "step": int, "pending": int},
    "post": {"n": int},
    "drive": {"step": int, "n": int},
    "complete": {"step": int, "kind": str, "n": int},
    "samples": {"w": int, "n": int, "raw": int},
    "final": {"kind": str},
    "init": {"w": int, "clients": int},
    "jp_sent": {"w": int, "idx": int, "jp": int},
    "drive_rcvd": {"w": int, "idx": int},
    "task_start": {"w": int, "idx": int, "tasks": str, "n": int},
    "skip": {"w": int, "idx": int},
    "complete_rcvd": {"w": int, "idx": int, "applied": bool},
    "samples_sent": {"w": int, "n": int},
}
DRIVER_EVENTS = {"start", "jp", "post", "drive", "complete", "samples", "final"}


class Malformed(Exception):
    pass


def read_trace(trace_dir, nw):
    """-> [driver events, worker 0 events, ...]; the format is enforced before TLC sees anything."""
    driver, workers = None, {}
    for fn in sorted(os.listdir(trace_dir)):
        m = re.fullmatch(r"(driver|worker)-(\d+)\.ndjson", fn)
        if not m:
            raise Malformed("unexpected file %s" % fn)
        evs = []
        with open(os.path.join(trace_dir, fn), "r", encoding="utf-8") as f:
            for ln, line in enumerate(f, 1):
                try:
                    e = json.loads(line)
                except ValueError as ex:
                    raise Malformed("%s:%d not JSON" % (fn, ln)) from ex
                if not isinstance(e, dict) or e.get("seq") != ln:
                    raise Malformed("%s:%d sequence number %r" % (fn, ln, e.get("seq") if isinstance(e, dict) else None))
                spec = FIELDS.get(e.get("ev"))
                if spec is None or set(e) != set(spec) | {"ev", "seq"}:
                    raise Malformed("%s:%d fields %s" % (fn, ln, sorted(e)))
                for k, ty in spec.items():
                    if type(e[k]) is not ty:  # pylint: disable=unidiomatic-typecheck
                        raise Malformed("%s:%d field %s=%r" % (fn, ln, k, e[k]))
                if (e["ev"] in DRIVER_EVENTS) != (m.group(1) == "driver"):
                    raise Malformed("%s:%d event %s in a %s file" % (fn, ln, e["ev"], m.group(1)))
                if "w" in e and not 0 <= e["w"] < nw:
                    raise Malformed("%s:%d worker id %r" % (fn, ln, e["w"]))
                evs.append(e)
        if m.group(1) == "driver":
            if driver is not None:
                raise Malformed("two driver files")
            driver = evs
        else:
            ids = {e["w"] for e in evs}
            if len(ids) != 1 or next(iter(ids)) in workers:
                raise Malformed("%s: worker ids %s" % (fn, sorted(ids)))
            workers[ids.pop()] = evs
    if driver is None or sorted(workers) != list(range(nw)):
        raise Malformed("files for driver=%s workers=%s, expected %d workers" % (driver is not None, sorted(workers), nw))
    return [driver] + [workers[w] for w in range(nw)]


def strip(files):
    """samples_sent with n = 0 (sampler drained, nothing to send) carries no information; sequence numbers are not used by TLC."""
    return [[{k: v for k, v in e.items() if k != "seq"} for e in evs if not (e["ev"] == "samples_sent" and e["n"] == 0)] for evs in files]


def validate(item, name):
    """One TLC run: depth-first search for a causal interleaving of the files. -> dict(accepted, l1, l2, consumed, res, stuck)"""
    tracecheck.check_json_ints(item)
    wd = tlc.prepare_workdir("RealRace", name)
    tf = os.path.join(wd, "trace.json")
    with open(tf, "w", encoding="utf-8") as f:
        json.dump(item, f, separators=(",", ":"))
    res = tlc.run_tlc(wd, "TraceRealRace", "TraceRealRace.cfg", workers=1, timeout=300, env={"VERIF_TRACES": tf}, deque=True, allow_violation=True)
    v = {"accepted": False, "l1": [], "l2": [], "consumed": None, "res": res, "stuck": None}
    done = [t for t in tracecheck.printed_tuples(res.out) if t and t[0] == "DONE"]
    if res.invariant_violated == "NotDone" and done:
        _, _tid, viol, drift, consumed = done[0]
        v["l1"], v["l2"], v["consumed"] = sorted(to_json(viol)), sorted(to_json(drift)), consumed
        v["accepted"] = not v["l1"]
    elif res.ok or res.error:
        # no causal order of the logged events is a run over FIFO channels (or an event lies outside the model's domain)
        v["l1"] = ["NotLinearizable"]
        if res.ok:
            v["stuck"] = where_stuck(item, wd, tf)
        else:
            v["stuck"] = (res.error or "")[:300]
    else:
        raise tlc.MachineryError("trace validation run failed: %s" % res.out[-2000:])
    shutil.rmtree(wd, ignore_errors=True)
    return v


def where_stuck(item, wd, tf):
    """Diagnosis of a rejected trace: the deepest cursor vector TLC reached and the next line of every file there."""
    dump = os.path.join(wd, "states")
    tlc.run_tlc(wd, "TraceRealRace", "TraceRealRace.cfg", workers=1, timeout=300, env={"VERIF_TRACES": tf}, deque=True, allow_violation=True, dump=dump)
    best = None
    try:
        with open(dump + ".dump", "r", encoding="utf-8") as f:
            for m in re.finditer(r"cur = <<([\d, ]+)>>", f.read()):
                cur = [int(x) for x in m.group(1).split(",")]
                if best is None or sum(cur) > sum(best):
                    best = cur
    except OSError:
        return None
    if best is None:
        return None
    nxt = []
    for fi, c in enumerate(best):
        evs = item["files"][fi]
        nxt.append("%s@%d:%s" % ("driver" if fi == 0 else "w%d" % (fi - 1), c, json.dumps(evs[c - 1], sort_keys=True) if c <= len(evs) else "end"))
    return "; ".join(nxt)[:600]


def corruptions(item):
    """Self-test inputs: the recorded trace with one field changed / one line dropped must be rejected."""
    res = []
    files = item["files"]

    def variant(tag, fi, li, change):
        it = copy.deepcopy(item)
        it["id"] = item["id"] + "~" + tag
        if change is None:
            del it["files"][fi][li]
        else:
            it["files"][fi][li].update(change)
        res.append(it)

    for li, e in enumerate(files[0]):
        if e["ev"] == "samples":
            variant("samples.n+1", 0, li, {"n": e["n"] + 1, "raw": e["raw"] + 1})
            break
    for li, e in enumerate(files[1]):
        if e["ev"] == "jp_sent" and e["jp"] == 1:
            variant("drop-jp_sent", 1, li, None)
            break
    drives = [li for li, e in enumerate(files[0]) if e["ev"] == "drive"]
    jps = [li for li, e in enumerate(files[0]) if e["ev"] == "jp" and e["jp"] == 1]
    if drives and jps and len(drives) > 1:
        # the Drive for step 1 logged before the last worker reported join point 1
        it = copy.deepcopy(item)
        it["id"] = item["id"] + "~early-drive"
        d = it["files"][0]
        last_jp, drv = jps[-1], drives[1]
        block = d[last_jp + 1 : drv + 1]  # post + drive that followed the last arrival
        del d[last_jp + 1 : drv + 1]
        d[last_jp:last_jp] = block
        res.append(it)
    for li, e in enumerate(files[0]):
        if e["ev"] == "final":
            variant("final.kind", 0, li, {"kind": "failure"})
    return res


# ------------------------------------------------------------------------------------------------------------------- run


def model_leg(ctx, out):
    wd = tlc.prepare_workdir("RealRace", "realrace")
    res = tlc.run_tlc(wd, "MC_RealRace", "RealRace.quick.cfg" if ctx.quick else "RealRace.thorough.cfg", timeout=600, workers=4)
    out.add_tlc(res)
    if not res.ok:
        raise tlc.MachineryError("RealRace model: %s" % (res.invariant_violated or res.property_violated or "deadlock"))
    # the switches must break what they are meant to break (self-test of the invariants)
    for cfg, expect in (("RealRace.slack.cfg", ("NoViol", "Barrier")), ("RealRace.droplast.cfg", ("SamplesConserved",))):
        r = tlc.run_tlc(wd, "MC_RealRace", cfg, timeout=300, workers=4, allow_violation=True)
        if r.ok or r.invariant_violated not in expect:
            raise tlc.MachineryError("self-test %s: expected a violation of %s, got %s" % (cfg, expect, r.invariant_violated or ("deadlock" if r.deadlock else "none")))
    out.extra["model_selftests"] = ["Slack=1 violates Barrier", "DropLast violates SamplesConserved"]


def run(ctx, out):
    out.rule = "case = one real `esrally race` (track shape x available.cores) recorded through the ESRALLY_VERIF_TRACE hooks"
    out.assumptions.append("FIFO, exactly-once delivery per ordered actor pair (established for Thespian by the extra module ActorSem)")
    out.assumptions.append("a hook line is written after the state change it reports and inside the same actor handler")
    model_leg(ctx, out)
    if not os.path.exists(os.path.join(tree(), "esrally", "utils", "veriftrace.py")):
        out.note("skipped: hooks not present in %s (esrally/utils/veriftrace.py)" % tree())
        out.extra["real_races"] = "skipped: hooks not present"
        return
    plan = QUICK if ctx.quick else THOROUGH
    base = tlc.scratch("realrace")
    batch = 2 if ctx.quick else 4
    races = []
    for i in range(0, len(plan), batch):
        running = [start_race(base, "r%02d-%s-%s" % (i + j, n, c or "all"), n, c) for j, (n, c) in enumerate(plan[i : i + batch])]
        races += [finish_race(r) for r in running]
    out.extra["isolation"] = "net+pid namespace per race" if isolation() else "own session per race"
    summary = []
    first_item = None
    for r in races:
        out.add_case({"track": r["track"], "cores": r["cores"]})
        if r["esrally_file"] is None or not os.path.realpath(r["esrally_file"]).startswith(os.path.realpath(tree()) + os.sep):
            raise tlc.MachineryError("race %s did not import esrally from %s: %s\n%s" % (r["id"], tree(), r["esrally_file"], r["stdout"][-800:]))
        if not r["trace_files"]:
            out.note("skipped: hooks not present (race %s wrote no trace files)" % r["id"])
            out.extra["real_races"] = "skipped: hooks not present"
            return
        scn = scenario(r["track"], r["cores"])
        item = dict(scn, id=r["id"])
        try:
            item["files"] = strip(read_trace(os.path.join(r["dir"], "trace"), scn["nw"]))
        except Malformed as ex:
            out.violations.append(Violation("Malformed", {"race": r["id"], "what": str(ex)}, signature={"track": r["track"], "cores": r["cores"]}, detail=str(ex)))
            summary.append({"race": r["id"], "verdict": "malformed: %s" % ex})
            continue
        v = validate(item, "rr-" + r["id"])
        out.add_tlc(v["res"])
        nev = sum(len(x) for x in item["files"])
        finished = r["rc"] == 0 and r["race_json"]
        if not finished:
            v["l1"] = sorted(set(v["l1"]) | {"RaceEnds"})
            v["accepted"] = False
        summary.append({"race": r["id"], "workers": scn["nw"], "steps": scn["nj"], "events": nev, "samples": v["consumed"], "rc": r["rc"],
                        "l1": v["l1"], "l2": v["l2"], "states": v["res"].distinct, "stuck": v["stuck"]})  # fmt: skip
        if v["accepted"]:
            out.traces_validated += 1
            if first_item is None:
                first_item = item
        if v["l1"]:
            out.violations.append(
                Violation(",".join(v["l1"]), {"race": r["id"], "track": track_json(r["track"]), "cores": r["cores"], "stuck": v["stuck"]},
                          signature={"track": r["track"], "cores": r["cores"], "clauses": v["l1"]}, detail=str(v["stuck"] or ""))
            )  # fmt: skip
        if v["l2"]:
            out.drift.append("race %s: events that are not the model's step: %s" % (r["id"], v["l2"]))
        out.sample({"race": r["id"], "workers": scn["nw"], "steps": scn["nj"], "events": nev, "samples_post_processed": v["consumed"], "l1": v["l1"], "l2": v["l2"]})
    out.extra["real_races"] = summary
    for s in summary:
        out.note("race %(race)s: %(verdict)s" % s if "verdict" in s else "race %(race)s: workers=%(workers)d steps=%(steps)d events=%(events)d samples=%(samples)s L1=%(l1)s L2=%(l2)s states=%(states)d" % s
                 + (" stuck at: %s" % s["stuck"] if s["stuck"] else ""))
    # binding self-test: a recorded trace with one field changed / one line dropped / a block moved must be rejected
    if first_item is not None:
        rejected = []
        for it in corruptions(first_item):
            v = validate(it, "rr-selftest")
            if v["accepted"]:
                raise tlc.MachineryError("self-test: corrupted trace %s was accepted" % it["id"])
            rejected.append("%s -> %s" % (it["id"].split("~")[1], ",".join(v["l1"])))
        if len(rejected) < 3:
            raise tlc.MachineryError("self-test: only %d corruptions could be built" % len(rejected))
        out.extra["corruption_selftest"] = rejected
        out.note("corrupted traces rejected: " + "; ".join(rejected))
    shutil.rmtree(base, ignore_errors=True)


if __name__ == "__main__":
    sys.exit("run via: /venv/bin/python -m harness.extras_runner realrace")
