"""Extra module MainLifecycle: the process-level life cycle of one `esrally` invocation (esrally/rally.py: with_actor_system, race,
dispatch_sub_command, main) as the sequence of calls the process makes against its environment.  Specified in specs/MainLifecycle:
probe of port 1900 -> bootstrap (join an already running system / create a local one) -> the two fall-backs to the offline actor
system -> runnable -> shutdown loop (sleep 3 s, shutdown, up to 16 polls / 15 s, KeyboardInterrupt at any call) -> outcome ->
ExitStatus -> exit code.  Invariants (TLC + L1 on every recorded run of the REAL functions): NeverShutsDownForeignSystem,
RunnableAtMostOnce (only after a bootstrap that returned), RemoteSupportedIffRunning, ShutdownAttemptedIfOwned (>= 1 shutdown call
whatever the runnable did, unless interrupted twice before), AtMostTwoInterruptsTolerated (the 2nd ends in UserInterrupted, which wins
over the runnable's exception), WaitBounded, OutcomePropagates (return value / the very exception object of the runnable, a shutdown
time-out only warns), ExitStatusTotal (every outcome -> SUCCESSFUL 0 / INTERRUPTED 130 / ERROR 64; failed race ERROR, cancelled one
INTERRUPTED; nothing escapes dispatch_sub_command).  /repo does not meet the strong form ShutdownAttemptedIfCreated (the offline
system created by the fall-back while something answers on port 1900 is never shut down) nor TimeoutWarningTruthful (a system found
gone by the 16th poll is still reported as timed out): pinned behind ShutdownAfterFallback / LastPollCounts (FALSE = /repo).

Leg M   : TLC on MainLifecycle.{quick,real,repaired}.cfg (thorough: all scenarios with the real time-out 15) + 2 self-tests.
Leg S2C : TLC -simulate behaviours -> per-call scripts -> REAL with_actor_system / race / dispatch_sub_command / main with
          rally.actor, rally.time, rally.console, rally.process, racecontrol.run and the sub-command functions replaced by scripted
          fakes (KeyboardInterrupt raised by the fake at the scripted call); the recorded events must equal the behaviour's.
Leg C2S : every recorded run (S2C + systematically enumerated + seeded random scripts) judged by TLC against TraceMainLifecycle.tla.
"""
import argparse
import copy
import glob
import itertools
import logging
import os
import random
import re
import sys
import types
from unittest import mock

from .. import tlc, tracecheck
from ..core import Violation
from ..tlaparse import parse_state, parse_value, to_json

SPEC = "MainLifecycle"
TIMEOUT = 15
PINNED = {
    "ShutdownAttemptedIfCreated": (
        "ShutdownAfterFallback",
        "already_running = True (something answers on 127.0.0.1:1900) but joining fails with InvalidActorAddress / no socket address: "
        "the offline actor system this process then creates is never shut down (finally only looks at `already_running`)",
    ),
    "TimeoutWarningTruthful": (
        "LastPollCounts",
        "the actor system is found gone by the 16th poll (after 15 x 1 s): with_actor_system still logs `Shutdown timed out. Actor system is "
        "still running.` and tells the user to force-terminate all Rally processes (`if timeout > 0` is tested after the loop)",
    ),
}
SOCK_TEXT = "Unable to determine valid external socket address."
OBS0 = {
    "ar": "none", "cfgv": "unset", "nboot": 0, "booted": False, "fell": False, "noff": 0, "nrun": 0, "runres": "none",
    "nshut": 0, "nsleep3": 0, "npoll": 0, "lastpoll": "none", "nsleep1": 0, "nint": 0, "nwait": 0, "wdeg": False, "wterm": False, "wto": False,
    "pre": "none", "ncall": 0, "callres": "none", "result": "none", "status": "none", "exit": -1,
}  # fmt: skip
TARGETS = {
    "compare": "reporter.compare", "list": "dispatch_list", "delete": "dispatch_delete", "add": "dispatch_add",
    "build": "mechanic.build", "download": "mechanic.download", "install": "mechanic.install", "start": "mechanic.start",
    "stop": "mechanic.stop", "create-track": "tracker.create_track", "info": "track.track_info",
}  # fmt: skip
ARGV = {
    "race": ["race", "--track=geonames"],
    "compare": ["compare", "--baseline=a", "--contender=b"],
    "list": ["list", "tracks"],
    "delete": ["delete", "race", "--id=x"],
    "add": ["add", "annotation", "--message=m", "--race-timestamp=20200101T000000Z"],
    "build": ["build", "--revision=latest"],
    "download": ["download", "--distribution-version=8.0.0"],
    "install": ["install", "--distribution-version=8.0.0"],
    "start": ["start", "--installation-id=i", "--race-id=r"],
    "stop": ["stop", "--installation-id=i"],
    "create-track": ["create-track", "--track=t", "--indices=a", "--output-path=/tmp/verif-none", "--target-hosts=localhost:9200"],
    "info": ["info", "--track=geonames"],
}
RUN_KINDS = ("ret", "rallyerr", "ui", "KI", "exc", "sysexit")
BOOT_KINDS = ("ok", "IAA", "KI", "sock", "exc", "sysexit")
BOOT2_KINDS = ("ok", "IAA", "KI", "sock", "exc")
CALL_KINDS = ("ret", "rallyerr", "sse", "ui", "KI", "exc", "sysexit")
QUEUES = ("sleep3", "shutdown", "poll", "sleep1")
CASE_KEYS = ("scn", "script")


class _Divergence(Exception):
    """The real code did something the harness has no vocabulary for / does not end."""


def _scn(mode, sub="", kill=False, main=False):
    return {"mode": mode, "sub": sub, "kill": kill, "main": main}


# ===================================================================================================
# the REAL functions against scripted fakes
# ===================================================================================================
_CACHE = {}


def _parser(rally):
    if "parser" not in _CACHE:
        _CACHE["parser"] = rally.create_arg_parser()  # the real parser, built once
    return _CACHE["parser"]


def _parsed(rally, sub, kill):
    key = (sub, kill)
    if key not in _CACHE:
        _CACHE[key] = _parser(rally).parse_args(ARGV[sub] + (["--kill-running-processes"] if kill else []))
    return _CACHE[key]


def execute(case):
    """case: {"scn": {mode, sub, kill, main}, "script": {"probe", "boot", "boot2", "run", "pre", "call": outcome kind,
    "sleep3" / "shutdown" / "poll" / "sleep1": list of outcomes per call (then "dflt")}}.  Returns (item, info)."""
    import thespian.actors

    from esrally import config, exceptions, rally

    scn, script = case["scn"], case["script"]
    st = dict(OBS0)
    events, anomalies = [], []
    known = {}  # id(exception object raised by a fake) -> label
    keep = []
    queues = {q: list(script.get(q, [])) for q in QUEUES}
    used_default = []

    def emit(a, r, x=""):
        events.append({"a": a, "r": r, "x": x, "st": dict(st)})
        if len(events) > 400:
            raise _Divergence("run does not end")

    def exc_for(kind, label):
        if kind == "KI":
            ex = KeyboardInterrupt()
        elif kind == "IAA":
            ex = thespian.actors.InvalidActorAddress("verif-address", "not a valid ActorSystem admin")
        elif kind == "sock":
            ex = Exception(SOCK_TEXT)
        elif kind == "exc":
            ex = RuntimeError("verif: scripted failure")
        elif kind == "sysexit":
            ex = SystemExit(2)
        elif kind == "rallyerr":
            ex = exceptions.RallyError("verif: scripted RallyError")
        elif kind == "sse":
            ex = exceptions.SystemSetupError("verif: scripted SystemSetupError")
        elif kind == "ui":
            ex = exceptions.UserInterrupted("verif: scripted UserInterrupted")
        else:
            raise _Divergence("unknown outcome kind %r" % (kind,))
        known[id(ex)] = label
        keep.append(ex)
        return ex

    def nxt(q, dflt):
        if queues[q]:
            return queues[q].pop(0)
        used_default.append(q)
        return script.get("dflt", {}).get(q, dflt)

    # ---- actor module ----
    class FakeActors:
        def shutdown(self_):
            r = nxt("shutdown", "ok")
            st["nshut"] += 1
            if r == "KI":
                st["nint"] += 1
            emit("shutdown", r)
            if r != "ok":
                raise exc_for(r, "shut:" + r)

    def already_running(*a, **kw):
        if a or kw:
            anomalies.append("actor_system_already_running%r" % ((a, kw),))
        if st["nboot"] == 0 and st["nrun"] == 0:
            r = script.get("probe", "F")
            if r in ("T", "F"):
                st["ar"] = r
            emit("probe", r)
            if r == "KI":
                raise exc_for("KI", "probe:KI")
            return r == "T"
        r = nxt("poll", "F")
        st["npoll"] += 1
        st["lastpoll"] = r
        if r == "KI":
            st["nint"] += 1
        emit("poll", r)
        if r == "KI":
            raise exc_for("KI", "poll:KI")
        return r == "T"

    def bootstrap(try_join=False, prefer_local_only=False, **kw):
        name = "boot" if st["noff"] == 0 else "boot2"
        x = "join" if (try_join and not prefer_local_only) else "local" if (prefer_local_only and not try_join) else "tj=%s,plo=%s" % (try_join, prefer_local_only)
        if kw:
            x += ",%s" % sorted(kw)
        r = script.get(name, "ok")
        st["nboot"] += 1
        st["booted"] = r == "ok"
        emit(name, r, x)
        if r != "ok":
            raise exc_for(r, "boot:" + r)
        return FakeActors()

    def use_offline():
        st["noff"] += 1
        st["fell"] = True
        emit("offline", "ok")

    fake_actor = types.SimpleNamespace(actor_system_already_running=already_running, bootstrap_actor_system=bootstrap, use_offline_actor_system=use_offline)

    # ---- time ----
    clock = {"now": 1000.0}

    def sleep(secs):
        if secs == 3:
            name = "sleep3"
        elif secs == 1:
            name = "sleep1"
        else:
            anomalies.append("sleep(%r)" % (secs,))
            return
        r = nxt(name, "ok")
        st["n" + name] += 1
        if r == "KI":
            st["nint"] += 1
        else:
            clock["now"] += secs
        emit(name, r)
        if r == "KI":
            raise exc_for("KI", name + ":KI")

    fake_time = types.SimpleNamespace(sleep=sleep, time=lambda: clock["now"])

    # ---- console ----
    def c_warn(msg, *a, **kw):
        msg = str(msg)
        if msg.startswith("Could not determine a socket address"):
            st["wdeg"] = True
            emit("warn", "degraded")
        elif msg.startswith("Terminating now at the risk"):
            st["wterm"] = True
            emit("warn", "term")
        elif msg.startswith("Could not terminate all internal processes"):
            st["wto"] = True
            emit("warn", "timeout")
        elif msg.startswith("The next race may fail"):
            pass
        else:
            emit("warn", "other:" + msg[:40])

    def c_info(msg, *a, **kw):
        msg = str(msg)
        if msg.startswith("Please wait a moment"):
            st["nwait"] += 1
            emit("info", "wait")
        # SUCCESS / ABORTED / FAILURE / "Aborted <sub>" lines: not part of the vocabulary

    from esrally.utils import console as real_console

    fake_console = types.SimpleNamespace(
        warn=c_warn, info=c_info, error=lambda *a, **kw: None, println=lambda *a, **kw: None, init=lambda *a, **kw: None, format=real_console.format
    )

    # ---- cfg ----
    class RecCfg(config.Config):
        def add(self_, scope, section, key, value):
            if key == "remote.benchmarking.supported":
                r = "T" if value is True else "F" if value is False else "other:%r" % (value,)
                st["cfgv"] = r
                emit("cfg", r, "" if (scope == config.Scope.application and section == "system") else "%s/%s" % (scope, section))
            super().add(scope, section, key, value)

        def config_present(self_):
            return True

        def load_config(self_, *a, **kw):
            return None

    # ---- runnable / sub-command functions ----
    def outcome(name, kind, label):
        def f(*a, **kw):
            if name == "run":
                st["nrun"] += 1
                st["runres"] = kind
                if len(a) != 1 or not isinstance(a[0], config.Config) or kw:
                    anomalies.append("runnable%r" % ((a, kw),))
                emit("run", kind)
            else:
                st["ncall"] += 1
                st["callres"] = kind
                emit("call", kind, name)
            if kind != "ret":
                raise exc_for(kind, label + kind)
            return None

        return f

    def classify(ex):
        if id(ex) in known:
            lab = known[id(ex)]
            return lab if lab.split(":")[0] in ("run", "boot", "probe", "shut", "call") else "other:" + lab
        if isinstance(ex, exceptions.UserInterrupted):
            msg = str(ex.args[0]) if ex.args else ""
            if "whilst bootstrapping actor system" in msg:
                return "UIboot"
            if "shutdown not complete as user interrupted" in msg:
                return "UIshut"
            if "whilst terminating Rally instances" in msg:
                return "UIkill"
        return "other:%s" % type(ex).__name__

    real_was = rally.with_actor_system
    real_dispatch = rally.dispatch_sub_command

    def was_wrapper(runnable, cfg):
        try:
            v = real_was(runnable, cfg)
            r = "ret" if v is None else "ret:%r" % (v,)
        except _Divergence:
            raise
        except BaseException as ex:  # pylint: disable=broad-except
            r = classify(ex)
            st["result"] = r
            emit("ret", r)
            raise
        st["result"] = r
        emit("ret", r)
        return v

    def dispatch_wrapper(arg_parser, args, cfg):
        try:
            v = real_dispatch(arg_parser, args, cfg)
            r = v.name if isinstance(v, rally.ExitStatus) else "other:%r" % (v,)
        except _Divergence:
            raise
        except BaseException as ex:  # pylint: disable=broad-except
            r = "raised:" + classify(ex)
            st["status"] = r
            emit("status", r)
            raise
        st["status"] = r
        emit("status", r)
        return v

    def others():
        r = script.get("pre", "none")
        st["pre"] = "others:" + r
        emit("others", r)
        return [types.SimpleNamespace(pid=4711)] if r == "some" else []

    def kill():
        r = script.get("pre", "ok")
        st["pre"] = "kill:" + r
        emit("kill", r)
        if r != "ok":
            raise exc_for(r, "kill:" + r)

    patches = [
        mock.patch.object(rally, "actor", fake_actor),
        mock.patch.object(rally, "time", fake_time),
        mock.patch.object(rally, "console", fake_console),
        mock.patch.object(rally, "with_actor_system", was_wrapper),
        mock.patch.object(rally, "dispatch_sub_command", dispatch_wrapper),
        mock.patch.object(rally.process, "find_all_other_rally_processes", others),
        mock.patch.object(rally.process, "kill_running_rally_instances", kill),
        mock.patch.object(rally.racecontrol, "run", outcome("run", script.get("run", "ret"), "run:")),
    ]
    for sub, target in TARGETS.items():
        f = outcome(target, script.get("call", "ret"), "call:")
        if "." in target:
            mod, attr = target.split(".")
            patches.append(mock.patch.object(getattr(rally, mod), attr, f))
        else:
            patches.append(mock.patch.object(rally, target, f))
    if scn["main"]:
        noop = lambda *a, **kw: None  # noqa: E731
        patches += [
            mock.patch.object(rally, "check_python_version", noop),
            mock.patch.object(rally, "log", types.SimpleNamespace(install_default_log_config=noop, configure_logging=noop)),
            mock.patch.object(rally.config, "Config", RecCfg),
            mock.patch.object(rally.net, "init", noop),
            mock.patch.object(rally, "shutil", types.SimpleNamespace(rmtree=noop)),
            mock.patch.object(sys, "argv", ["esrally"] + ARGV[scn["sub"]] + (["--kill-running-processes"] if scn["kill"] else [])),
        ]
    old_disable = logging.root.manager.disable
    logging.disable(logging.CRITICAL)
    try:
        for p in patches:
            p.start()
        try:
            if scn["mode"] == "was":
                try:
                    rally.with_actor_system(outcome("run", script.get("run", "ret"), "run:"), RecCfg())
                except _Divergence:
                    raise
                except BaseException:  # pylint: disable=broad-except
                    pass  # recorded by the wrapper
            elif scn["main"]:
                try:
                    rally.main()
                    code = 0
                except SystemExit as ex:
                    code = ex.code if isinstance(ex.code, int) else -2
                except _Divergence:
                    raise
                except BaseException as ex:  # pylint: disable=broad-except
                    anomalies.append("main raised %s" % type(ex).__name__)
                    code = -3
                st["exit"] = code
                emit("exit", str(code))
            else:
                if scn["sub"] == "unknown":
                    args = argparse.Namespace(subcommand="frobnicate", quiet=False, offline=False)
                else:
                    args = copy.deepcopy(_parsed(rally, scn["sub"], scn["kill"]))
                try:
                    rally.dispatch_sub_command(_parser(rally), args, RecCfg())
                except _Divergence:
                    raise
                except BaseException:  # pylint: disable=broad-except
                    pass  # recorded by the wrapper
        finally:
            for p in reversed(patches):
                p.stop()
    finally:
        logging.disable(old_disable)
    item = {"scn": dict(scn), "init": dict(OBS0), "events": events}
    return item, {"anomalies": anomalies, "defaults": used_default, "left": {q: v for q, v in queues.items() if v}, "final": st}


# ===================================================================================================
# cases
# ===================================================================================================
_RE_SIM_STATE = re.compile(r"^STATE_\d+ ==\s*$", re.M)
_RE_SIM_ACT = re.compile(r"^/\\ act = (.*)$", re.M)
_RE_SIM_SCN = re.compile(r"^/\\ scn = (.*)$", re.M)
_RE_SIM_PC = re.compile(r'^  pc \|-> "(\w+)"', re.M)


def _behaviour(path):
    with open(path, "r", encoding="utf-8") as f:
        text = f.read()
    cuts = [m.start() for m in _RE_SIM_STATE.finditer(text)] + [len(text)]
    bodies = [text[cuts[i] : cuts[i + 1]] for i in range(len(cuts) - 1)]
    if not bodies:
        return None, [], None
    scn = to_json(parse_value(_RE_SIM_SCN.search(bodies[0]).group(1)))
    steps, pc = [], None
    for b in bodies[1:]:
        ma, mp = _RE_SIM_ACT.search(b), _RE_SIM_PC.search(b)
        if not ma or not mp:
            raise tlc.MachineryError("cannot read a state of %s" % path)
        steps.append(to_json(parse_value(ma.group(1))))
        pc = mp.group(1)
    return scn, steps, pc


def script_of(steps):
    script = {q: [] for q in QUEUES}
    for e in steps:
        a, r = e["a"], e["r"]
        if a in QUEUES:
            script[a].append(r)
        elif a in ("probe", "boot", "boot2", "run", "call"):
            script[a] = r
        elif a in ("others", "kill"):
            script["pre"] = r
    return script


def cases_from_tlc(ctx, out, cfg, num, seed):
    wd = tlc.prepare_workdir(SPEC, "xmlsim")
    os.makedirs(os.path.join(wd, "sim"))
    res = tlc.run_tlc(wd, "MC_MainLifecycle", cfg, workers=1, timeout=280, simulate={"num": num, "file": "sim/b"}, depth=120, seed=seed)
    if not res.ok:
        raise tlc.MachineryError("simulation reported a model violation: %s" % res.out[-2000:])
    out.add_tlc(res)
    cases = []
    for fn in sorted(glob.glob(os.path.join(wd, "sim", "b_*"))):
        scn, steps, pc = _behaviour(fn)
        if not steps:
            continue
        cases.append({"src": "tlc-simulate", "scn": scn, "script": script_of(steps), "model_events": [[e["a"], e["r"], e["x"]] for e in steps], "complete": pc == "done"})
    return cases


def shutdown_scripts():
    """The shutdown loop, systematically: one round = how it ends (complete after k polls, time-out, interrupt at one of the four
    calls after k polls); up to three rounds."""
    rounds = []
    for k in (0, 1, 2, TIMEOUT - 1, TIMEOUT):
        rounds.append(("complete%d" % k, {"sleep3": ["ok"], "shutdown": ["ok"], "poll": ["T"] * k + ["F"], "sleep1": ["ok"] * k}, "end" if k < TIMEOUT else "to"))
    rounds.append(("timeout", {"sleep3": ["ok"], "shutdown": ["ok"], "poll": ["T"] * (TIMEOUT + 1), "sleep1": ["ok"] * TIMEOUT}, "to"))
    rounds.append(("shutexc", {"sleep3": ["ok"], "shutdown": ["exc"], "poll": [], "sleep1": []}, "end"))
    rounds.append(("KI@sleep3", {"sleep3": ["KI"], "shutdown": [], "poll": [], "sleep1": []}, "ki"))
    rounds.append(("KI@shutdown", {"sleep3": ["ok"], "shutdown": ["KI"], "poll": [], "sleep1": []}, "ki"))
    for k in (0, 3, TIMEOUT):
        rounds.append(("KI@poll%d" % k, {"sleep3": ["ok"], "shutdown": ["ok"], "poll": ["T"] * k + ["KI"], "sleep1": ["ok"] * k}, "ki"))
    for k in (0, 3, TIMEOUT - 1):
        rounds.append(("KI@sleep1_%d" % k, {"sleep3": ["ok"], "shutdown": ["ok"], "poll": ["T"] * (k + 1), "sleep1": ["ok"] * k + ["KI"]}, "ki"))
    res = []

    def rec(prefix, nki):
        for name, q, how in rounds:
            cur = prefix + [(name, q)]
            if how == "ki" and nki + 1 < 2:
                rec(cur, nki + 1)
            else:
                res.append(("+".join(n for n, _ in cur), {qq: sum((r[qq] for _, r in cur), []) for qq in QUEUES}))

    rec([], 0)
    return res


def enumerated_cases():
    cases = []
    shut = shutdown_scripts()
    # with_actor_system: every way to get to the runnable x every outcome of the runnable x a rotating selection of shutdown scripts,
    # every shutdown script at least once per outcome class of the runnable
    entries = []
    for probe in ("T", "F", "KI"):
        if probe == "KI":
            entries.append({"probe": probe})
            continue
        for boot in BOOT_KINDS:
            if boot in ("IAA", "sock"):
                for boot2 in BOOT2_KINDS:
                    entries.append({"probe": probe, "boot": boot, "boot2": boot2})
            else:
                entries.append({"probe": probe, "boot": boot})
    k = 0
    for ent in entries:
        reaches = ent.get("boot") == "ok" or ent.get("boot2") == "ok"
        for run in RUN_KINDS if reaches else ("ret",):
            owned = ent["probe"] == "F" and reaches
            for _ in range(6 if owned else 1):
                name, q = shut[k % len(shut)]
                k += 1
                cases.append({"src": "enum", "scn": _scn("was"), "script": dict(ent, run=run, **copy.deepcopy(q)), "shut": name})
    for name, q in shut:
        for run in ("ret", "rallyerr", "KI"):
            cases.append({"src": "enum", "scn": _scn("was"), "script": dict({"probe": "F", "boot": "ok", "run": run}, **copy.deepcopy(q)), "shut": name})
    # race through dispatch_sub_command (and main): pre-step x way to the runnable x runnable outcome x a few shutdown scripts
    few = [s for s in shut if s[0] in ("complete0", "complete1", "timeout", "KI@sleep3+KI@shutdown", "KI@poll0+complete0", "shutexc", "KI@shutdown+timeout")]
    for main, kill in itertools.product((False, True), (False, True)):
        for pre in ("ok", "KI", "exc") if kill else ("none", "some"):
            if pre in ("KI", "some"):
                cases.append({"src": "enum", "scn": _scn("race", "race", kill, main), "script": {"pre": pre}})
                continue
            for ent in ({"probe": "F", "boot": "ok"}, {"probe": "T", "boot": "ok"}, {"probe": "F", "boot": "KI"}, {"probe": "T", "boot": "IAA", "boot2": "ok"}, {"probe": "F", "boot": "sock", "boot2": "ok"}, {"probe": "F", "boot": "exc"}, {"probe": "F", "boot": "sock", "boot2": "KI"}):
                reaches = ent.get("boot") == "ok" or ent.get("boot2") == "ok"
                for run in RUN_KINDS if reaches else ("ret",):
                    for name, q in (few[:: 3 if main else 1]) if (reaches and ent["probe"] == "F") else few[:1]:
                        cases.append({"src": "enum", "scn": _scn("race", "race", kill, main), "script": dict(ent, pre=pre, run=run, **copy.deepcopy(q)), "shut": name})
    # the other sub-commands: exhaustive
    for sub in list(TARGETS) + ["unknown"]:
        for main in (False, True):
            if sub == "unknown" and main:
                continue
            for kind in CALL_KINDS if sub != "unknown" else ("ret",):
                cases.append({"src": "enum", "scn": _scn("sub", sub, False, main), "script": {"call": kind}})
    return cases


def random_case(rnd):
    mode = rnd.choice(["was", "was", "was", "race", "race", "sub"])
    if mode == "sub":
        sub = rnd.choice(list(TARGETS) + ["unknown"])
        return {"src": "random", "scn": _scn("sub", sub, False, rnd.random() < 0.5 and sub != "unknown"), "script": {"call": rnd.choice(CALL_KINDS)}}
    scn = _scn("was") if mode == "was" else _scn("race", "race", rnd.random() < 0.5, rnd.random() < 0.5)
    w = lambda good, kinds: good if rnd.random() < 0.6 else rnd.choice(kinds)  # noqa: E731
    script = {"probe": rnd.choice(["T", "F", "F", "F"]) if rnd.random() < 0.97 else "KI", "boot": w("ok", BOOT_KINDS), "boot2": w("ok", BOOT2_KINDS), "run": rnd.choice(RUN_KINDS)}
    if mode == "race":
        script["pre"] = (w("ok", ("ok", "KI", "exc")) if scn["kill"] else w("none", ("none", "some")))
    p_ki = rnd.choice([0.0, 0.02, 0.1, 0.3])
    p_alive = rnd.choice([0.0, 0.5, 0.9, 0.97, 1.0])
    ki = lambda: "KI" if rnd.random() < p_ki else "ok"  # noqa: E731
    script["sleep3"] = [ki() for _ in range(3)]
    script["shutdown"] = [("exc" if rnd.random() < 0.03 else ki()) for _ in range(3)]
    script["sleep1"] = [ki() for _ in range(3 * TIMEOUT)]
    script["poll"] = [("KI" if rnd.random() < p_ki / 2 else "T" if rnd.random() < p_alive else "F") for _ in range(3 * (TIMEOUT + 1))]
    return {"src": "random", "scn": scn, "script": script}


# ===================================================================================================
# running and judging
# ===================================================================================================
def run_cases(cases, out, label, stats):
    items, index = [], {}
    for ci, case in enumerate(cases):
        try:
            item, info = execute(case)
        except _Divergence as ex:
            out.drift.append("%s-%d: %s; case %s" % (label, ci, ex, {k: case.get(k) for k in CASE_KEYS}))
            continue
        item["id"] = "%s-%d" % (label, ci)
        items.append(item)
        index[item["id"]] = (case, item)
        fin, evs = info["final"], item["events"]
        out.add_case({k: case.get(k) for k in CASE_KEYS}, nontrivial=len(evs) >= 2)
        stats["runs"] += 1
        stats["events"] += len(evs)
        stats["events_max"] = max(stats["events_max"], len(evs))
        for key, val in (("result", fin["result"]), ("status", fin["status"]), ("exit", fin["exit"])):
            stats[key][str(val)] = stats[key].get(str(val), 0) + 1
        stats["foreign"] += fin["ar"] == "T" and fin["nrun"] == 1
        stats["owned_shutdown"] += fin["ar"] == "F" and fin["nshut"] >= 1
        stats["interrupted_twice"] += fin["nint"] == 2
        stats["timeout_warned"] += bool(fin["wto"])
        stats["uishut_over_exception"] += fin["result"] == "UIshut" and fin["runres"] not in ("none", "ret")
        stats["fallback"] += bool(fin["fell"])
        if info["anomalies"]:
            out.drift.append("%s: %s" % (item["id"], info["anomalies"][:2]))
        if case.get("model_events") is not None and case["complete"]:
            stats["s2c_complete"] += 1
            mine = [[e["a"], e["r"], e["x"]] for e in evs]
            if mine == case["model_events"]:
                stats["s2c_followed"] += 1
            else:
                n = next((i for i, (a, b) in enumerate(zip(mine, case["model_events"])) if a != b), min(len(mine), len(case["model_events"])))
                out.drift.append(
                    "S2C %s: the real code leaves the TLC behaviour at event %d: model %s, code %s; scn %s"
                    % (item["id"], n + 1, case["model_events"][n : n + 1], mine[n : n + 1], case["scn"])
                )
    return items, index


def judge(out, stats, items, index, label):
    if not items:
        return
    verdicts = tracecheck.validate(SPEC, "TraceMainLifecycle", "TraceMainLifecycle.cfg", items, name="xmltrace", chunk=2500, timeout=280)
    out.states += verdicts.n_events
    out.transitions += verdicts.n_events
    bad = set(verdicts.l2) | {tid for tid, fails in verdicts.l1.items() if any(c not in PINNED for _, cl in fails for c in cl)}
    out.traces_validated += len(items) - len(bad)
    for tid, fails in sorted(verdicts.l1.items()):
        case, item = index[tid]
        clauses = sorted({c for _, cl in fails for c in cl})
        line = fails[0][0]
        replay = {k: case.get(k) for k in CASE_KEYS}
        size = len(item["events"])
        for c in clauses:
            if c in PINNED:
                rec = out.extra.setdefault("pinned_behaviour_observed", {}).setdefault(c, {"runs": 0, "switch": PINNED[c][0], "what": PINNED[c][1], "size": 10**9, "example": None})
                rec["runs"] += 1
                if size < rec["size"]:
                    rec["size"], rec["example"] = size, {"scn": case["scn"], "events": [[e["a"], e["r"]] for e in item["events"]]}
        new = [c for c in clauses if c not in PINNED]
        if new:
            stats["l1"][",".join(new)] = stats["l1"].get(",".join(new), 0) + 1
            if stats["l1"][",".join(new)] <= 10:
                ev = item["events"][line - 1] if 1 <= line <= size else {}
                out.violations.append(
                    Violation(
                        "+".join(new),
                        replay,
                        {"module": "MainLifecycle", "mode": case["scn"]["mode"], "clauses": new},
                        "run %s, event %d (%s %s): recorded state %s; events %s"
                        % (tid, line, ev.get("a"), ev.get("r"), {k: v for k, v in (ev.get("st") or {}).items() if v != OBS0.get(k)}, [[e["a"], e["r"]] for e in item["events"]][:40]),
                    )
                )
    if verdicts.l2:
        _explain_drift(out, [index[tid][1] for tid in sorted(verdicts.l2)], label)
    for tid, lines in sorted(verdicts.l2.items())[:15]:
        case, item = index[tid]
        ln = lines[0]
        what = {k: item["events"][ln - 1][k] for k in ("a", "r", "x")} if 1 <= ln <= len(item["events"]) else ("initial state" if ln == 0 else "end of run (the model has steps left)")
        out.drift.append(
            "run %s: event %d (%s) is not a step of MainLifecycle.tla (code as it is); scn %s, events %s"
            % (tid, ln, what, case["scn"], [[e["a"], e["r"]] for e in item["events"]][: ln + 1][-8:])
        )
    stats["l2_rejected"] += len(verdicts.l2)


def _explain_drift(out, items, label):
    v = tracecheck.validate(SPEC, "TraceMainLifecycle", "TraceMainLifecycle.repaired.cfg", copy.deepcopy(items[:300]), name="xmlvariant", timeout=280)
    if not v.l2:
        out.drift.append(
            "%s: the %d runs that are not steps of the model of the code as it is are all accepted with ShutdownAfterFallback = TRUE: "
            "this behaviour seems to have been repaired; switch the cfgs of specs/MainLifecycle over" % (label, len(items))
        )


def run(ctx, out):
    out.rule = (
        "case = scenario (with_actor_system alone / race through dispatch_sub_command / another sub-command; with or without main()) + "
        "script (outcome of every call the process makes: probe, bootstrap calls, runnable, sleep(3), shutdown(), polls, sleep(1), "
        "pre-step of race, sub-command function); distinct by hash of that input; non-trivial = at least 2 recorded events"
    )
    out.assumptions = [
        "the environment is the scripted fake of harness/extras/mainlifecycle.py: rally.actor, rally.time, rally.console, rally.process.*, "
        "racecontrol.run and the functions behind the sub-commands are replaced, thespian never starts; argparse namespaces come from the "
        "real create_arg_parser() (hand-made only for the unknown sub-command)",
        "KeyboardInterrupt strikes only inside a faked call (sleep, shutdown, poll, bootstrap, probe, runnable, kill), never between two "
        "statements or inside console / logging calls",
        "main(): check_python_version, log configuration, config.Config loading, net.init and shutil.rmtree are stubbed; sys.exit is observed as SystemExit",
        "logging output and the texts of console messages other than the three warnings / one info named in the spec are not modelled",
    ]
    q = ctx.quick
    # ---- leg M ----
    wd = tlc.prepare_workdir(SPEC, "xmlmc")
    for cfg in ["MainLifecycle.quick.cfg", "MainLifecycle.real.cfg", "MainLifecycle.repaired.cfg"] if q else ["MainLifecycle.thorough.cfg", "MainLifecycle.repaired.cfg"]:
        res = tlc.run_tlc(wd, "MC_MainLifecycle", cfg, workers=2 if q else 4, timeout=280 if q else 900)
        out.add_tlc(res)
        if not res.ok:
            raise tlc.MachineryError("model violates %s in %s: %s" % (res.invariant_violated, cfg, res.out[-1500:]))
        out.note("leg M %s: %d distinct states, depth %d, %.1fs" % (cfg, res.distinct, res.depth, res.wall_s))
    for cfg, clause in (("MainLifecycle.selftest.fallback.cfg", "ShutdownAttemptedIfCreated"), ("MainLifecycle.selftest.lastpoll.cfg", "TimeoutWarningTruthful")):
        res = tlc.run_tlc(wd, "MC_MainLifecycle", cfg, workers=1, timeout=120, allow_violation=True)
        if res.invariant_violated != clause:
            raise tlc.MachineryError("self-test failed: %s no longer violates %s" % (cfg, clause))
        out.extra.setdefault("model_selftests", []).append("%s violates %s in the model, as expected: %s" % (cfg, clause, PINNED[clause][1]))
    # ---- legs S2C / C2S ----
    stats = {"runs": 0, "events": 0, "events_max": 0, "result": {}, "status": {}, "exit": {}, "foreign": 0, "owned_shutdown": 0, "interrupted_twice": 0,
             "timeout_warned": 0, "uishut_over_exception": 0, "fallback": 0, "s2c_complete": 0, "s2c_followed": 0, "l1": {}, "l2_rejected": 0}  # fmt: skip
    sim = cases_from_tlc(ctx, out, "MainLifecycle.sim.cfg", 400 if q else 3000, ctx.seed + 1)
    sim += cases_from_tlc(ctx, out, "MainLifecycle.simwas.cfg", 300 if q else 3000, ctx.seed + 2)
    items, index = run_cases(sim, out, "sim", stats)
    if items:
        longest = max(items, key=lambda it: len(it["events"]))
        out.sample({"source": "tlc-simulate", "scn": longest["scn"], "recorded_events": [[e["a"], e["r"]] for e in longest["events"]]})
    enum = enumerated_cases()
    i2, x2 = run_cases(enum, out, "enum", stats)
    rnd = random.Random(ctx.seed + 77)
    rc = [random_case(rnd) for _ in range(400 if q else 6000)]
    i3, x3 = run_cases(rc, out, "rnd", stats)
    all_items = items + i2 + i3
    index.update(x2)
    index.update(x3)
    judge(out, stats, all_items, index, "all")
    out.extra["runs"] = stats
    out.note(
        "legs S2C/C2S: %d runs of the real functions (%d TLC behaviours, %d enumerated, %d random), %d events (longest run %d); S2C: %d/%d complete "
        "TLC behaviours reproduced event by event; results %s; status %s; exit codes %s; foreign system left alone in %d runs, own system shut "
        "down in %d, two interrupts in %d, time-out warnings %d, UserInterrupted replacing the runnable's exception %d, fall-backs %d; L2 rejected %d"
        % (stats["runs"], len(sim), len(enum), len(rc), stats["events"], stats["events_max"], stats["s2c_followed"], stats["s2c_complete"],
           dict(sorted(stats["result"].items())), dict(sorted(stats["status"].items())), dict(sorted(stats["exit"].items())), stats["foreign"], stats["owned_shutdown"],
           stats["interrupted_twice"], stats["timeout_warned"], stats["uishut_over_exception"], stats["fallback"], stats["l2_rejected"])
    )  # fmt: skip
    for key in ("foreign", "owned_shutdown", "interrupted_twice", "timeout_warned", "uishut_over_exception", "fallback", "s2c_followed"):
        if not stats.get(key):
            out.vacuous.append("no executed run exercised: " + key)
    for code in ("0", "64", "130"):
        if not stats["exit"].get(code):
            out.vacuous.append("no run of main() ended with exit code " + code)
    for c, rec in sorted(out.extra.get("pinned_behaviour_observed", {}).items()):
        rec.pop("size", None)
        out.note("pinned behaviour of /repo (strong clause %s fails in %d runs; model switch %s = FALSE): %s; smallest example %s" % (c, rec["runs"], rec["switch"], rec["what"], str(rec["example"])[:500]))
    if out.vacuous:
        out.note("VACUOUS (kinds of runs this seed did not produce): %s" % out.vacuous)
    if out.drift:
        out.drift.sort(key=lambda d: 0 if "seems to have been repaired" in d else 1)
        out.note("MODEL-DRIFT in %d places, first: %s" % (len(out.drift), out.drift[0][:700]))
    for v in out.violations[:5]:
        out.note("L1 FAILED %s: %s" % (v.clause, v.detail[:700]))
