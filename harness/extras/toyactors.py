"""Toy actors used by the actorsem extra (module-level so that real Thespian child processes can import them)."""
import datetime
import time

import thespian.actors as ta


class Recv(ta.ActorTypeDispatcher):
    def __init__(self):
        super().__init__()
        self.log = []
        self.reply_to = None
        self.t0 = None
        self.child = None
        self.child_exited = False

    def receiveMsg_dict(self, msg, sender):
        cmd = msg.get("cmd")
        if cmd == "dump":
            self.send(sender, {"log": self.log, "child_exited": self.child_exited})
        elif cmd == "raise":
            self.log.append(("attempt", msg["n"]))
            raise ValueError("verif: handler failure")
        elif cmd == "wake":
            self.t0 = time.perf_counter()
            self.reply_to = sender
            self.wakeupAfter(datetime.timedelta(seconds=msg["d"]), payload="p")
        elif cmd == "spawn":
            self.child = self.createActor(Child)
            self.send(sender, {"child": self.child})
        else:
            self.log.append((msg["src"], msg["n"]))

    def receiveMsg_WakeupMessage(self, msg, sender):
        self.send(self.reply_to, {"woke_after": time.perf_counter() - self.t0, "payload": msg.payload, "sender_is_self": sender == self.myAddress})

    def receiveMsg_ChildActorExited(self, msg, sender):
        self.child_exited = msg.childAddress == self.child


class Child(ta.ActorTypeDispatcher):
    def receiveMsg_dict(self, msg, sender):
        if msg.get("cmd") == "ping":
            self.send(sender, {"pong": True})


class Send(ta.ActorTypeDispatcher):
    def __init__(self):
        super().__init__()
        self.asker = None

    def receiveMsg_dict(self, msg, sender):
        cmd = msg.get("cmd")
        if cmd == "go":
            for i in range(msg["count"]):
                self.send(msg["target"], {"src": msg["name"], "n": i + 1})
            self.send(sender, {"done": msg["name"]})
        elif cmd == "provoke":
            self.asker = sender
            self.send(msg["target"], {"cmd": "raise", "n": 7})

    def receiveMsg_PoisonMessage(self, msg, sender):
        self.send(self.asker, {"poison_for": msg.poisonMessage})
