"""Extra module Launcher: what happens INSIDE the launcher step that property C12 treats as opaque (esrally/mechanic/launcher.py) and
in the wait for the REST layer (esrally/client/factory.py).  Specified in specs/Launcher: Launcher.tla = ProcessLauncher.start/stop
as the sequence of system calls against a small operating system (process absent/starting/running/terminating/killed/gone, pid file
absent/empty/own/stale/garbage, pid reuse, signals that take effect late); RestLayer.tla = retry loop of wait_for_rest_layer per
error class; DockerLaunch.tla = compose up / ps / health polling / compose down.  Invariants (TLC + L1 on every recorded run of the
REAL code): StartConsistent (start returns only pids written by the daemon it spawned), SignalDiscipline + KillAfterGrace (<= 1
SIGTERM/SIGKILL per node, SIGKILL only after SIGTERM + 10 s), NoSurvivor + FailureReported (nodes reported stopped are gone, the
others are in the log), StopCoversAll, TelemetryOrder + TelemetryComplete, AtMostMax / SleepBetween / TrueOnFirstSuccess /
WrongScheme / RetriesUsedUp / FatalRaised (REST), StartHealthy / PollBound / DownEveryNode / DownChecked (docker).  /repo does not
meet six strong forms in corner cases: each is pinned behind a model switch (RemoveStalePid, WaitAfterKill, ContinuePastFailure,
DetachGone, ExactAttempts, CheckDown; FALSE = /repo) with a self-test cfg and shown as a note; the weaker form /repo does meet is L1.

Leg M   : TLC on Launcher.{quick,hostile,repaired}.cfg (+ thorough, repaired_reuse), 6 self-tests; RestLayer.{quick,exact}.cfg + self-test;
          DockerLaunch.{quick,repaired}.cfg + 2 self-tests.
Leg S2C : TLC -simulate behaviours -> scenario + environment schedule (when the daemon writes its pid file, dies, ignores SIGTERM,
          a pid gets reused, a container turns healthy ...) -> REAL ProcessLauncher / DockerLauncher with fakes for os.geteuid (the
          sandbox is root), subprocess.Popen, open() of the pid file (a real file in a scratch install dir), time.sleep/perf_counter
          (virtual clock), psutil (launcher + sysstats), esrally.utils.process, a recording telemetry device next to the real ones;
          REST: every terminal state of RestLayer.quick.cfg = one case for the REAL wait_for_rest_layer with a scripted client.
Leg C2S : every recorded run (S2C + seeded random scenarios, some with the real time-outs 60 s / 10 s / 40 attempts / 600 s) validated
          by TLC against TraceLauncher.tla / TraceRestLayer.tla / TraceDockerLaunch.tla (L1 + L2); runs that are not steps of the model
          of the code as it is are re-validated with one switch flipped, to tell a repaired tree from a broken one.
"""
import builtins
import collections
import copy
import glob
import logging
import os
import random
import re

from .. import tlc, tracecheck
from ..core import Violation
from ..tlaparse import parse_state, parse_value, to_json
from ..vclock import VirtualClock

SPEC = "Launcher"
ENV_NAMES = ("create", "write", "crash", "exit", "qexit", "rexit", "reuse")
ALIVE = ("starting", "running", "terminating", "killed")
DEFAULT_PT = 120  # wait_for_pidfile: 60 s / sleep(0.5)
DEFAULT_GR = 20  # es.wait(10) in ticks of 0.5 s
OWN_PID0 = 41000
STALE_PID0 = 52000

MAX_VIOLATIONS_PER_KIND = 20  # Violation objects kept per set of clauses (all are counted in the statistics)
CASE_KEYS = ("scn", "pid0", "q0", "sched", "spawn", "seed", "p_env", "p_rc", "w_create", "w_exit", "w_crash", "w_reuse")
# strong L1 clauses which the code as it is does not meet in corner cases: clause -> (model switch that repairs it, what happens)
PINNED = {
    "StartConsistent": ("RemoveStalePid", "a pid file left behind by an earlier (killed) node is read at once: start() returns the pid of another process"),
    "NoSurvivor": ("WaitAfterKill / RemoveStalePid", "a node is reported as stopped although its process is still alive (no wait after SIGKILL, or the wrong pid was signalled)"),
    "StopCoversAll": ("ContinuePastFailure", "an exception of a telemetry device / AccessDenied of terminate() aborts stop(): the remaining nodes are never signalled"),
    "TelemetryComplete": ("DetachGone", "telemetry is never detached from a node whose process has already gone when stop() looks it up"),
    "AtMostMax": ("ExactAttempts", "wait_for_rest_layer(max_attempts=k) makes k + 1 attempts"),
    "DownChecked": ("CheckDown", "the exit code of `docker-compose down` is dropped: a container that could not be removed goes unnoticed"),
}


def _report_l1(out, stats, tid, fails, replay, signature, detail):
    """One recorded run with failing L1 clauses.  Clauses in PINNED are the strong forms which the code as it is is known not to meet
    in corner cases (the forms it does meet are L1 clauses of their own): counted and shown as notes with one replayable example each,
    they describe /repo as it is.  Every other failing clause is a violation."""
    clauses = sorted({c for _, cl in fails for c in cl})
    fresh = [c for c in clauses if c not in PINNED]
    for c in clauses:
        stats["l1"][c] = stats["l1"].get(c, 0) + 1
    if fresh:
        key = ",".join(fresh)
        stats["l1_new"][key] = stats["l1_new"].get(key, 0) + 1
        if stats["l1_new"][key] <= MAX_VIOLATIONS_PER_KIND:
            out.violations.append(Violation(key, replay, signature=dict(signature, clauses=clauses), detail="%s, first failing event %d" % (detail, fails[0][0])))
        return
    for c in clauses:
        rec = out.extra.setdefault("pinned_behaviour_observed", {}).setdefault(c, {"switch": PINNED[c][0], "what": PINNED[c][1], "runs": 0, "example": None, "size": None})
        rec["runs"] += 1
        size = len(str(replay))
        if rec["example"] is None or size < rec["size"]:
            rec["example"] = {"run": tid, "event": min(ln for ln, cl in fails if c in cl), "case": replay}
            rec["size"] = size


def _explain_drift(out, module, cfg, items, variants, label):
    """Recorded runs that are not behaviours of the model of the code as it is: do they all fit a variant with one switch flipped
    (i.e. has the pinned behaviour been repaired in the tree under test)?"""
    if not items:
        return
    with open(os.path.join(tlc.SPECS, SPEC, cfg), encoding="utf-8") as f:
        base = f.read()
    for switch in variants:
        txt = base.replace("%s = FALSE" % switch, "%s = TRUE" % switch)
        if txt == base:
            continue
        v = tracecheck.validate(SPEC, module, cfg, copy.deepcopy(items[:200]), name="xlvariant", cfg_text=txt, timeout=300)
        if not v.l2:
            out.drift.append("%s: the %d runs that are not steps of the model of the code as it is are all accepted with %s = TRUE: this behaviour seems to have been repaired; switch the cfgs of specs/Launcher over" % (label, len(items), switch))
            return


_PREFETCHED = {}


def _job_table(ctx):
    """Every TLC run of the extra that does not depend on an execution of the real code: (module, cfg) -> keyword arguments.
    run() starts them four at a time; the parts fetch the results with _tlc() in a fixed order."""
    q = ctx.quick
    t = {}

    def mc(module, cfg, timeout, workers):
        t[(module, cfg)] = {"timeout": timeout, "allow_violation": True, "workers": workers}

    for c in ("Launcher.quick.cfg", "Launcher.hostile.cfg", "Launcher.repaired.cfg"):
        mc("MC_Launcher", c, 200, 2)
    if not q:
        mc("MC_Launcher", "Launcher.thorough.cfg", 1200, 6)
        mc("MC_Launcher", "Launcher.repaired_reuse.cfg", 400, 2)
        mc("MC_RestLayer", "RestLayer.thorough.cfg", 300, 2)
    for c in ("stale", "kill", "abort", "detach", "reuse", "leak"):
        mc("MC_Launcher", "Launcher.selftest.%s.cfg" % c, 200, 1)
    mc("MC_RestLayer", "RestLayer.exact.cfg", 200, 1)
    mc("MC_RestLayer", "RestLayer.selftest.cfg", 200, 1)
    t[("MC_RestLayer", "RestLayer.quick.cfg")] = {"timeout": 200, "allow_violation": True, "workers": 1, "dump": True}
    mc("MC_DockerLaunch", "DockerLaunch.quick.cfg" if q else "DockerLaunch.thorough.cfg", 300, 1)
    for c in ("repaired", "selftest.down", "selftest.leak"):
        mc("MC_DockerLaunch", "DockerLaunch.%s.cfg" % c, 200, 1)
    for c in ("Launcher.sim.cfg", "Launcher.simok.cfg"):
        t[("MC_Launcher", c)] = {"timeout": 300, "workers": 1, "sim": (250 if q else 3000, 80), "seed": ctx.seed + 5}
    for c in ("DockerLaunch.sim.cfg", "DockerLaunch.simok.cfg"):
        t[("MC_DockerLaunch", c)] = {"timeout": 300, "workers": 1, "sim": (100 if q else 1500, 70), "seed": ctx.seed + 9}
    return t


def _run_job(module, cfg, kw):
    kw = dict(kw)
    wd = tlc.prepare_workdir(SPEC, "xl")
    sim = kw.pop("sim", None)
    if sim:
        simdir = os.path.join(wd, "sim")
        os.makedirs(simdir)
        kw["simulate"] = {"num": sim[0], "file": os.path.join(simdir, "b")}
        kw["depth"] = sim[1]
    if kw.pop("dump", False):
        kw["dump"] = os.path.join(wd, "states")
    res = tlc.run_tlc(wd, module, cfg, **kw)
    res.wd = wd
    return res


def _prefetch(ctx, par=4):
    from concurrent.futures import ThreadPoolExecutor

    tlc.scratch_root()
    jobs = sorted(_job_table(ctx).items())

    def one(job):
        (module, cfg), kw = job
        try:
            return _run_job(module, cfg, kw)
        except Exception as ex:  # pylint: disable=broad-except
            return ex

    with ThreadPoolExecutor(par) as ex:
        for (key, _kw), res in zip(jobs, ex.map(one, jobs)):
            _PREFETCHED[key] = res


def _tlc(ctx, module, cfg):
    """result of the TLC run (module, cfg) of the job table: prefetched by run(), otherwise run now"""
    res = _PREFETCHED.pop((module, cfg), None)
    if res is None:
        res = _run_job(module, cfg, _job_table(ctx)[(module, cfg)])
    if isinstance(res, Exception):
        raise res
    return res


def _validate_pending(pending, par=3):
    """pending: [(validate, judge)]: the TLC trace validations run three at a time, the verdicts are judged in the given order"""
    from concurrent.futures import ThreadPoolExecutor

    def one(vj):
        try:
            return vj[0]()
        except Exception as ex:  # pylint: disable=broad-except
            return ex

    with ThreadPoolExecutor(par) as ex:
        results = list(ex.map(one, pending))
    for (_v, judge), res in zip(pending, results):
        if isinstance(res, Exception):
            raise res
        judge(res)


def _snap(st):
    """copy of a flat state record (scalars and lists of scalars)"""
    return {k: (list(v) if isinstance(v, list) else v) for k, v in st.items()}


_RE_SIM_STATE = re.compile(r"^STATE_\d+ ==\s*$", re.M)
_RE_SIM_ACT = re.compile(r"^/\\ act = (.*)$", re.M)
_RE_SIM_PC = re.compile(r'^  pc \|-> "(\w+)"', re.M)


def _light_behaviour(path):
    """A behaviour written by `tlc -simulate file=`: the first state in full, of the others only `act` and `s.pc`
    (the state records are big and the harness recomputes everything else by running the real code)."""
    with open(path, "r", encoding="utf-8") as f:
        text = f.read()
    cuts = [m.start() for m in _RE_SIM_STATE.finditer(text)] + [len(text)]
    if len(cuts) < 2:
        return None, []
    bodies = [text[cuts[i] : cuts[i + 1]] for i in range(len(cuts) - 1)]
    first_body = "\n".join(ln for ln in bodies[0].split("\n", 1)[1].splitlines() if not ln.startswith("\\*") and not ln.startswith("===="))
    first = parse_state(first_body)
    steps = []
    for b in bodies[1:]:
        ma, mp = _RE_SIM_ACT.search(b), _RE_SIM_PC.search(b)
        if not ma or not mp:
            raise tlc.MachineryError("cannot read a state of %s" % path)
        steps.append((to_json(parse_value(ma.group(1))), mp.group(1)))
    return first, steps


def _quiet_root_logger():
    root = logging.getLogger()
    if not root.handlers:
        root.addHandler(logging.NullHandler())


# ===================================================================================================
# ProcessLauncher against a fake operating system
# ===================================================================================================
class _Divergence(Exception):
    """The real code did something the harness has no vocabulary for."""


class LWorld:
    """Fake operating system + instrumentation. State vocabulary = state record of Launcher.tla (observable part)."""

    def __init__(self, case):
        scn = case["scn"]
        n = scn["n"]
        self.scn = scn
        self.n = n
        self.case = case
        self.sched = case.get("sched")  # {launcher step index: [[a, n, r], ...]} or None
        self.spawn_rc = case.get("spawn", {})  # {node: "ok"|"rc"}
        self.rnd = random.Random(case["seed"]) if case.get("seed") is not None else None
        self.p_env = case.get("p_env", 0.4)
        self.p_rc = case.get("p_rc", 0.08)
        self.st = {
            "proc": ["absent"] * n,
            "pidf": list(case["pid0"]),
            "qproc": list(case["q0"]),
            "rproc": ["none"] * n,
            "npid": ["none"] * n,
            "hnd": "none",
            "sw": 0,
            "fsig": 0,
            "sres": "none",
            "pres": "none",
            "ret": [],
        }
        for f in ("pre", "att", "detR", "detS", "sysm", "term", "kill"):
            self.st[f] = [0] * n
        for f in ("looked", "found", "nsp", "warn"):
            self.st[f] = [False] * n
        self.init = _snap(self.st)
        self.events = []
        self.k = 0  # launcher steps so far
        self.cur = 1
        self.skipped = 0  # scheduled environment events that were not enabled (the run left the TLC behaviour)
        self.anomalies = []
        self.clock = None
        self.mark = 0.0
        self.unit = 0.5
        self.wait_tick = 10.0 / scn["gr"]
        self.dirs = {}

    # ---- pids
    def own_pid(self, i):
        return OWN_PID0 + i

    def stale_pid(self, i):
        return STALE_PID0 + i

    def pid_class(self, pid):
        if isinstance(pid, int) and OWN_PID0 < pid <= OWN_PID0 + self.n:
            return pid - OWN_PID0, "own"
        if isinstance(pid, int) and STALE_PID0 < pid <= STALE_PID0 + self.n:
            return pid - STALE_PID0, "stale"
        return None, "unknown"

    def holder(self, i, cls):
        s = self.st
        if cls == "own":
            if s["proc"][i - 1] in ALIVE:
                return "es"
            return "r" if s["rproc"][i - 1] != "none" else "none"
        if cls == "stale":
            return "q" if s["qproc"][i - 1] != "none" else "none"
        return "none"

    def denied(self, i, h):
        return (h == "q" and self.st["qproc"][i - 1] == "denied") or (h == "r" and self.st["rproc"][i - 1] == "denied")

    def halive(self, i, h):
        s = self.st
        if h == "es":
            return s["proc"][i - 1] in ALIVE
        if h == "q":
            return s["qproc"][i - 1] != "none"
        if h == "r":
            return s["rproc"][i - 1] != "none"
        return False

    # ---- recording
    def sw(self):
        return int((self.clock.now - self.mark) / self.unit + 1e-6)

    def emit(self, a, n, r):
        self.st["sw"] = self.sw()
        self.events.append({"a": a, "n": n, "r": r, "st": _snap(self.st)})
        if len(self.events) > 1200:
            raise _Divergence("run does not end")

    def warned(self, node):
        """the launcher logged 'No process found ...' for the node: belongs to the launcher event that was recorded last"""
        self.st["warn"][node - 1] = True
        if self.events:
            self.events[-1]["st"]["warn"][node - 1] = True

    # ---- environment
    def enabled_env(self):
        s = self.st
        res = []
        for i in range(1, self.n + 1):
            p, f, q, r = s["proc"][i - 1], s["pidf"][i - 1], s["qproc"][i - 1], s["rproc"][i - 1]
            if p == "starting" and f not in ("empty", "own"):
                res.append(("create", i, "ok"))
            if p == "starting" and f == "empty":
                res.append(("write", i, "ok"))
            if p in ("starting", "running"):
                res.append(("crash", i, "ok"))
            if p in ("terminating", "killed"):
                res.append(("exit", i, "ok"))
            if q in ("terminating", "killed"):
                res.append(("qexit", i, "ok"))
            if r in ("terminating", "killed"):
                res.append(("rexit", i, "ok"))
            if p == "gone" and r == "none" and self.read_pid.get(i) == "own" and not s["looked"][i - 1]:
                res.append(("reuse", i, "alive"))
                res.append(("reuse", i, "denied"))
        return res

    def apply_env(self, a, i, r):
        s = self.st
        if a == "create":
            s["pidf"][i - 1] = "empty"
        elif a == "write":
            s["pidf"][i - 1] = "own"
            s["proc"][i - 1] = "running"
        elif a == "crash":
            s["proc"][i - 1] = "gone"
        elif a == "exit":
            if s["proc"][i - 1] == "terminating" and s["pidf"][i - 1] == "own":
                s["pidf"][i - 1] = "absent"
            s["proc"][i - 1] = "gone"
        elif a == "qexit":
            s["qproc"][i - 1] = "none"
        elif a == "rexit":
            s["rproc"][i - 1] = "none"
        elif a == "reuse":
            s["rproc"][i - 1] = r
        self.emit(a, i, r)

    _WEIGHT = {"create": 5, "write": 6, "crash": 0.1, "exit": 3, "qexit": 2, "rexit": 2, "reuse": 0.5}

    def env_point(self):
        """called once before every launcher event: the environment moves"""
        if self.sched is not None:
            for a, i, r in self.sched.get(str(self.k), []):
                if (a, i, r) in self.enabled_env():
                    self.apply_env(a, i, r)
                else:
                    self.skipped += 1
        elif self.rnd is not None:
            # every enabled environment event competes with "nothing happens now" (weight falls with p_env)
            idle = 6.0 * (1.0 - self.p_env)
            for _ in range(4):
                en = self.enabled_env()
                if not en:
                    break
                ws = [self._WEIGHT[e[0]] * self.case.get("w_" + e[0], 1.0) for e in en] + [idle]
                pick = self.rnd.choices(en + [None], weights=ws)[0]
                if pick is None:
                    break
                self.apply_env(*pick)
        self.k += 1

    def signal(self, i, h, to):
        s = self.st

        def nxt(x):
            if to == "killed":
                return "killed"
            return "terminating" if x in ("starting", "running", "alive") else x

        if h == "es":
            s["proc"][i - 1] = nxt(s["proc"][i - 1])
        elif h == "q":
            s["qproc"][i - 1] = nxt(s["qproc"][i - 1])
            s["fsig"] += 1
        elif h == "r":
            s["rproc"][i - 1] = nxt(s["rproc"][i - 1])
            s["fsig"] += 1

    # ---- pid file as a real file
    def materialise_pidfile(self, i):
        path = os.path.join(self.dirs[i], "pid")
        f = self.st["pidf"][i - 1]
        if f == "absent":
            if os.path.exists(path):
                os.remove(path)
            return
        content = {"empty": b"", "own": str(self.own_pid(i)).encode(), "stale": str(self.stale_pid(i)).encode(), "garbage": b"4x1\n"}[f]
        with builtins.open(path, "wb") as fh:
            fh.write(content)

    read_pid = None
    pending_remove = None


def _node_index(name):
    return int(str(name).rsplit("-", 1)[1])


def execute_proc(case):
    """Runs the REAL ProcessLauncher.start (and stop, if start returned) in the fake world described by the case.
    case: {"scn": {n, root, devfail, pt, gr}, "pid0": [...], "q0": [...], and either "sched"/"spawn" (from a TLC behaviour) or "seed"}"""
    import psutil as real_psutil

    from esrally import config, exceptions, telemetry
    from esrally.mechanic import launcher, provisioner
    from esrally.utils import sysstats

    _quiet_root_logger()
    w = LWorld(case)
    w.read_pid = {}
    scn = case["scn"]
    n = scn["n"]
    root = os.path.join(tlc.scratch("xlauncher"), "w")
    cfgs = []
    for i in range(1, n + 1):
        node_root = os.path.join(root, "node%d" % i)
        binary = os.path.join(node_root, "install", "elasticsearch-9.9.9")
        data = os.path.join(binary, "data")
        os.makedirs(data, exist_ok=True)
        os.makedirs(os.path.join(binary, "bin"), exist_ok=True)
        if os.path.exists(os.path.join(binary, "pid")):
            os.remove(os.path.join(binary, "pid"))
        w.dirs[i] = binary
        cfgs.append(provisioner.NodeConfiguration("tar", "17", True, "127.0.0.1", "rally-node-%d" % i, node_root, binary, [data]))
    dir_to_node = {os.path.realpath(d): i for i, d in w.dirs.items()}

    def cwd_node():
        i = dir_to_node.get(os.path.realpath(os.getcwd()))
        if i is None:
            raise _Divergence("working directory %s is not a node's installation" % os.getcwd())
        return i

    # ---- virtual time
    class HookClock(VirtualClock):
        def sleep(self_, secs):
            w.env_point()
            if abs(secs - 0.5) > 1e-9:
                w.anomalies.append("sleep(%r)" % (secs,))
            super().sleep(secs)
            w.emit("sleep", w.cur, "ok")

    clock = HookClock()
    w.clock = clock

    # ---- os / subprocess / open as seen by esrally.mechanic.launcher
    class OsShim:
        def __getattr__(self_, k):
            return getattr(os, k)

        @staticmethod
        def geteuid():
            return 0 if scn["root"] else 1000

        @staticmethod
        def remove(path, *a, **kw):
            # not done by the code as it is; a repaired launcher that clears the pid file before spawning the daemon is understood
            if os.path.basename(str(path)) == "pid":
                i = cwd_node()
                if w.st["pidf"][i - 1] == "absent":
                    raise FileNotFoundError(path)
                w.pending_remove = i  # takes effect with the next launcher event (the model removes the file when it spawns the daemon)
                return None
            return os.remove(path, *a, **kw)

        unlink = remove

    class FakePopen:
        def __init__(self_, args, stdout=None, stderr=None, env=None, start_new_session=False, **kw):
            i = cwd_node()
            w.cur = i
            w.env_point()
            if list(args) != ["./bin/elasticsearch", "-d", "-p", "./pid"] or not start_new_session or kw:
                w.anomalies.append("Popen(%r, start_new_session=%r, %r)" % (args, start_new_session, sorted(kw)))
            if "ES_JAVA_OPTS" not in (env or {}):
                w.anomalies.append("no ES_JAVA_OPTS in the daemon's environment")
            if w.st["proc"][i - 1] != "absent":
                w.anomalies.append("daemon of node %d spawned twice" % i)
            if w.pending_remove == i:
                w.st["pidf"][i - 1] = "absent"
            w.pending_remove = None
            if w.sched is not None:
                r = w.spawn_rc.get(str(i), "ok")
            else:
                r = "rc" if w.rnd.random() < w.p_rc else "ok"
            if r == "ok":
                w.st["proc"][i - 1] = "starting"
                w.mark = clock.now
                w.unit = 0.5
            self_.returncode = None
            self_._rc = 0 if r == "ok" else 78
            w.emit("spawn", i, r)

        def __enter__(self_):
            return self_

        def __exit__(self_, *a):
            return False

        def wait(self_, timeout=None):
            self_.returncode = self_._rc
            return self_._rc

    class SubprocessShim:
        Popen = FakePopen
        DEVNULL = -3
        PIPE = -1
        STDOUT = -2

    def fake_open(path, mode="r", *a, **kw):
        if os.path.basename(str(path)) == "pid":
            i = cwd_node()
            w.cur = i
            w.env_point()
            if str(path) != "./pid" or mode != "rb":
                w.anomalies.append("open(%r, %r)" % (path, mode))
            r = w.st["pidf"][i - 1]
            w.materialise_pidfile(i)
            if r in ("own", "stale"):
                w.read_pid[i] = r
            w.emit("poll", i, r)
        return builtins.open(path, mode, *a, **kw)

    # ---- psutil as seen by the launcher and by sysstats (telemetry devices)
    class LProcess:
        def __init__(self_, pid=None):
            i, cls = w.pid_class(pid)
            if i is None:
                raise _Divergence("stop() looks up pid %r which no pid file ever contained" % (pid,))
            w.cur = i
            w.env_point()
            self_.pid = pid
            self_.i = i
            h = w.holder(i, cls) if cls == w.st["npid"][i - 1] else "none"
            w.st["looked"][i - 1] = True
            self_.h = h
            w.st["hnd"] = h
            if h == "none":
                w.st["nsp"][i - 1] = True
                w.emit("lookup", i, "gone")
                raise real_psutil.NoSuchProcess(pid)
            w.st["found"][i - 1] = True
            w.emit("lookup", i, "ok")

        def _gone(self_, a):
            w.st["nsp"][self_.i - 1] = True
            w.emit(a, self_.i, "gone")
            raise real_psutil.NoSuchProcess(self_.pid)

        def terminate(self_):
            i = self_.i
            w.cur = i
            w.env_point()
            if not w.halive(i, self_.h):
                self_._gone("term")
            if w.denied(i, self_.h):
                w.emit("term", i, "denied")
                raise real_psutil.AccessDenied(self_.pid)
            w.signal(i, self_.h, "terminating")
            w.st["term"][i - 1] += 1
            w.mark = clock.now
            w.unit = w.wait_tick
            w.emit("term", i, "ok")

        def wait(self_, timeout=None):
            i = self_.i
            w.cur = i
            t0 = clock.now
            while True:
                w.env_point()
                if not w.halive(i, self_.h):
                    w.emit("waitret", i, "ok")
                    return None
                if timeout is not None and clock.now - t0 >= timeout - 1e-9:
                    w.emit("waitret", i, "timeout")
                    raise real_psutil.TimeoutExpired(timeout, self_.pid)
                clock.now += w.wait_tick
                w.emit("wtick", i, "ok")

        def kill(self_):
            i = self_.i
            w.cur = i
            w.env_point()
            if not w.halive(i, self_.h):
                self_._gone("kill")
            if w.denied(i, self_.h):
                w.emit("kill", i, "denied")
                raise real_psutil.AccessDenied(self_.pid)
            w.signal(i, self_.h, "killed")
            w.st["kill"][i - 1] += 1
            w.emit("kill", i, "ok")

    IoCounters = collections.namedtuple("IoCounters", "read_bytes write_bytes")

    class StatProcess:
        """psutil.Process as used by the telemetry devices (DiskIo): no event of its own, it is part of attach / detach"""

        def __init__(self_, pid=None):
            i, cls = w.pid_class(pid)
            self_.pid = pid
            self_.i = i
            self_.h = w.holder(i, cls) if i is not None else "none"
            if self_.h == "none":
                raise real_psutil.NoSuchProcess(pid)

        def io_counters(self_):
            if w.denied(self_.i, self_.h):
                raise real_psutil.AccessDenied(self_.pid)
            return IoCounters(1000, 2000)

    def shim(process_class):
        class PsutilShim:
            Process = process_class

            def __getattr__(self_, k):
                return getattr(real_psutil, k)

        return PsutilShim()

    # ---- telemetry: the real Telemetry with the real devices of _start_node plus one recording internal device
    class RecDevice(telemetry.InternalTelemetryDevice):
        def on_pre_node_start(self_, node_name):
            i = _node_index(node_name)
            w.cur = i
            w.env_point()
            w.st["pre"][i - 1] += 1
            w.emit("pre", i, "ok")

        def detach_from_node(self_, node, running):
            i = _node_index(node.node_name)
            w.cur = i
            w.env_point()
            if running:
                w.st["detR"][i - 1] += 1
                fail = scn["devfail"] == i
                w.emit("detR", i, "fail" if fail else "ok")
                if fail:
                    raise RuntimeError("verif: telemetry device fails")
            else:
                w.st["detS"][i - 1] += 1
                w.emit("detS", i, "ok")

        def store_system_metrics(self_, node, metrics_store):
            i = _node_index(node.node_name)
            w.cur = i
            w.env_point()
            w.st["sysm"][i - 1] += 1
            w.emit("sysm", i, "ok")

    real_telemetry_cls = telemetry.Telemetry

    class RecTelemetry(real_telemetry_cls):
        def __init__(self_, enabled_devices=None, devices=None, **kw):
            super().__init__(enabled_devices, devices=list(devices or []) + [RecDevice()], **kw)

        def attach_to_node(self_, node):
            i = _node_index(node.node_name)
            w.cur = i
            w.env_point()
            _j, cls = w.pid_class(node.pid)
            if _j != i:
                cls = "unknown"
            w.st["npid"][i - 1] = cls
            try:
                super().attach_to_node(node)
            except real_psutil.NoSuchProcess:
                w.emit("attach", i, "NoSuchProcess")
                raise
            except real_psutil.AccessDenied:
                w.emit("attach", i, "AccessDenied")
                raise
            w.st["att"][i - 1] += 1
            w.emit("attach", i, "ok")

    class Store:
        def __init__(self_):
            self_.meta = []
            self_.values = []

        def add_meta_info(self_, *a):
            self_.meta.append(a)

        def put_value_node_level(self_, *a, **kw):
            self_.values.append(a)

    class WarnHandler(logging.Handler):
        def emit(self_, record):
            # "No process found with PID [%s] for node [%s]." (or whatever else a launcher reports about a node it could not stop)
            if record.levelno >= logging.WARNING and w.st["sres"] == "ok":
                names = [a for a in (record.args or ()) if isinstance(a, str) and a.startswith("rally-node-")]
                if names:
                    w.warned(_node_index(names[0]))
                else:
                    w.anomalies.append("warning without node: %r %r" % (record.msg, record.args))

    cfg = config.Config()
    S = config.Scope.application
    cfg.add(S, "mechanic", "runtime.jdk", "bundled")
    cfg.add(S, "telemetry", "devices", [])
    cfg.add(S, "telemetry", "params", {})

    patches = []

    missing = object()

    def patch(obj, name, val):
        patches.append((obj, name, vars(obj).get(name, missing)))
        setattr(obj, name, val)

    real_wait_for_pidfile = launcher.wait_for_pidfile
    lg = logging.getLogger("esrally.mechanic.launcher")
    old = (lg.level, lg.propagate, logging.root.manager.disable)
    handler = WarnHandler()
    cwd = os.getcwd()
    result = {"start_exc": None, "stop_exc": None}
    try:
        logging.disable(logging.NOTSET)
        lg.setLevel(logging.WARNING)
        lg.propagate = False
        lg.addHandler(handler)
        patch(launcher, "os", OsShim())
        patch(launcher, "subprocess", SubprocessShim)
        patch(launcher, "open", fake_open)
        patch(launcher, "psutil", shim(LProcess))
        patch(sysstats, "psutil", shim(StatProcess))
        patch(sysstats, "cpu_model", lambda: "verif-cpu")
        patch(telemetry, "Telemetry", RecTelemetry)
        if scn["pt"] != DEFAULT_PT:
            patch(launcher, "wait_for_pidfile", lambda p, **kw: real_wait_for_pidfile(p, timeout=scn["pt"] * 0.5, **kw))
        with clock:
            pl = launcher.ProcessLauncher(cfg)
            nodes = None
            try:
                nodes = pl.start(cfgs)
                tag = "ok"
            except exceptions.LaunchError as ex:
                msg = str(ex.message if hasattr(ex, "message") else ex)
                tag = "root" if "as root" in msg else "rc" if "exit code" in msg else "pidtimeout" if "pid file not available" in msg else "LaunchError"
            except ValueError:
                tag = "ValueError"
            except real_psutil.NoSuchProcess:
                tag = "NoSuchProcess"
            except real_psutil.AccessDenied:
                tag = "AccessDenied"
            except _Divergence:
                raise
            except Exception as ex:  # pylint: disable=broad-except
                tag = type(ex).__name__
                result["start_exc"] = repr(ex)
            w.env_point()
            w.st["sres"] = tag
            if nodes is not None:
                if [_node_index(nd.node_name) for nd in nodes] != list(range(1, n + 1)):
                    w.anomalies.append("start returned %r" % (nodes,))
                for nd in nodes:
                    i = _node_index(nd.node_name)
                    _j, cls = w.pid_class(nd.pid)
                    if w.st["npid"][i - 1] != (cls if _j == i else "unknown"):
                        w.anomalies.append("pid of returned node %d differs from the pid at attach" % i)
            w.emit("sret", w.cur, tag)
            if nodes is not None:
                store = Store()
                returned = []
                try:
                    stopped = pl.stop(nodes, store)
                    tag = "ok"
                    returned = [_node_index(nd.node_name) for nd in stopped]
                except real_psutil.AccessDenied:
                    tag = "AccessDenied"
                except RuntimeError as ex:
                    tag = "device" if "verif: telemetry device fails" in str(ex) else "RuntimeError"
                except _Divergence:
                    raise
                except Exception as ex:  # pylint: disable=broad-except
                    tag = type(ex).__name__
                    result["stop_exc"] = repr(ex)
                w.env_point()
                w.st["pres"] = tag
                w.st["ret"] = returned
                w.emit("pret", w.cur, tag)
    finally:
        os.chdir(cwd)
        lg.removeHandler(handler)
        lg.setLevel(old[0])
        lg.propagate = old[1]
        logging.disable(old[2])
        for obj, name, prev in reversed(patches):
            if prev is missing:
                delattr(obj, name)
            else:
                setattr(obj, name, prev)
    item = {"scn": dict(scn), "init": w.init, "events": w.events}
    info = {"skipped": w.skipped, "anomalies": w.anomalies, "exc": result, "final": w.st}
    return item, info


# ---------------------------------------------------------------------------------------------------
# case sources
# ---------------------------------------------------------------------------------------------------
def proc_cases_from_tlc(ctx, out, cfg):
    res = _tlc(ctx, "MC_Launcher", cfg)
    simdir = os.path.join(res.wd, "sim")
    if not res.ok:
        raise tlc.MachineryError("simulation reported a model violation: %s" % res.out[-2000:])
    out.add_tlc(res)
    cases = []
    for fn in sorted(glob.glob(os.path.join(simdir, "b_*"))):
        first, steps = _light_behaviour(fn)
        if len(steps) < 2:
            continue
        first = to_json(first)
        scn = first["scn"]
        sched = {}
        spawn = {}
        k = 0
        model_events = []
        complete = False
        for a, pc in steps:
            if a["a"] in ENV_NAMES:
                sched.setdefault(str(k), []).append([a["a"], a["n"], a["r"]])
            else:
                if a["a"] == "spawn":
                    spawn[str(a["n"])] = a["r"]
                model_events.append([a["a"], a["n"], a["r"]])
                k += 1
            if pc in ("done", "failed"):
                complete = True
        cases.append(
            {
                "src": "tlc-simulate",
                "scn": scn,
                "pid0": first["s"]["pidf"],
                "q0": first["s"]["qproc"],
                "sched": {kk: [tuple(x) for x in v] for kk, v in sched.items()},
                "spawn": spawn,
                "model_events": model_events,
                "complete": complete,
            }
        )
    return cases


def random_proc_case(rnd, k):
    n = rnd.choice([1, 1, 2, 2, 3])
    profile = rnd.choice(["clean"] * 5 + ["stubborn"] * 3 + ["hostile"] * 4 + ["nopid", "unstable", "unstable"])
    pid0, q0 = ["absent"] * n, ["none"] * n
    if profile == "hostile":
        for i in range(n):
            x = rnd.random()
            if x < 0.5:
                pid0[i] = "stale"
                q0[i] = rnd.choice(["none", "alive", "alive", "alive", "denied"])
            elif x < 0.58:
                pid0[i] = "garbage"
    real_to = rnd.random() < 0.15
    scn = {
        "n": n,
        "root": rnd.random() < 0.02,
        "devfail": rnd.randint(1, n) if rnd.random() < 0.1 else 0,
        "pt": DEFAULT_PT if real_to else rnd.randint(3, 9),
        "gr": DEFAULT_GR if real_to else rnd.randint(1, 4),
    }
    case = {"src": "random", "profile": profile, "scn": scn, "pid0": pid0, "q0": q0, "seed": rnd.randrange(1 << 30), "p_env": rnd.choice([0.3, 0.5, 0.7, 0.85]), "p_rc": rnd.choice([0.0, 0.0, 0.05, 0.15])}
    if profile == "nopid":  # a daemon that never writes its pid file
        case["w_create"] = 0.0
    elif profile == "stubborn":  # nodes that ignore SIGTERM
        case["w_exit"] = 0.02
    elif profile == "unstable":  # nodes that die, busy pid table
        case["w_crash"] = 6.0
        case["w_reuse"] = 10.0
    elif profile == "clean":
        case["p_rc"] = 0.0
    return case


def _proc_signature(clauses, case, item):
    s = item["events"][-1]["st"] if item["events"] else item["init"]
    return {
        "part": "process",
        "clauses": sorted(clauses),
        "stale_pid_file": "stale" in case["pid0"],
        "sigkill": any(e["a"] == "kill" and e["r"] == "ok" for e in item["events"]),
        "stop_raised": s["pres"] not in ("none", "ok"),
        "gone_at_lookup": any(e["a"] == "lookup" and e["r"] == "gone" for e in item["events"]),
        "pinned": sorted({PINNED[c][0] for c in clauses if c in PINNED}),
    }


def run_proc_cases(cases, out, label, stats, pending):
    items, index = [], {}
    for ci, case in enumerate(cases):
        try:
            item, info = execute_proc(case)
        except _Divergence as ex:
            out.drift.append("%s-%d: %s; case %s" % (label, ci, ex, {k: case[k] for k in ("scn", "pid0", "q0")}))
            continue
        item["id"] = "%s-%d" % (label, ci)
        items.append(item)
        index[item["id"]] = (case, item, info)
        evs = item["events"]
        names = [e["a"] for e in evs]
        out.add_case({k: case.get(k) for k in CASE_KEYS}, nontrivial="poll" in names)
        stats["runs"] += 1
        fin = info["final"]
        stats["start_" + fin["sres"]] = stats.get("start_" + fin["sres"], 0) + 1
        stats["stop_" + fin["pres"]] = stats.get("stop_" + fin["pres"], 0) + 1
        stats["sigkill"] += any(e["a"] == "kill" and e["r"] == "ok" for e in evs)
        stats["gone_at_lookup"] += any(e["a"] == "lookup" and e["r"] == "gone" for e in evs)
        stats["gone_at_term_or_kill"] += any(e["a"] in ("term", "kill") and e["r"] == "gone" for e in evs)
        stats["empty_pidfile_seen"] += any(e["a"] == "poll" and e["r"] == "empty" for e in evs)
        stats["stale_pid_returned"] += "stale" in fin["npid"]
        stats["foreign_signalled"] += fin["fsig"] > 0
        stats["real_timeouts"] += case["scn"]["pt"] == DEFAULT_PT
        stats["events_max"] = max(stats["events_max"], len(evs))
        if info["anomalies"]:
            out.drift.append("%s: the launcher's system calls differ from what Launcher.tla describes: %s" % (item["id"], info["anomalies"][:3]))
        for which in ("start_exc", "stop_exc"):
            if info["exc"][which]:
                stats["unexpected_exceptions"].append("%s %s: %s" % (item["id"], which, info["exc"][which]))
        if case.get("model_events") is not None and case["complete"]:
            stats["s2c_complete"] += 1
            mine = [[e["a"], e["n"], e["r"]] for e in evs if e["a"] not in ENV_NAMES]
            stats["s2c_followed"] += mine == case["model_events"] and info["skipped"] == 0
    if not items:
        raise tlc.MachineryError("no runs for %s" % label)
    pending.append((lambda: tracecheck.validate(SPEC, "TraceLauncher", "TraceLauncher.cfg", items, name="xltrace", chunk=700, timeout=600), lambda verdicts: _judge_proc(out, stats, items, index, verdicts, label)))
    return items


def _judge_proc(out, stats, items, index, verdicts, label):
    out.states += verdicts.n_events
    out.transitions += verdicts.n_events
    out.traces_validated += len(items) - len(set(verdicts.l2) | {tid for tid, fails in verdicts.l1.items() if any(c not in PINNED for _, cl in fails for c in cl)})
    for tid, fails in sorted(verdicts.l1.items()):
        case, item, info = index[tid]
        clauses = sorted({c for _, cl in fails for c in cl})
        replay = {k: case.get(k) for k in CASE_KEYS if case.get(k) is not None}
        _report_l1(out, stats, tid, fails, replay, _proc_signature(clauses, case, item), "process run %s (%d events)" % (tid, len(item["events"])))
    _explain_drift(out, "TraceLauncher", "TraceLauncher.cfg", [index[tid][1] for tid in sorted(verdicts.l2)], ["RemoveStalePid", "WaitAfterKill", "ContinuePastFailure", "DetachGone"], label)
    for tid, lines in sorted(verdicts.l2.items()):
        case, item, info = index[tid]
        ln = lines[0]
        what = {k: item["events"][ln - 1][k] for k in ("a", "n", "r")} if 1 <= ln <= len(item["events"]) else ("initial state" if ln == 0 else "end of run")
        out.drift.append("run %s: event %d (%s) is not a step of Launcher.tla (code as it is); case %s" % (tid, ln, what, {k: case.get(k) for k in ("scn", "pid0", "q0", "seed")}))


def run_process_part(ctx, out, pending):
    # ---- Leg M
    todo = ["Launcher.quick.cfg", "Launcher.hostile.cfg", "Launcher.repaired.cfg"]
    if not ctx.quick:
        todo += ["Launcher.thorough.cfg", "Launcher.repaired_reuse.cfg"]
    for c in todo:
        res = _tlc(ctx, "MC_Launcher", c)
        out.add_tlc(res)
        if not res.ok:
            raise tlc.MachineryError("model violates %s in %s: %s" % (res.invariant_violated or res.property_violated, c, res.out[-1500:]))
        out.note("leg M %s: %d distinct states, depth %d, %.1fs" % (c, res.distinct, res.depth, res.wall_s))
    for c, inv, text in [
        ("Launcher.selftest.stale.cfg", "StartConsistent", "RemoveStalePid=FALSE: a stale pid file is read before the daemon has written its own"),
        ("Launcher.selftest.kill.cfg", "NoSurvivor", "WaitAfterKill=FALSE: reported as stopped right after SIGKILL was sent"),
        ("Launcher.selftest.abort.cfg", "StopCoversAll", "ContinuePastFailure=FALSE: a failing telemetry device aborts stop(), later nodes keep running"),
        ("Launcher.selftest.detach.cfg", "TelemetryComplete", "DetachGone=FALSE: no detach for a node that has already gone"),
        ("Launcher.selftest.reuse.cfg", "OnlyOwnSignalled", "environment hazard: the pid is looked up again at stop(), a reused pid is signalled"),
        ("Launcher.selftest.leak.cfg", "NoLeakOnFailedStart", "start() of several nodes: a failure of a later node leaves the earlier ones running and unknown to the caller"),
    ]:
        res = _tlc(ctx, "MC_Launcher", c)
        if res.invariant_violated != inv:
            raise tlc.MachineryError("self-test failed: %s no longer violates %s" % (c, inv))
        out.extra.setdefault("model_selftests", []).append("%s violates %s in the model, as expected: %s" % (c, inv, text))
    # ---- Leg S2C + C2S
    stats = {k: 0 for k in ("runs", "start_ok", "sigkill", "gone_at_lookup", "gone_at_term_or_kill", "empty_pidfile_seen", "stale_pid_returned", "foreign_signalled", "real_timeouts", "events_max", "s2c_complete", "s2c_followed")}
    stats["l1"] = {}
    stats["l1_new"] = {}
    stats["unexpected_exceptions"] = []
    sim = proc_cases_from_tlc(ctx, out, "Launcher.sim.cfg")
    sim += proc_cases_from_tlc(ctx, out, "Launcher.simok.cfg")
    out.note("leg S2C (process): %d TLC behaviours" % len(sim))
    items = run_proc_cases(sim, out, "psim", stats, pending)
    out.sample({"source": "tlc-simulate", "scn": sim[0]["scn"], "pid0": sim[0]["pid0"], "q0": sim[0]["q0"], "recorded_events": [[e["a"], e["n"], e["r"]] for e in items[0]["events"]]})
    rnd = random.Random(ctx.seed + 77)
    rc = [random_proc_case(rnd, k) for k in range(800 if ctx.quick else 12000)]
    items = run_proc_cases(rc, out, "prnd", stats, pending)
    out.sample({"source": "random", "scn": rc[0]["scn"], "pid0": rc[0]["pid0"], "q0": rc[0]["q0"], "recorded_events": [[e["a"], e["n"], e["r"]] for e in items[0]["events"]][:60]})
    out.extra["process_runs"] = stats
    out.note(
        "leg C2S (process): %d runs; start ok %d; SIGKILL in %d; gone at look-up %d, at terminate/kill %d; empty pid file seen %d; stale pid returned %d; "
        "foreign process signalled %d; real time-outs %d; S2C: %d/%d complete TLC behaviours reproduced event by event"
        % (stats["runs"], stats["start_ok"], stats["sigkill"], stats["gone_at_lookup"], stats["gone_at_term_or_kill"], stats["empty_pidfile_seen"], stats["stale_pid_returned"], stats["foreign_signalled"], stats["real_timeouts"], stats["s2c_followed"], stats["s2c_complete"])
    )
    for key in ("sigkill", "gone_at_lookup", "gone_at_term_or_kill", "empty_pidfile_seen", "s2c_followed", "start_pidtimeout", "start_rc", "stop_device"):
        if not stats.get(key):
            out.vacuous.append("no executed run exercised: " + key)
    if stats["unexpected_exceptions"]:
        out.note("exceptions outside the model's vocabulary: %s" % stats["unexpected_exceptions"][:3])
    # binding self-test: corrupted recordings must be rejected
    base = next(it for it in items if any(e["a"] == "term" and e["r"] == "ok" for e in it["events"]) and it["events"][-1]["a"] == "pret")
    m1 = copy.deepcopy(base)
    m1["id"] = "bind-term"
    k = next(j for j, e in enumerate(m1["events"]) if e["a"] == "term" and e["r"] == "ok")
    for e in m1["events"][k:]:
        e["st"]["term"][m1["events"][k]["n"] - 1] += 1
    m2 = copy.deepcopy(base)
    m2["id"] = "bind-drop"
    del m2["events"][k]
    m3 = copy.deepcopy(base)
    m3["id"] = "bind-proc"
    m3["events"][k]["st"]["proc"][m3["events"][k]["n"] - 1] = "running"

    def judge_binding(v):
        missed = [m for m in ("bind-term", "bind-drop", "bind-proc") if m not in v.l1 and m not in v.l2]
        if missed or "bind-term" not in v.l1:
            raise tlc.MachineryError("binding self-test failed: corrupted recordings accepted: %s (l1 %s)" % (missed, sorted(v.l1)))
        out.extra["binding_selftest"] = "a recording with a second SIGTERM (L1 SignalDiscipline), one without its terminate event and one whose process ignores the signal are rejected by TLC"

    pending.append((lambda: tracecheck.validate(SPEC, "TraceLauncher", "TraceLauncher.cfg", [m1, m2, m3], name="xlbind"), judge_binding))


# ===================================================================================================
# wait_for_rest_layer against a scripted Elasticsearch client
# ===================================================================================================
REST_CLASSES = ["ok", "ser", "serhttps", "tls", "conn", "proto", "conntimeout", "transport", "api503", "api401", "api408", "api404", "api500", "api429", "api400", "api403", "api502", "other"]
REST_RETRY = ["ser", "conn", "conntimeout", "transport", "api503", "api401", "api408"]


def _rest_exception(cls):
    import elastic_transport as et
    import elasticsearch
    import urllib3

    if cls == "ser":
        return et.SerializationError("Unable to deserialize as JSON")
    if cls == "serhttps":
        return et.SerializationError(message="Client sent an HTTP request to an HTTPS server")
    if cls == "tls":
        return elasticsearch.SSLError(message="[SSL: WRONG_VERSION_NUMBER] wrong version number (_ssl.c:1131)")
    if cls == "conn":
        return et.ConnectionError("Connection refused")
    if cls == "proto":
        return et.ConnectionError(message="N/A", errors=[urllib3.exceptions.ProtocolError("Connection aborted.")])
    if cls == "conntimeout":
        return et.ConnectionTimeout("Connection timed out")
    if cls == "transport":
        return et.TransportError("sniffing failed")
    if cls.startswith("api"):
        meta = et.ApiResponseMeta(status=int(cls[3:]), http_version="1.1", headers=et.HttpHeaders(), duration=0.0, node=et.NodeConfig(scheme="http", host="localhost", port=9200))
        return elasticsearch.ApiError("status %s" % cls[3:], meta, None)
    return ValueError("verif: not a transport error")


def execute_rest(case):
    """case: {"max": int | None (None = call without max_attempts: the default 40), "script": [class per health call], "hosts": int}.
    Calls beyond the script succeed."""
    from esrally import exceptions
    from esrally.client import factory

    st = {"calls": 0, "sleeps": 0, "slept": 0, "hist": [], "res": "none"}
    events = []
    anomalies = []
    raised = {}

    def emit(a, r):
        events.append({"a": a, "r": r, "st": _snap(st)})
        if len(events) > 400:
            raise _Divergence("wait_for_rest_layer does not end")

    class Cluster:
        def health(self_, *a, **kw):
            k = st["calls"]
            cls = case["script"][k] if k < len(case["script"]) else "ok"
            if a or kw != {"wait_for_nodes": ">=%d" % case["hosts"]}:
                anomalies.append("cluster.health(%r, %r)" % (a, kw))
            st["calls"] += 1
            st["hist"].append(cls)
            emit("call", cls)
            if cls == "ok":
                return {"status": "red", "number_of_nodes": case["hosts"]}
            ex = _rest_exception(cls)
            raised[id(ex)] = (cls, ex)
            raise ex

    class Transport:
        node_pool = [object()] * case["hosts"]

    class Es:
        cluster = Cluster()
        transport = Transport()

    class HookClock(VirtualClock):
        def sleep(self_, secs):
            super().sleep(secs)
            st["sleeps"] += 1
            isecs = int(secs) if float(secs) == int(secs) else -1
            st["slept"] += isecs
            emit("sleep", isecs)

    _quiet_root_logger()
    with HookClock():
        try:
            if case["max"] is None:
                r = factory.wait_for_rest_layer(Es())
            else:
                r = factory.wait_for_rest_layer(Es(), max_attempts=case["max"])
            tag = "True" if r is True else "False" if r is False else "returned %r" % (r,)
        except exceptions.SystemSetupError as ex:
            msg = str(ex.message)
            tag = "setup:http-to-https" if "HTTP request to an HTTPS server" in msg else "setup:tls" if "via HTTPS" in msg else "setup:protocol" if "protocol error" in msg else "setup:?"
        except _Divergence:
            raise
        except Exception as ex:  # pylint: disable=broad-except
            tag = "raise:" + raised[id(ex)][0] if id(ex) in raised else "raise:?" + type(ex).__name__
    st["res"] = tag
    emit("ret", tag)
    return {"max": 40 if case["max"] is None else case["max"], "events": events}, anomalies


def rest_cases_from_tlc(ctx, out):
    """every terminal state of RestLayer.quick.cfg = one (max_attempts, outcome per call) case with the model's verdict"""
    from ..tlaparse import parse_dump

    res = _tlc(ctx, "MC_RestLayer", "RestLayer.quick.cfg")
    dump = os.path.join(res.wd, "states")
    if not res.ok:
        raise tlc.MachineryError("model violates %s in RestLayer.quick.cfg: %s" % (res.invariant_violated, res.out[-1500:]))
    out.add_tlc(res)
    out.note("leg M RestLayer.quick.cfg: %d distinct states, %.1fs" % (res.distinct, res.wall_s))
    cases = []
    for stt in parse_dump(dump + ".dump" if os.path.exists(dump + ".dump") else dump):
        s = to_json(stt["s"])
        if s["pc"] != "done":
            continue
        cases.append({"src": "tlc-dump", "max": stt["max"], "script": list(s["hist"]), "hosts": 1 + len(cases) % 3, "model": {"res": s["res"], "calls": s["calls"], "sleeps": s["sleeps"]}})
    return cases


def random_rest_case(rnd):
    style = rnd.random()
    mx = None if style < 0.08 else rnd.choice([0, 1, 2, 3, 4, 5, 6, 8, 12])
    limit = 40 if mx is None else mx
    length = rnd.choice([0, 1, 2, limit, limit + 1, limit + 2, rnd.randint(0, limit + 3)])
    script = [rnd.choice(REST_RETRY) for _ in range(length)]
    x = rnd.random()
    if x < 0.35:
        script.append(rnd.choice(REST_CLASSES))
    elif x < 0.5 and script:
        script[rnd.randrange(len(script))] = rnd.choice(REST_CLASSES)
    return {"src": "random", "max": mx, "script": script, "hosts": rnd.randint(1, 5)}


def run_rest_cases(cases, out, label, stats, pending):
    items, index = [], {}
    for ci, case in enumerate(cases):
        item, anomalies = execute_rest(case)
        item["id"] = "%s-%d" % (label, ci)
        items.append(item)
        index[item["id"]] = (case, item)
        fin = item["events"][-1]["st"]
        out.add_case({k: case[k] for k in ("max", "script", "hosts")}, nontrivial=fin["calls"] >= 2)
        stats["runs"] += 1
        stats["res"][fin["res"].split(":")[0]] = stats["res"].get(fin["res"].split(":")[0], 0) + 1
        stats["max_calls"] = max(stats["max_calls"], fin["calls"])
        stats["default_max_attempts"] += case["max"] is None
        if anomalies:
            out.drift.append("%s: %s" % (item["id"], anomalies[:2]))
        if case.get("model"):
            stats["s2c"] += 1
            stats["s2c_same"] += case["model"] == {"res": fin["res"], "calls": fin["calls"], "sleeps": fin["sleeps"]}
    pending.append((lambda: tracecheck.validate(SPEC, "TraceRestLayer", "TraceRestLayer.cfg", items, name="xlresttrace", chunk=3000, timeout=600), lambda verdicts: _judge_rest(out, stats, items, index, verdicts, label)))
    return items


def _judge_rest(out, stats, items, index, verdicts, label):
    out.states += verdicts.n_events
    out.transitions += verdicts.n_events
    out.traces_validated += len(items) - len(set(verdicts.l2) | {tid for tid, fails in verdicts.l1.items() if any(c not in PINNED for _, cl in fails for c in cl)})
    for tid, fails in sorted(verdicts.l1.items()):
        case, item = index[tid]
        fin = item["events"][-1]["st"]
        _report_l1(out, stats, tid, fails, {k: case[k] for k in ("max", "script", "hosts")}, {"part": "rest", "calls_minus_max": fin["calls"] - item["max"]}, "wait_for_rest_layer run %s: max_attempts=%s, %d health calls, result %s" % (tid, case["max"], fin["calls"], fin["res"]))
    _explain_drift(out, "TraceRestLayer", "TraceRestLayer.cfg", [index[tid][1] for tid in sorted(verdicts.l2)], ["ExactAttempts"], label)
    for tid, lines in sorted(verdicts.l2.items()):
        case, item = index[tid]
        ln = lines[0]
        what = {k: item["events"][ln - 1][k] for k in ("a", "r")} if 1 <= ln <= len(item["events"]) else "end of run"
        out.drift.append("run %s: event %d (%s) is not a step of RestLayer.tla (code as it is); case %s" % (tid, ln, what, {k: case[k] for k in ("max", "script")}))


def run_rest_part(ctx, out, pending):
    todo = [("RestLayer.exact.cfg", None), ("RestLayer.selftest.cfg", "AtMostMax")]
    if not ctx.quick:
        todo.append(("RestLayer.thorough.cfg", None))
    for c, expect in todo:
        res = _tlc(ctx, "MC_RestLayer", c)
        if expect is None:
            out.add_tlc(res)
            if not res.ok:
                raise tlc.MachineryError("model violates %s in %s: %s" % (res.invariant_violated, c, res.out[-1500:]))
            out.note("leg M %s: %d distinct states, %.1fs" % (c, res.distinct, res.wall_s))
        elif res.invariant_violated != expect:
            raise tlc.MachineryError("self-test failed: %s no longer violates %s" % (c, expect))
        else:
            out.extra.setdefault("model_selftests", []).append("%s violates %s in the model, as expected: ExactAttempts=FALSE, `while attempt <= max_attempts` counted from 0 makes max_attempts + 1 calls" % (c, expect))
    stats = {"runs": 0, "res": {}, "max_calls": 0, "default_max_attempts": 0, "s2c": 0, "s2c_same": 0, "l1": {}, "l1_new": {}}
    cases = rest_cases_from_tlc(ctx, out)
    items = run_rest_cases(cases, out, "rdump", stats, pending)
    out.sample({"source": "tlc-dump", "max_attempts": cases[-1]["max"], "script": cases[-1]["script"], "recorded": items[-1]["events"][-1]["st"]})
    rnd = random.Random(ctx.seed + 123)
    rc = [random_rest_case(rnd) for _ in range(400 if ctx.quick else 6000)]
    run_rest_cases(rc, out, "rrnd", stats, pending)
    out.extra["rest_runs"] = stats
    out.note("leg S2C/C2S (rest): %d runs (%d terminal states of the model, all with the model's result/calls/sleeps: %d), results %s, up to %d calls, %d with the default max_attempts" % (stats["runs"], stats["s2c"], stats["s2c_same"], stats["res"], stats["max_calls"], stats["default_max_attempts"]))
    if stats["s2c_same"] != stats["s2c"]:
        out.drift.append("rest: %d of %d terminal states of RestLayer.tla are not reproduced by wait_for_rest_layer" % (stats["s2c"] - stats["s2c_same"], stats["s2c"]))
    for key in ("True", "setup", "raise"):
        if not stats["res"].get(key):
            out.vacuous.append("no executed wait_for_rest_layer run ended with: " + key)


# ===================================================================================================
# DockerLauncher against fake docker-compose / docker commands
# ===================================================================================================
DOCKER_ENV = ("healthy", "sick", "die")
DOCKER_DEFAULT_PT = 1200  # 10 min / sleep(0.5)


def execute_docker(case):
    """case: {"scn": {n, pt}, and either "sched" + "cmd" ({"up:1": "rc", ...}) from a TLC behaviour or "seed"}"""
    from esrally import config, exceptions, telemetry
    from esrally.mechanic import launcher, provisioner
    from esrally.utils import sysstats

    _quiet_root_logger()
    scn = case["scn"]
    n = scn["n"]
    rnd = random.Random(case["seed"]) if case.get("seed") is not None else None
    sched = case.get("sched")
    st = {"cont": ["absent"] * n, "seen": [False] * n, "warn": [False] * n, "sw": 0, "sres": "none", "pres": "none"}
    for f in ("ups", "downs", "polls", "att", "detR", "detS", "sysm"):
        st[f] = [0] * n
    init = _snap(st)
    events, anomalies = [], []
    world = {"k": 0, "cur": 1, "mark": 0.0, "skipped": 0, "phase": None}
    paths = {i: "/verif-docker/node%d/install" % i for i in range(1, n + 1)}
    by_path = {v: k for k, v in paths.items()}

    class HookClock(VirtualClock):
        def sleep(self_, secs):
            env_point()
            if abs(secs - 0.5) > 1e-9:
                anomalies.append("sleep(%r)" % (secs,))
            super().sleep(secs)
            emit("sleep", world["cur"], "ok")

    clock = HookClock()

    def emit(a, i, r):
        st["sw"] = int((clock.now - world["mark"]) / 0.5 + 1e-6)
        events.append({"a": a, "n": i, "r": r, "st": _snap(st)})
        if len(events) > 5200:
            raise _Divergence("run does not end")

    def enabled_env():
        res = []
        for i in range(1, n + 1):
            c = st["cont"][i - 1]
            if c == "starting":
                res += [("healthy", i, "ok"), ("sick", i, "ok")]
            if c in ("healthy", "unhealthy"):
                res.append(("die", i, "ok"))
        return res

    def apply_env(a, i, r):
        st["cont"][i - 1] = {"healthy": "healthy", "sick": "unhealthy", "die": "exited"}[a]
        emit(a, i, r)

    weight = {"healthy": 5.0 * case.get("w_healthy", 1.0), "sick": 0.3, "die": 0.08}

    def env_point():
        if sched is not None:
            for a, i, r in sched.get(str(world["k"]), []):
                if (a, i, r) in enabled_env():
                    apply_env(a, i, r)
                else:
                    world["skipped"] += 1
        elif rnd is not None:
            idle = 6.0 * (1.0 - case.get("p_env", 0.5))
            for _ in range(3):
                en = enabled_env()
                if not en:
                    break
                pick = rnd.choices(en + [None], weights=[weight[e[0]] for e in en] + [idle])[0]
                if pick is None:
                    break
                apply_env(*pick)
        world["k"] += 1

    def cmd_result(name, i, ok, bad):
        if sched is not None:
            return case.get("cmd", {}).get("%s:%d" % (name, i), ok)
        return bad if rnd.random() < case.get("p_fail", 0.05) else ok

    def compose(cmd):
        """-> (node, sub-command) of a docker-compose command line"""
        pre = "docker-compose -f "
        for path, i in by_path.items():
            for sub in ("up -d", "ps -q", "down"):
                if cmd == "%s%s/docker-compose.yml %s" % (pre, path, sub):
                    return i, sub
        return None, None

    class ProcessShim:
        @staticmethod
        def run_subprocess_with_logging(cmd, *a, **kw):
            i, sub = compose(cmd)
            if sub not in ("up -d", "down") or a or kw:
                raise _Divergence("unexpected command %r" % (cmd,))
            world["cur"] = i
            env_point()
            if sub == "up -d":
                r = cmd_result("up", i, "ok", "rc")
                st["ups"][i - 1] += 1
                if r == "ok":
                    st["cont"][i - 1] = "starting"
                emit("up", i, r)
            else:
                r = cmd_result("down", i, "ok", "rc")
                st["downs"][i - 1] += 1
                if r == "ok":
                    st["cont"][i - 1] = "absent"
                world["phase"] = ("down", i)
                emit("down", i, r)
            return 0 if r == "ok" else 1

        @staticmethod
        def run_subprocess_with_output(cmd, *a, **kw):
            i, sub = compose(cmd)
            if a or kw:
                raise _Divergence("unexpected command %r %r" % (cmd, kw))
            if sub == "ps -q":
                world["cur"] = i
                env_point()
                r = cmd_result("psq", i, "id", "none")
                if r == "id":
                    world["mark"] = clock.now
                emit("psq", i, r)
                return ["c0ffee%d" % i] if r == "id" else []
            for j in range(1, n + 1):
                if cmd == 'docker ps -a --filter "id=c0ffee%d" --filter "status=running" --filter "health=healthy" -q' % j:
                    world["cur"] = j
                    env_point()
                    healthy = st["cont"][j - 1] == "healthy"
                    st["polls"][j - 1] += 1
                    if healthy:
                        st["seen"][j - 1] = True
                    emit("dps", j, "healthy" if healthy else "no")
                    return ["c0ffee%d" % j] if healthy else []
            raise _Divergence("unexpected command %r" % (cmd,))

    class RecDevice(telemetry.InternalTelemetryDevice):
        def _ev(self_, node, field, name):
            i = _node_index(node.node_name)
            world["cur"] = i
            env_point()
            st[field][i - 1] += 1
            emit(name, i, "ok")

        def attach_to_node(self_, node):
            if node.pid != 0:
                anomalies.append("docker node with pid %r" % (node.pid,))
            self_._ev(node, "att", "attach")

        def detach_from_node(self_, node, running):
            self_._ev(node, "detR" if running else "detS", "detR" if running else "detS")

        def store_system_metrics(self_, node, metrics_store):
            self_._ev(node, "sysm", "sysm")

    real_telemetry_cls = telemetry.Telemetry

    class RecTelemetry(real_telemetry_cls):
        def __init__(self_, enabled_devices=None, devices=None, **kw):
            super().__init__(enabled_devices, devices=list(devices or []) + [RecDevice()], **kw)

    class Store:
        def add_meta_info(self_, *a):
            pass

        def put_value_node_level(self_, *a, **kw):
            pass

    class WarnHandler(logging.Handler):
        def emit(self_, record):
            if record.levelno >= logging.WARNING and world["phase"] and events and events[-1]["a"] == "down":
                i = world["phase"][1]
                st["warn"][i - 1] = True
                events[-1]["st"]["warn"][i - 1] = True

    cfg = config.Config()
    cfgs = [provisioner.NodeConfiguration("docker", "17", True, "127.0.0.1", "rally-node-%d" % i, "/verif-docker/node%d" % i, paths[i], []) for i in range(1, n + 1)]
    saved = [(launcher, "process", launcher.process), (telemetry, "Telemetry", telemetry.Telemetry), (sysstats, "cpu_model", sysstats.cpu_model), (launcher.DockerLauncher, "PROCESS_WAIT_TIMEOUT_SECONDS", launcher.DockerLauncher.PROCESS_WAIT_TIMEOUT_SECONDS)]
    lg = logging.getLogger("esrally.mechanic.launcher")
    root_lg = logging.getLogger()
    old = (lg.level, logging.root.manager.disable)
    handler = WarnHandler()
    try:
        logging.disable(logging.NOTSET)
        lg.setLevel(logging.WARNING)
        lg.addHandler(handler)
        launcher.process = ProcessShim
        telemetry.Telemetry = RecTelemetry
        sysstats.cpu_model = lambda: "verif-cpu"
        if scn["pt"] != DOCKER_DEFAULT_PT:
            launcher.DockerLauncher.PROCESS_WAIT_TIMEOUT_SECONDS = scn["pt"] * 0.5
        with clock:
            dl = launcher.DockerLauncher(cfg)
            nodes = None
            try:
                nodes = dl.start(cfgs)
                tag = "ok"
            except exceptions.LaunchError as ex:
                msg = str(ex.message)
                tag = "rc" if "startup failed" in msg else "timeout" if "No healthy running container" in msg else "LaunchError"
            except IndexError:
                tag = "IndexError"
            except _Divergence:
                raise
            except Exception as ex:  # pylint: disable=broad-except
                tag = type(ex).__name__
            env_point()
            st["sres"] = tag
            emit("sret", world["cur"], tag)
            if nodes is not None:
                if [_node_index(nd.node_name) for nd in nodes] != list(range(1, n + 1)):
                    anomalies.append("start returned %r" % (nodes,))
                try:
                    r = dl.stop(nodes, Store())
                    tag = "ok" if r is None else "returned %r" % (r,)
                except _Divergence:
                    raise
                except Exception as ex:  # pylint: disable=broad-except
                    tag = type(ex).__name__
                env_point()
                st["pres"] = tag
                emit("pret", world["cur"], tag)
    finally:
        lg.removeHandler(handler)
        lg.setLevel(old[0])
        logging.disable(old[1])
        for obj, name, prev in saved:
            setattr(obj, name, prev)
    return {"scn": dict(scn), "init": init, "events": events}, {"anomalies": anomalies, "skipped": world["skipped"], "final": st}


def docker_cases_from_tlc(ctx, out, cfg):
    res = _tlc(ctx, "MC_DockerLaunch", cfg)
    simdir = os.path.join(res.wd, "sim")
    if not res.ok:
        raise tlc.MachineryError("simulation reported a model violation: %s" % res.out[-2000:])
    out.add_tlc(res)
    cases = []
    for fn in sorted(glob.glob(os.path.join(simdir, "b_*"))):
        first, steps = _light_behaviour(fn)
        if len(steps) < 2:
            continue
        sched, cmd, model_events, k, complete = {}, {}, [], 0, False
        for a, pc in steps:
            if a["a"] in DOCKER_ENV:
                sched.setdefault(str(k), []).append((a["a"], a["n"], a["r"]))
            else:
                if a["a"] in ("up", "psq", "down"):
                    cmd["%s:%d" % (a["a"], a["n"])] = a["r"]
                model_events.append([a["a"], a["n"], a["r"]])
                k += 1
            complete = complete or pc in ("done", "failed")
        cases.append({"src": "tlc-simulate", "scn": to_json(first["scn"]), "sched": sched, "cmd": cmd, "model_events": model_events, "complete": complete})
    return cases


def random_docker_case(rnd):
    real_to = rnd.random() < 0.01
    n = rnd.choice([1, 1, 2, 3])
    case = {"src": "random", "scn": {"n": 1 if real_to else n, "pt": DOCKER_DEFAULT_PT if real_to else rnd.randint(1, 12)}, "seed": rnd.randrange(1 << 30), "p_env": rnd.choice([0.2, 0.5, 0.8]), "p_fail": rnd.choice([0.0, 0.0, 0.1, 0.3])}
    if real_to or rnd.random() < 0.1:
        case["w_healthy"] = 0.0  # a container that never becomes healthy
    return case


DOCKER_KEYS = ("scn", "sched", "cmd", "seed", "p_env", "p_fail", "w_healthy")


def run_docker_cases(cases, out, label, stats, pending):
    items, index = [], {}
    for ci, case in enumerate(cases):
        try:
            item, info = execute_docker(case)
        except _Divergence as ex:
            out.drift.append("%s-%d: %s; case %s" % (label, ci, ex, case["scn"]))
            continue
        item["id"] = "%s-%d" % (label, ci)
        items.append(item)
        index[item["id"]] = (case, item)
        evs = item["events"]
        fin = info["final"]
        out.add_case({k: case.get(k) for k in DOCKER_KEYS}, nontrivial=any(e["a"] == "dps" for e in evs))
        stats["runs"] += 1
        stats["start_" + fin["sres"]] = stats.get("start_" + fin["sres"], 0) + 1
        stats["down_failed"] += any(e["a"] == "down" and e["r"] == "rc" for e in evs)
        stats["events_max"] = max(stats["events_max"], len(evs))
        if info["anomalies"]:
            out.drift.append("%s: %s" % (item["id"], info["anomalies"][:2]))
        if case.get("model_events") is not None and case["complete"]:
            stats["s2c_complete"] += 1
            mine = [[e["a"], e["n"], e["r"]] for e in evs if e["a"] not in DOCKER_ENV]
            stats["s2c_followed"] += mine == case["model_events"] and info["skipped"] == 0
    pending.append((lambda: tracecheck.validate(SPEC, "TraceDockerLaunch", "TraceDockerLaunch.cfg", items, name="xldtrace", chunk=1500, timeout=600), lambda verdicts: _judge_docker(out, stats, items, index, verdicts, label)))
    return items


def _judge_docker(out, stats, items, index, verdicts, label):
    out.states += verdicts.n_events
    out.transitions += verdicts.n_events
    out.traces_validated += len(items) - len(set(verdicts.l2) | {tid for tid, fails in verdicts.l1.items() if any(c not in PINNED for _, cl in fails for c in cl)})
    for tid, fails in sorted(verdicts.l1.items()):
        case, item = index[tid]
        _report_l1(out, stats, tid, fails, {k: case.get(k) for k in DOCKER_KEYS if case.get(k) is not None}, {"part": "docker"}, "docker run %s (%d events)" % (tid, len(item["events"])))
    _explain_drift(out, "TraceDockerLaunch", "TraceDockerLaunch.cfg", [index[tid][1] for tid in sorted(verdicts.l2)], ["CheckDown"], label)
    for tid, lines in sorted(verdicts.l2.items()):
        case, item = index[tid]
        ln = lines[0]
        what = {k: item["events"][ln - 1][k] for k in ("a", "n", "r")} if 1 <= ln <= len(item["events"]) else ("initial state" if ln == 0 else "end of run")
        out.drift.append("run %s: event %d (%s) is not a step of DockerLaunch.tla (code as it is); case %s" % (tid, ln, what, {k: case.get(k) for k in ("scn", "seed", "cmd")}))


def run_docker_part(ctx, out, pending):
    todo = [("DockerLaunch.quick.cfg" if ctx.quick else "DockerLaunch.thorough.cfg", None), ("DockerLaunch.repaired.cfg", None), ("DockerLaunch.selftest.down.cfg", "DownChecked"), ("DockerLaunch.selftest.leak.cfg", "NoLeakOnFailedStart")]
    texts = {
        "DownChecked": "CheckDown=FALSE: the exit code of `docker-compose down` is dropped, a container that could not be removed goes unnoticed",
        "NoLeakOnFailedStart": "a container that was brought up but never becomes healthy (or a later node that fails) is left running when start() raises",
    }
    for c, expect in todo:
        res = _tlc(ctx, "MC_DockerLaunch", c)
        if expect is None:
            out.add_tlc(res)
            if not res.ok:
                raise tlc.MachineryError("model violates %s in %s: %s" % (res.invariant_violated, c, res.out[-1500:]))
            out.note("leg M %s: %d distinct states, %.1fs" % (c, res.distinct, res.wall_s))
        elif res.invariant_violated != expect:
            raise tlc.MachineryError("self-test failed: %s no longer violates %s" % (c, expect))
        else:
            out.extra.setdefault("model_selftests", []).append("%s violates %s in the model, as expected: %s" % (c, expect, texts[expect]))
    stats = {"runs": 0, "down_failed": 0, "events_max": 0, "s2c_complete": 0, "s2c_followed": 0, "l1": {}, "l1_new": {}}
    sim = docker_cases_from_tlc(ctx, out, "DockerLaunch.sim.cfg")
    sim += docker_cases_from_tlc(ctx, out, "DockerLaunch.simok.cfg")
    items = run_docker_cases(sim, out, "dsim", stats, pending)
    out.sample({"source": "tlc-simulate (docker)", "scn": sim[0]["scn"], "recorded_events": [[e["a"], e["n"], e["r"]] for e in items[0]["events"]]})
    rnd = random.Random(ctx.seed + 211)
    rc = [random_docker_case(rnd) for _ in range(200 if ctx.quick else 4000)]
    run_docker_cases(rc, out, "drnd", stats, pending)
    out.extra["docker_runs"] = stats
    out.note("leg S2C/C2S (docker): %d runs, start results %s, compose down failed in %d, longest run %d events; S2C: %d/%d complete TLC behaviours reproduced event by event" % (stats["runs"], {k[6:]: v for k, v in stats.items() if k.startswith("start_")}, stats["down_failed"], stats["events_max"], stats["s2c_followed"], stats["s2c_complete"]))
    for key in ("start_ok", "start_timeout", "start_rc", "down_failed", "s2c_followed"):
        if not stats.get(key):
            out.vacuous.append("no executed docker run exercised: " + key)


def run(ctx, out):
    out.rule = (
        "process case = scenario (nodes on the host, euid, failing telemetry device, time-outs in ticks, initial pid files / holders of stale pids) + "
        "environment schedule (TLC behaviour) or seed (random environment); REST case = max_attempts + outcome class of every health call; "
        "docker case = outcome of every compose / docker ps call; distinct by hash of that input; non-trivial = the pid file was polled / >= 2 calls"
    )
    out.assumptions = [
        "the operating system is the fake of harness/extras/launcher.py (independent Python transcription of the environment part of Launcher.tla); "
        "the daemon's command line, environment and working directory are checked, Elasticsearch itself never runs",
        "time passes only in time.sleep (virtual clock) and inside psutil.Process.wait; one tick = 0.5 s while polling, 10 s / scn.gr while waiting for the process",
        "psutil.Process handles do not follow a reused pid (psutil compares creation times); zombies are not modelled (the daemon is not a child of Rally)",
        "telemetry: real Telemetry and the real devices built by _start_node (only the internal ones DiskIo, IndexSize, StartupTime are enabled) plus one recording device at the end of the list",
        "one start() followed by at most one stop() per launcher; a second stop() of the same nodes is not modelled",
    ]
    _prefetch(ctx)
    pending = []
    run_process_part(ctx, out, pending)
    run_rest_part(ctx, out, pending)
    run_docker_part(ctx, out, pending)
    _validate_pending(pending)
    for c, rec in sorted(out.extra.get("pinned_behaviour_observed", {}).items()):
        rec.pop("size", None)
        out.note("pinned behaviour of /repo (strong clause %s fails in %d runs; model switch %s = FALSE): %s; smallest example %s" % (c, rec["runs"], rec["switch"], rec["what"], str(rec["example"])[:400]))
    if out.vacuous:
        out.note("VACUOUS (kinds of runs this seed did not produce): %s" % out.vacuous)
    out.drift.sort(key=lambda d: 0 if "seems to have been repaired" in d else 1)
    if out.drift:
        out.note("MODEL-DRIFT in %d places, first: %s" % (len(out.drift), out.drift[0][:600]))
