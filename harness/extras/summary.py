"""Extra module Summary: the SUMMARY report of one race (esrally/reporter.py summarize() -> SummaryReporter.report() ->
write_single_report) and its machine-readable twin metrics.GlobalStats.as_flat_list(), specs/Summary.  A results structure (tasks in
schedule order, ML jobs / transforms in list order, 155 metric slots each None / 0 / small / large) and the options --show-in-report,
output.processingtime, --report-format, --report-file (bare name / relative / absolute, fresh / existing) map to the report as a SEQUENCE
of rows [metric, task, value, unit].  The slot table of Summary.tla is the documentation (docs/summary_report.rst, sample reports): label,
unit, conversion (ms -> min / s, bytes -> GB / MB / human unit, ratio -> %), format ("%.2f" or the number itself), order.  Invariants (TLC
+ L1 on every run of the REAL reporter): PresentOnce (every recorded metric - zeros too - exactly once), NothingForAbsentW / EmptyLinesW,
AllShowsEveryLine, PercentilesForcedW (percentile lines = stored percentiles; all six when forced), RowOrder (documented order, schedule
order of tasks), ValueConverted (exact rationals; "%.2f" ties either way), UnitShown, CsvEqualsMarkdownW (markdown = six significant
digits), FileCreatedW / FilePlain / FileEndsWithReport / HeaderOnce, FlatAgrees (one flat entry per reported value, same value), Warnings,
AlignOnlyWhitespace, PercentilesForSampleSize, ReportFormats, ReportCompletesW.  /repo does not meet six strong forms: each is pinned
behind a model switch (FALSE = /repo) with a self-test cfg and shown as a note, never as a failure: ReportCompletes (AllToleratesAbsent:
show-in-report=all with a task without throughput raises TypeError), PercentilesForced (ForceEmptyPercentiles), NothingForAbsent +
CsvEqualsMarkdown (SkipEmptyLines: empty table line for a None ML / transform statistic), FileIsReport (ReportFileTruncated: an existing
report file is appended to), FileCreated (RelativeToRallyCwd: a relative --report-file with directories ignores rally.cwd).

Leg M   : TLC on Summary.quick.cfg (code as it is; state dump = test table), Summary.repaired.cfg (switches TRUE: strong clauses hold),
          5 self-tests (one switch FALSE -> its strong invariant is violated in the model); thorough: Summary.thorough.cfg.
Leg S2C : every TLC state = real metrics.GlobalStats(d) rendered by the REAL reporter.summarize() as csv and markdown (console
          captured, report files in a scratch directory: rally.cwd and the process's working directory differ, fresh and existing file,
          4 alignments); percentiles_for_sample_size at the class boundaries; unknown report formats.
Leg C2S : those runs and seeded random structures (independent value per slot, D = 10^6 and 10^3, random task / job orders) are
          parsed back into rows and validated by TLC against TraceSummary.tla (L1 clauses, L2 = the transcription CodeRows / CodeMd /
          CodeWarn / CodeHeaders / CodeAt / InFlat); runs that differ from the transcription of the code as it is are re-validated with
          one switch flipped (tells a repaired tree from a broken one); a hand-made recording and ten corrupted copies check the binding.
"""
import contextlib
import copy
import csv
import io
import os
import random
import re
import shutil
import time
from fractions import Fraction

from .. import tlc, tracecheck
from ..core import Violation
from ..tlaparse import parse_dump, parse_value, to_json

SPEC = "Summary"
WORKERS = 4
NA = -2000000000
BAD = NA - 1
MAXINT = 2**31 - 2
HEADER = ["Metric", "Task", "Value", "Unit"]
SWITCHES = ("AllToleratesAbsent", "ForceEmptyPercentiles", "SkipEmptyLines", "ReportFileTruncated", "RelativeToRallyCwd")
# strong L1 clauses which the code as it is does not meet: clause -> (model switch that repairs it, what happens)
PINNED = {
    "ReportCompletes": ("AllToleratesAbsent", "--show-in-report=all with a task that has no throughput samples: summarize() raises TypeError ('%.2f' % None), no report at all"),
    "PercentilesForced": ("ForceEmptyPercentiles", "--show-in-report=all / all-percentiles: no percentile line at all for a task without latency / service time samples ('if value:' on the empty dict)"),
    "NothingForAbsent": ("SkipEmptyLines", "an ML / transform statistic that is None is rendered as an EMPTY table line (lines.append(self._line(..)) is not filtered)"),
    "FileIsReport": ("ReportFileTruncated", "an existing --report-file is appended to (mode 'a+'): the file holds two tables / a second csv header"),
    "CsvEqualsMarkdown": ("SkipEmptyLines", "a report that consists of empty lines only (None ML / transform statistics, nothing else recorded): csv keeps the empty lines, markdown shows none of them"),
    "FileCreated": ("RelativeToRallyCwd", "--report-file with a relative directory part is NOT resolved against the directory Rally was started in (io.normalize_path joins only a bare file name with rally.cwd) but against the working directory of the reporting process"),
}
LINE_NAMES = {0: "table", -1: "csv report file", -2: "markdown report file", -3: "flat list", -4: "warnings", -5: "completion", -6: "markdown table", -7: "alignment"}

CUM_KEY = {"indexing": "total_time", "indexing throttle": "indexing_throttle_time", "merge": "merge_time", "merge throttle": "merge_throttle_time", "refresh": "refresh_time", "flush": "flush_time"}
XKEY = {"processing": "total_transform_processing_times", "index": "total_transform_index_times", "search": "total_transform_search_times", "throughput": "total_transform_throughput"}
DISK_KEY = {"inverted index": "disk_usage_inverted_index", "stored fields": "disk_usage_stored_fields", "doc values": "disk_usage_doc_values", "points": "disk_usage_points", "norms": "disk_usage_norms", "term vectors": "disk_usage_term_vectors", "total": "disk_usage_total"}
PCT_GROUPS = ("latency", "service_time", "processing_time")
DISK_INDEX = "idx"
_ANSI = re.compile(r"\x1b\[[0-9;]*m")


def pkey(p):
    """percentile name of the spec ("99.9") -> key of the stored dict ("99_9")"""
    return str(float(p)).replace(".", "_")


# ---------------------------------------------------------------------------------------------------
# slot table (defined in Summary.tla, printed by MC_Summary)
# ---------------------------------------------------------------------------------------------------
def slots_from_tlc(res):
    out = res.out
    m = re.search(r'<<\s*"SLOTS"', out)
    if not m:
        raise tlc.MachineryError("slot table not printed by TLC")
    at = m.start()
    depth, i = 0, at
    while i < len(out):
        if out.startswith("<<", i):
            depth += 1
            i += 2
            continue
        if out.startswith(">>", i):
            depth -= 1
            i += 2
            if depth == 0:
                break
            continue
        i += 1
    slots = [to_json(s) for s in parse_value(out[at:i])[1]]
    if len(slots) < 100 or any(set(s) != {"g", "e", "k", "s", "name", "task", "unit", "fmt", "num", "den"} for s in slots):
        raise tlc.MachineryError("unexpected slot table (%d slots)" % len(slots))
    return slots


def flat_key(slot):
    """(name, entity, key) of the as_flat_list() leaf that carries the slot's value"""
    g, e, k, s = slot["g"], slot["e"], slot["k"], slot["s"]
    if g == "cum":
        return (CUM_KEY[k] if s == "time" else k + "_count", None, "single")
    if g == "shard":
        return (CUM_KEY[k] + "_per_shard", None, s)
    if g == "gc":
        return ("%s_gc_%s" % (k, s), None, "single")
    if g == "size":
        return (k + "_size", None, "single")
    if g == "mem":
        return ("memory_" + k, None, "single")
    if g == "segments":
        return ("segment_count", None, "single")
    if g == "ingest":
        return ("ingest_pipeline_cluster_" + s, None, "single")
    if g == "ml":
        return ("ml_processing_time", "j%d" % e, s)
    if g == "transform":
        return (XKEY[s], "x%d" % e, "single")
    if g == "disk":
        return (DISK_KEY[s], "%s/%s" % (DISK_INDEX, k), "single")
    if g == "throughput":
        return ("throughput", "t%d" % e, s)
    if g in PCT_GROUPS:
        return (g, "t%d" % e, pkey(s))
    if g == "error_rate":
        return ("error_rate", "t%d" % e, "single")
    raise tlc.MachineryError("unknown slot group %r" % g)


def raw_value(slot, v, D):
    """value of the model (display unit over D; bytes for disk usage) -> what GlobalStats stores (ms, bytes, ratio ...)"""
    if v == NA:
        return None
    if slot["g"] == "disk":
        return int(v)
    x = Fraction(v, D) * slot["den"] / slot["num"]
    return int(x) if x.denominator == 1 else float(x)


def build_results(slots, R, D, rnd=None):
    """R = {"T": [task ids in schedule order], "J": [ML job / transform ids], "v": [value per slot]} -> dict in the layout
    GlobalStatsCalculator produces (lists for ML / transforms / disk usage, {} for absent per-shard and latency statistics)."""
    res = {"op_metrics": [], "ml_processing_time": []}
    for key in CUM_KEY.values():
        res[key + "_per_shard"] = {}
    for key in list(XKEY.values()) + list(DISK_KEY.values()):
        res[key] = []
    tasks = {e: {"task": "t%d" % e, "operation": "op%d" % e, "throughput": {"min": None, "mean": None, "median": None, "max": None, "unit": None},
                 "latency": {}, "service_time": {}, "processing_time": {}, "error_rate": 0.0, "duration": 1000 + e} for e in R["T"]}
    jobs = {e: {"job": "j%d" % e, "min": None, "mean": None, "median": None, "max": None, "unit": "ms"} for e in R["J"]}
    xf = {e: {} for e in R["J"]}
    disk = []
    for i, slot in enumerate(slots):
        g, e, k, s = slot["g"], slot["e"], slot["k"], slot["s"]
        x = raw_value(slot, R["v"][i], D)
        if g in ("ml", "transform"):
            if e not in jobs:
                continue
        elif e != 0 and e not in tasks:
            continue
        if g == "cum":
            res[CUM_KEY[k] if s == "time" else k + "_count"] = x
        elif g == "shard":
            if x is not None:
                d = res[CUM_KEY[k] + "_per_shard"]
                d[s] = x
                d["unit"] = "ms"
        elif g in ("gc", "size", "mem", "segments", "ingest"):
            res[flat_key(slot)[0]] = x
        elif g == "ml":
            jobs[e][s] = x
        elif g == "transform":
            xf[e][s] = {"id": "x%d" % e, "mean": x, "unit": slot["unit"]}
        elif g == "disk":
            if x is not None:
                disk.append((DISK_KEY[s], {"index": DISK_INDEX, "field": k, "value": x, "unit": "byte"}))
        elif g == "throughput":
            tasks[e]["throughput"][s] = x
            tasks[e]["throughput"]["unit"] = slot["unit"]
        elif g in PCT_GROUPS:
            if x is not None:
                d = tasks[e][g]
                d[pkey(s)] = x
        elif g == "error_rate":
            tasks[e]["error_rate"] = x
        else:
            raise tlc.MachineryError("unknown slot group %r" % g)
    if rnd is not None:
        rnd.shuffle(disk)  # the order of the recorded disk usage documents is arbitrary
    for key, doc in disk:
        res[key].append(doc)
    for e in R["T"]:
        for g in PCT_GROUPS:
            d = tasks[e][g]
            if d:
                d["mean"] = sum(d.values()) / len(d)
                d["unit"] = "ms"
        res["op_metrics"].append(tasks[e])
    for e in R["J"]:
        res["ml_processing_time"].append(jobs[e])
        for s, key in XKEY.items():
            res[key].append(xf[e][s])
    return res


# ---------------------------------------------------------------------------------------------------
# projection of what the reporter prints / writes
# ---------------------------------------------------------------------------------------------------
def strip_ansi(s):
    return _ANSI.sub("", s)


def over_d(x, D):
    """number -> integer over D (BAD unless it is one up to float noise)"""
    try:
        y = Fraction(x) * D
    except (ValueError, ZeroDivisionError, OverflowError, TypeError):
        return BAD
    n = round(y)
    if abs(y - n) <= Fraction(1, 10**9) * max(1, abs(n)) and abs(n) < MAXINT:
        return int(n)
    return BAD


def cell_value(text, D):
    text = text.strip()
    if text == "":
        return NA
    if not re.match(r"^[+-]?(\d+\.?\d*|\.\d+)([eE][+-]?\d+)?$", text):
        return BAD
    return over_d(text, D)


def table_rows(text, fmt):
    """rendered table -> (number of header lines, data lines as lists of 4 stripped cells ([] = empty line))"""
    rows, headers = [], 0
    if fmt == "csv":
        for r in csv.reader(io.StringIO(text)):
            if r == HEADER:
                headers += 1
            else:
                rows.append([c for c in r])
        return headers, rows
    for ln in text.split("\n"):
        if not ln.startswith("|"):
            if ln.strip():
                rows.append(["?" + ln.strip()])
            continue
        cells = [c.strip() for c in ln.strip()[1:-1].split("|")]
        if cells == HEADER:
            headers += 1
        elif all(re.match(r"^:?-+:?$", c) for c in cells):
            continue
        else:
            rows.append(cells)
    return headers, rows


class Runner:
    def __init__(self, slots, base):
        from esrally import config, metrics, reporter
        from esrally.utils import console

        self.slots = slots
        self.by_label = {(s["name"], s["task"]): i + 1 for i, s in enumerate(slots)}
        self.by_flat = {flat_key(s): i + 1 for i, s in enumerate(slots)}
        if len(self.by_label) != len(slots) or len(self.by_flat) != len(slots):
            raise tlc.MachineryError("slot labels / flat keys are not unique")
        self.root = os.path.join(base, "cwd")  # the directory Rally was started in (node/rally.cwd)
        self.proc = os.path.join(base, "proc")  # the working directory of the process that reports
        self.n = 0
        self.metrics, self.reporter, self.config, self.console = metrics, reporter, config, console
        # what rally.main does before a race (colours on unless TERM=dumb)
        term = os.environ.get("TERM")
        os.environ["TERM"] = "xterm"
        console.init(quiet=False, assume_tty=True)
        if term is None:
            os.environ.pop("TERM")
        else:
            os.environ["TERM"] = term
        if console.format is not console.RichFormat:
            raise tlc.MachineryError("console colours could not be enabled")

    def cfg(self, mode, proc, fmt, path, align="decimal"):
        c = self.config.Config()
        S = self.config.Scope.application
        c.add(S, "system", "env.name", "verif")
        c.add(S, "node", "root.dir", self.root)
        c.add(S, "node", "rally.cwd", self.root)
        c.add(S, "reporting", "output.path", path)
        c.add(S, "reporting", "format", fmt)
        if align is not None:
            c.add(S, "reporting", "numbers.align", align)
        c.add(S, "reporting", "values", mode)
        c.add(S, "reporting", "output.processingtime", bool(proc))
        return c

    def summarize(self, results, cfg):
        """-> (exception name or "", table text on the console, warning lines)"""
        buf = io.StringIO()
        crash = ""
        with contextlib.redirect_stdout(buf):
            try:
                self.reporter.summarize(self.metrics.GlobalStats(copy.deepcopy(results)), cfg)
            except tlc.MachineryError:
                raise
            except Exception as ex:  # pylint: disable=broad-except
                crash = type(ex).__name__
        text = buf.getvalue()
        banner = self.reporter.FINAL_SCORE
        at = text.find(banner)
        if at < 0:
            raise tlc.MachineryError("banner not found in console output")
        nl = text.index("\n", at + len(banner))
        rest = text[nl + 1 :]
        m = re.search(r"^\[WARNING\]", rest, flags=re.M)
        table, warn = (rest[: m.start()], rest[m.start() :]) if m else (rest, "")
        if crash:
            return crash, "", []
        if not table.endswith("\n"):
            raise tlc.MachineryError("console table does not end with a newline")
        return crash, table[:-1], [ln for ln in warn.split("\n") if ln.strip()]  # print() appends one newline to the rendered table

    def project(self, cells, D):
        if not any(c.strip() for c in cells):
            return {"s": -1, "v": NA, "u": "", "n": ""}
        if len(cells) != 4:
            return {"s": 0, "v": BAD, "u": "", "n": "|".join(cells)[:120]}
        s = self.by_label.get((cells[0], cells[1]), 0)
        return {"s": s, "v": cell_value(cells[2], D), "u": cells[3], "n": "" if s else ("%s|%s" % (cells[0], cells[1]))[:120]}

    def report(self, results, mode, proc, fmt, again, D, kind):
        """one report with --report-file (kind: bare file name / relative path with directories / absolute path): console rows + file facts"""
        self.n += 1
        name = "report%d.%s" % (self.n, "csv" if fmt == "csv" else "md")
        rel = name if kind == "name" else os.path.join("out", "r%d" % self.n, "sub", name)
        for d in (self.root, self.proc):
            shutil.rmtree(d, ignore_errors=True)
            os.makedirs(d)
        cfg = self.cfg(mode, proc, fmt, os.path.join(self.root, rel) if kind == "abs" else rel)
        here = os.getcwd()
        os.chdir(self.proc)
        try:
            if again:
                self.summarize(results, cfg)
            crash, table, warn = self.summarize(results, cfg)
        finally:
            os.chdir(here)
        chdr, rows = table_rows(table, fmt)
        found = [os.path.join(dp, fn) for d in (self.root, self.proc) for dp, _dn, fns in os.walk(d) for fn in fns]
        at = "cwd" if found == [os.path.join(self.root, rel)] else "proc" if found == [os.path.join(self.proc, rel)] else "none" if not found else None
        if at is None:
            raise tlc.MachineryError("the reporter wrote somewhere else than the report path: %s" % found)
        facts = {"at": at, "eq": False, "tail": False, "esc": 0, "nhdr": 0, "chdr": chdr, "nrows": 0}
        if found:
            with open(found[0], "r", encoding="utf-8", newline="") as f:
                ftext = f.read()
            plain = strip_ansi(table)
            if fmt == "csv":
                plain = plain.replace("\r\n", "\n")
                ftext = ftext.replace("\r\n", "\n")
            facts["eq"] = ftext == plain
            facts["tail"] = ftext.endswith(plain) and len(plain) > 0
            facts["esc"] = ftext.count("\x1b")
            facts["nhdr"], frows = table_rows(ftext, fmt)
            facts["nrows"] = len(frows)
        return crash, [self.project(r, D) for r in rows], rows, facts, warn

    def warnings(self, lines):
        res = []
        for ln in lines:
            m = re.match(r"^\[WARNING\] Error rate is \S+ for operation 't(\d)'\. Please check the logs\.$", ln)
            if m:
                res.append([int(m.group(1)), "error"])
                continue
            m = re.match(r"^\[WARNING\] No throughput metrics available for \[t(\d)\]\. Likely cause: (.*)$", ln)
            if m:
                res.append([int(m.group(1)), "nothroughput:errors" if m.group(2).startswith("Error rate is") else "nothroughput:warmup" if "during warmup" in m.group(2) else "nothroughput:?"])
                continue
            res.append([0, "other"])
        return res

    def flat(self, results, D):
        n = len(self.slots)
        c, v, extra = [0] * n, [NA] * n, 0
        for doc in self.metrics.GlobalStats(copy.deepcopy(results)).as_flat_list():
            ent = doc.get("task") or doc.get("job") or doc.get("id") or ("%s/%s" % (doc["index"], doc["field"]) if "index" in doc else None)
            for key, val in doc["value"].items():
                if isinstance(val, bool) or not isinstance(val, (int, float)):
                    continue
                s = self.by_flat.get((doc["name"], ent, key))
                if not s:
                    extra += 1
                    continue
                slot = self.slots[s - 1]
                c[s - 1] += 1
                if slot["g"] == "disk":
                    v[s - 1] = int(val) if val == int(val) and abs(val) < MAXINT else BAD
                else:
                    v[s - 1] = over_d(Fraction(val) * slot["num"] / slot["den"], D)
        return {"c": c, "v": v}, extra

    def run(self, R, mode, proc, again, path, D, align=False, rnd=None):
        """One results structure through summarize(): item fields for TraceSummary.tla."""
        results = build_results(self.slots, R, D, rnd)
        crash, rows, cells, fcsv, warn = self.report(results, mode, proc, "csv", again, D, path)
        crash2, md, mdcells, fmd, warn2 = self.report(results, mode, proc, "markdown", again, D, path)
        if crash != crash2 or warn != warn2:
            raise tlc.MachineryError("csv and markdown runs differ in outcome: %r / %r" % ((crash, warn), (crash2, warn2)))
        al = {"right": True, "center": True, "left": True}
        if align and not crash:
            for a in sorted(al) + [None]:
                _c, table, _w = self.summarize(results, self.cfg(mode, proc, "markdown", "", a))
                other = table_rows(table, "markdown")[1]
                if a is None:  # numbers.align is optional, default decimal
                    al["right"] = al["right"] and other == mdcells
                else:
                    al[a] = other == mdcells
        flat, fx = self.flat(results, D)
        return {"kind": "report", "mode": mode, "proc": bool(proc), "again": bool(again), "path": path, "R": {"T": list(R["T"]), "J": list(R["J"]), "v": list(R["v"])},
                "crash": crash, "rows": rows, "md": md, "fcsv": fcsv, "fmd": fmd, "flat": flat, "fx": fx, "warn": self.warnings(warn), "al": al}, mdcells


# ---------------------------------------------------------------------------------------------------
# cases
# ---------------------------------------------------------------------------------------------------
def disk_exact(b, G):
    if b <= 1024:
        return True
    p = 1024 if b <= 2**20 else 2**20 if b <= 2**30 else 2**30
    return b % (p // G) == 0


def random_case(rnd, slots, D):
    """independent value per slot; D = 10^6: fine-grained numbers, D = 10^3: wide numbers (exponent notation in markdown)"""
    G = 64 if D % 64 == 0 else 8
    T = rnd.sample([1, 2, 3], rnd.choice([0, 1, 1, 2, 2, 3, 3]))
    J = rnd.sample([1, 2, 3], rnd.choice([0, 0, 1, 2, 3]))
    mode = rnd.choice(["available", "available", "all-percentiles", "all"])
    p_na = rnd.choice([0.0, 0.1, 0.3, 0.6])
    lists_complete = rnd.random() < 0.7  # Rally itself never stores None in ML / transform statistics
    tp_complete = rnd.random() < (0.7 if mode == "all" else 0.3)
    lim = 2147000000  # value * D stays below 2^31 also after rounding up: D = 10^3 reaches 2.1 million display units

    def number():
        k = rnd.random()
        if k < 0.15:
            return 0
        if k < 0.3:
            return rnd.randint(1, 60)  # around / below the printing resolution
        if k < 0.45:
            return rnd.randint(1, 99) * (D // 100) + rnd.choice([0, D // 200, D // 200 - 1, D // 200 + 1])  # around "%.2f" ties
        if k < 0.6:
            return rnd.randint(1, lim // D) * D
        return rnd.randint(1, lim)

    def disk_bytes():
        k = rnd.random()
        if k < 0.15:
            return 0
        if k < 0.4:
            return rnd.choice([rnd.randint(1, 1024), 1023, 1024])
        u = rnd.choice([1024, 2**20, 2**30])
        hi = min(1024 * G, (2**31 - 2) // (u // G))
        b = rnd.randint(G, hi) * (u // G)
        return rnd.choice([b, u + u // G, u * rnd.randint(1, min(1024, (2**31 - 2) // u))])

    v = []
    classes = {}
    for slot in slots:
        g = slot["g"]
        if g == "error_rate":
            v.append(0 if rnd.random() < 0.5 else rnd.randint(1, 100 * D))
            continue
        na = rnd.random() < p_na
        if g in ("ml", "transform") and lists_complete:
            na = False
        if g == "throughput" and tp_complete:
            na = False
        if g in PCT_GROUPS:
            key = (slot["e"], g)
            if key not in classes:
                classes[key] = rnd.choice([0, 0, 1, 2, 3, 4, 5, 6, 6, 7])  # 7: arbitrary subset
            c = classes[key]
            allowed = {0: [], 1: ["100"], 2: ["50", "100"], 3: ["50", "90", "100"], 4: ["50", "90", "99", "100"], 5: ["50", "90", "99", "99.9", "100"]}.get(c)
            na = (na and c == 7) or (allowed is not None and slot["s"] not in allowed)
        if na:
            v.append(NA)
        elif g == "disk":
            b = disk_bytes()
            v.append(b if disk_exact(b, G) else (b // 1024) * 1024 if b < 2**30 else 2**30)
        else:
            v.append(number())
    for x, slot in zip(v, slots):
        if slot["g"] == "disk" and x != NA and not disk_exact(x, G):
            raise tlc.MachineryError("random disk value %d is not exactly displayable" % x)
    return {"T": T, "J": J, "v": v}, mode, rnd.random() < 0.5, rnd.random() < 0.3, rnd.choice(["name", "rel", "abs"])


def trace_cfg(D, flip=None):
    return "SPECIFICATION TSpec\nCONSTANTS\n  Vals <- NoVals\n  D = %d\n  Variants = {}\n%sCHECK_DEADLOCK FALSE\n" % (
        D, "".join("  %s = %s\n" % (sw, "TRUE" if sw == flip else "FALSE") for sw in SWITCHES))


def describe(item, line, slots):
    if line > 0:
        s = slots[line - 1]
        x = item["R"]["v"][line - 1]
        row = next((r for r in item["rows"] if r["s"] == line), None)
        return "line %r task %r: stored %s, row %s" % (s["name"], s["task"], "None" if x == NA else x, row)
    return LINE_NAMES.get(line, str(line))


class Check:
    def __init__(self, ctx, out, runner, slots):
        self.ctx, self.out, self.runner, self.slots = ctx, out, runner, slots
        self.stats = {"runs": 0, "crashed": 0, "rows": 0, "empty_lines": 0, "undefined_cells": 0, "zero_cells": 0, "warnings": 0, "appended": 0,
                      "aligned": 0, "exponent_cells": 0, "rounded_md_cells": 0, "l1": {}, "modes": {}}
        self.new = {}

    def make_item(self, iid, R, mode, proc, again, path, D, align=False, rnd=None):
        it, mdcells = self.runner.run(R, mode, proc, again, path, D, align, rnd)
        it["id"] = iid
        st = self.stats
        st["runs"] += 1
        st["modes"][mode] = st["modes"].get(mode, 0) + 1
        st["crashed"] += bool(it["crash"])
        st["rows"] += len(it["rows"])
        st["empty_lines"] += sum(1 for r in it["rows"] if r["s"] == -1)
        st["undefined_cells"] += sum(1 for r in it["rows"] if r["s"] > 0 and r["v"] == NA)
        st["zero_cells"] += sum(1 for r in it["rows"] if r["s"] > 0 and r["v"] == 0)
        st["warnings"] += len(it["warn"])
        st["appended"] += it["fcsv"]["nhdr"] > 1
        st["aligned"] += bool(align and not it["crash"])
        st["exponent_cells"] += sum(1 for r in mdcells if len(r) == 4 and "e+" in r[2])
        st["rounded_md_cells"] += sum(1 for a, b in zip(it["rows"], it["md"]) if a["v"] != b["v"] and a["v"] > NA and b["v"] > NA)
        return it

    def validate(self, items, D, name):
        t0 = time.time()
        v = tracecheck.validate(SPEC, "TraceSummary", "TraceSummary.cfg", items, name=name, chunk=120, cfg_text=trace_cfg(D), timeout=900)
        self.out.note("C2S %s: %d runs validated by TLC in %.1fs" % (name, len(items), time.time() - t0))
        index = {it["id"]: it for it in items}
        bad = set(v.l2)
        for tid, fails in sorted(v.l1.items()):
            it = index[tid]
            clauses = sorted({c for _, cl in fails for c in cl})
            for c in clauses:
                self.stats["l1"][c] = self.stats["l1"].get(c, 0) + 1
            fresh = [c for c in clauses if c not in PINNED]
            if it["kind"] != "report":
                bad.add(tid)
                self.new.setdefault(",".join(clauses), {"n": 0, "size": 0, "violation": Violation(",".join(clauses), it, signature={"clauses": clauses}, detail=str(it))})["n"] += 1
                continue
            size = len(it["R"]["T"]) + len(it["R"]["J"]) + sum(1 for sl, x in zip(self.slots, it["R"]["v"]) if x != NA and (sl["e"] == 0 or sl["e"] in it["R"]["J" if sl["g"] in ("ml", "transform") else "T"]))
            case = {"R": it["R"], "mode": it["mode"], "proc": it["proc"], "again": it["again"], "path": it["path"], "D": D}
            if fresh:
                bad.add(tid)
                key = ",".join(fresh)
                rec = self.new.setdefault(key, {"n": 0, "size": None, "violation": None})
                rec["n"] += 1
                if rec["size"] is None or size < rec["size"]:
                    ln = min(l for l, cl in fails if any(c in fresh for c in cl))
                    rec["size"] = size
                    rec["violation"] = Violation(key, case, signature={"clauses": fresh, "mode": it["mode"]}, detail="run %s, %s" % (tid, describe(it, ln, self.slots)))
            for c in clauses:
                if c not in PINNED:
                    continue
                rec = self.out.extra.setdefault("pinned_behaviour_observed", {}).setdefault(c, {"switch": PINNED[c][0], "what": PINNED[c][1], "runs": 0, "example": None, "size": None})
                rec["runs"] += 1
                if rec["example"] is None or size < rec["size"]:
                    ln = min(l for l, cl in fails if c in cl)
                    rec["size"] = size
                    rec["example"] = {"run": tid, "where": describe(it, ln, self.slots), "mode": it["mode"], "again": it["again"], "path": it["path"], "tasks": it["R"]["T"], "jobs": it["R"]["J"],
                                      "recorded": {("%s|%s" % (sl["name"], sl["task"])): x for sl, x in zip(self.slots, it["R"]["v"])
                                                   if x != NA and (sl["e"] == 0 or sl["e"] in it["R"]["J" if sl["g"] in ("ml", "transform") else "T"])}}
        self.out.traces_validated += len(items) - len(bad)
        drifted = [index[tid] for tid in sorted(v.l2)]
        if drifted:
            self.explain_drift(drifted, D)
        for tid, lines in sorted(v.l2.items()):
            it = index[tid]
            what = sorted({describe(it, ln, self.slots) for ln in lines})
            self.out.drift.append("run %s (mode %s, tasks %s): %s differ(s) from the transcription of SummaryReporter (Summary.tla CodeRows, code as it is)" % (tid, it["mode"], it["R"]["T"], "; ".join(what[:3])[:500]))
        return v

    def explain_drift(self, items, D):
        """do the runs that are not the transcription of the code as it is fit a variant with one switch flipped (repaired tree)?"""
        for sw in SWITCHES:
            v = tracecheck.validate(SPEC, "TraceSummary", "TraceSummary.cfg", copy.deepcopy(items[:40]), name="xsvariant", cfg_text=trace_cfg(D, sw), timeout=300)
            if not v.l2:
                self.out.drift.append("the %d runs that differ from the transcription of the code as it is are all accepted with %s = TRUE: this behaviour seems to have been repaired; switch the cfgs of specs/Summary over" % (min(len(items), 40), sw))
                return


# ---------------------------------------------------------------------------------------------------
def binding_selftest(out, slots, D):
    picks = [i for i, sl in enumerate(slots) if sl["g"] in ("cum", "shard") and sl["unit"] == "min"][:5]
    values = [0, 500000, 0, 1250000, 999999]
    v = [NA] * len(slots)
    rows = []
    for i, x in zip(picks, values):
        v[i] = x
        rows.append({"s": i + 1, "v": x, "u": "min", "n": ""})
    facts = {"at": "cwd", "eq": True, "tail": True, "esc": 0, "nhdr": 1, "chdr": 1, "nrows": len(rows)}
    base = {"kind": "report", "id": "bind-ok", "mode": "available", "proc": False, "again": False, "path": "name", "R": {"T": [], "J": [], "v": v}, "crash": "",
            "rows": rows, "md": copy.deepcopy(rows), "fcsv": dict(facts), "fmd": dict(facts), "flat": {"c": [1 if x != NA else 0 for x in v], "v": list(v)}, "fx": 0, "warn": [],
            "al": {"right": True, "center": True, "left": True}}
    muts = [(base, None)]

    def mutant(name, clause):
        m = copy.deepcopy(base)
        m["id"] = name
        muts.append((m, clause))
        return m

    m = mutant("bind-drop", "PresentOnce")  # the first line with value 0 is missing
    del m["rows"][0]
    del m["md"][0]
    m["fcsv"]["nrows"] = m["fmd"]["nrows"] = 4
    m = mutant("bind-swap", "RowOrder")
    m["rows"][1], m["rows"][2] = m["rows"][2], m["rows"][1]
    m["md"][1], m["md"][2] = m["md"][2], m["md"][1]
    m = mutant("bind-value", "ValueConverted")
    m["rows"][3]["v"] += 1
    m["md"][3]["v"] += 1
    m = mutant("bind-unit", "UnitShown")
    m["rows"][1]["u"] = m["md"][1]["u"] = "s"
    m = mutant("bind-extra", "NothingForAbsentW")  # a line for a metric that is not recorded
    extra = next(i for i, sl in enumerate(slots) if sl["g"] == "gc")
    m["rows"].append({"s": extra + 1, "v": NA, "u": "", "n": ""})
    m["md"].append({"s": extra + 1, "v": NA, "u": "", "n": ""})
    m["fcsv"]["nrows"] = m["fmd"]["nrows"] = 6
    m = mutant("bind-md", "CsvEqualsMarkdown")
    m["md"][4]["v"] = 1000000
    m = mutant("bind-flat", "FlatAgrees")
    m["flat"]["c"][picks[1]] = 2
    m = mutant("bind-file", "FilePlain")
    m["fmd"]["esc"] = 4
    m = mutant("bind-tail", "FileEndsWithReport")
    m["fcsv"]["tail"] = m["fcsv"]["eq"] = False
    m = mutant("bind-warn", "Warnings")
    m["warn"] = [[1, "error"]]
    v = tracecheck.validate(SPEC, "TraceSummary", "TraceSummary.cfg", [x for x, _ in muts], name="xsbind", cfg_text=trace_cfg(D))
    for x, clause in muts:
        got = {c for _, cl in v.l1.get(x["id"], []) for c in cl}
        if clause is None:
            if got or x["id"] in v.l2:
                raise tlc.MachineryError("binding self-test failed: the hand-made recording is rejected (L1 %s, L2 %s)" % (sorted(got), v.l2.get(x["id"])))
        elif clause not in got or x["id"] not in v.l2:
            raise tlc.MachineryError("binding self-test failed: corrupted recording %s not rejected (L1 %s, L2 %s)" % (x["id"], sorted(got), x["id"] in v.l2))
    out.extra["binding_selftest"] = ("a hand-made recording is accepted by TLC; copies with a dropped zero line, two swapped lines, a changed value, a changed unit, a line for an "
                                     "absent metric, a different markdown value, a doubled flat entry, a coloured file, a file that does not end with the report and a spurious warning are rejected (L1 clause + L2)")


# ---------------------------------------------------------------------------------------------------
_JOBS = [("Summary.repaired.cfg", None), ("Summary.selftest.crash.cfg", "InvCompletes"), ("Summary.selftest.percentiles.cfg", "InvPercentilesForced"),
         ("Summary.selftest.emptylines.cfg", "InvNothingForAbsent"), ("Summary.selftest.append.cfg", "InvHeaderOnce"), ("Summary.selftest.path.cfg", "InvFileCreated")]


def _run_cfg(cfg, dump=False, workers=2, timeout=600):
    wd = tlc.prepare_workdir(SPEC, "xsmc")
    kw = {"dump": os.path.join(wd, "states.dump")} if dump else {}
    res = tlc.run_tlc(wd, "MC_Summary", cfg, workers=workers, timeout=timeout, allow_violation=True, **kw)
    res.dump_path = kw.get("dump")
    return res


def run(ctx, out):
    from concurrent.futures import ThreadPoolExecutor

    out.rule = (
        "case = (results structure: tasks in schedule order, ML jobs / transforms, value or None per metric slot; --show-in-report mode; "
        "processing-time option; report file fresh / existing); distinct by hash; non-trivial = the report has at least one line. Sources: "
        "every state of the TLC state space of Summary.tla (S2C, exhaustive over the cfg's alphabets) and seeded random structures with an "
        "independent value per slot (C2S only)."
    )
    out.assumptions = [
        "results have the layout GlobalStatsCalculator produces: lists for ML / transform / disk usage statistics ({} / [] when absent), error_rate always a number; "
        "a GlobalStats built from a dict WITHOUT the transform / disk usage keys (None) makes summarize() raise TypeError - not reachable through `esrally race`, not modelled",
        "values are non-negative rationals with value * D < 2^31 (D = 10^6 or 10^3); a printed float is identified with the rational it prints up to 1e-9 relative "
        "(float noise of the unit conversion); exact '%.2f' / six-significant-digit rounding ties are accepted either way",
        "per-field disk usage values are exactly displayable in their human unit (multiples of 1/64 resp. 1/8 of the unit); one index",
        "markdown cell rendering is tabulate's ('%g': six significant digits, also for the '%.2f' strings, exponent notation from 10^6) as the sample reports in the docs show; "
        "alignment is compared on stripped cells only; console output = what console.println prints with a tty assumed (quiet mode / no tty not modelled)",
        "as_flat_list() is projected to its numeric leaves; leaves without a slot (duration, mean of latency ...) are only counted; meta data, operation names and units of the flat entries are not checked",
    ]
    # ---- Leg M
    tlc.scratch_root()
    main_cfg = "Summary.quick.cfg" if ctx.quick else "Summary.thorough.cfg"
    with ThreadPoolExecutor(3) as ex:
        fut_main = ex.submit(_run_cfg, main_cfg, True, WORKERS, 1500)
        futs = [(cfg, expect, ex.submit(_run_cfg, cfg)) for cfg, expect in _JOBS]
        res = fut_main.result()
        others = [(cfg, expect, f.result()) for cfg, expect, f in futs]
    out.add_tlc(res)
    if not res.ok:
        raise tlc.MachineryError("model violates %s in %s (model and code are supposed to agree on the unchanged tree): %s" % (res.invariant_violated, main_cfg, res.out[-1500:]))
    out.note("leg M %s: %d distinct states in %.1fs" % (main_cfg, res.distinct, res.wall_s))
    for cfg, expect, r in others:
        if expect is None:
            out.add_tlc(r)
            if not r.ok:
                raise tlc.MachineryError("model violates %s in %s: %s" % (r.invariant_violated, cfg, r.out[-1500:]))
            out.note("leg M %s (all switches TRUE, strong clauses): %d distinct states in %.1fs" % (cfg, r.distinct, r.wall_s))
        elif r.invariant_violated != expect:
            raise tlc.MachineryError("self-test failed: %s no longer violates %s" % (cfg, expect))
        else:
            out.extra.setdefault("model_selftests", []).append("%s violates %s in the model, as expected" % (cfg, expect))
    slots = slots_from_tlc(res)

    root = os.path.join(tlc.scratch("xsummary"), "base")
    os.makedirs(root, exist_ok=True)
    runner = Runner(slots, root)
    chk = Check(ctx, out, runner, slots)

    # ---- S2C: every evaluated TLC state is one results structure for the real reporter
    D = 1000000
    states = [st for st in parse_dump(res.dump_path + ".dump" if os.path.exists(res.dump_path + ".dump") else res.dump_path) if st["done"]]
    states.sort(key=lambda st: (st["variant"]["mode"], tuple(st["variant"]["T"]), tuple(st["variant"]["J"]), st["variant"]["shift"], st["variant"]["ss"], st["variant"]["proc"], st["variant"]["again"], st["variant"]["path"], sorted(st["variant"]["keep"]), tuple(st["pair"])))
    items = []
    agree = {"rows": 0, "crash": 0, "empty": 0, "undefined": 0, "warn": 0, "headers": 0}
    for k, st in enumerate(states):
        var = st["variant"]
        R = {"T": list(st["R"]["T"]), "J": list(st["R"]["J"]), "v": list(st["R"]["v"])}
        it = chk.make_item("s%d" % k, R, var["mode"], var["proc"], var["again"], var["path"], D, align=(k % 7 == 0))
        out.add_case((R, var["mode"], var["proc"], var["again"], var["path"]), nontrivial=bool(it["rows"]))
        items.append(it)
        # the model's own summary of the state (informational; the verdict is TLC's in leg C2S)
        mine = {"rows": len(it["rows"]), "crash": bool(it["crash"]), "empty": sum(1 for r in it["rows"] if r["s"] == -1), "undefined": sum(1 for r in it["rows"] if r["s"] > 0 and r["v"] == NA),
                "warn": len(it["warn"]), "headers": it["fcsv"]["nhdr"]}
        for key in agree:
            agree[key] += mine[key] == st["out"][key]
    out.exhaustive = True
    out.note("leg S2C: %d TLC states rendered by the real summarize() as csv + markdown (%d rows, %d runs raised); agreement with the model's summary per state: %s" % (len(items), chk.stats["rows"], chk.stats["crashed"], agree))
    pick = next((it for it in items if it["mode"] == "available" and len(it["R"]["T"]) == 2 and it["rows"]), items[0])
    out.sample({"source": "tlc state", "mode": pick["mode"], "tasks": pick["R"]["T"], "jobs": pick["R"]["J"], "rows": len(pick["rows"]),
                "first_rows": [[slots[r["s"] - 1]["name"] if r["s"] > 0 else r["n"], slots[r["s"] - 1]["task"] if r["s"] > 0 else "", r["v"], r["u"]] for r in pick["rows"][:6]]})
    # percentiles_for_sample_size: which percentiles exist for which sample size
    from esrally import metrics

    for n in (1, 2, 9, 10, 11, 99, 100, 999, 1000, 9999, 10000, 123456, 2147483647):
        items.append({"kind": "pss", "id": "pss%d" % n, "n": n, "ps": ["%s" % p for p in metrics.percentiles_for_sample_size(n)]})
    # --report-format: markdown and csv, anything else is refused
    some = build_results(slots, items[0]["R"], D)
    for k, fmt in enumerate(("markdown", "csv", "Markdown", "json", "")):
        crash = runner.summarize(some, runner.cfg("available", False, fmt, ""))[0]
        items.append({"kind": "fmt", "id": "fmt%d" % k, "fmt": fmt, "res": crash or "ok"})
    chk.validate(items, D, "xstrace")

    # ---- seeded random structures (C2S only)
    for gi, (Dr, n) in enumerate(((1000000, 70 if ctx.quick else 700), (1000, 50 if ctx.quick else 500))):
        rnd = random.Random(ctx.seed * 7919 + 31 + gi)
        ritems = []
        for k in range(n):
            R, mode, proc, again, path = random_case(rnd, slots, Dr)
            it = chk.make_item("r%d-%d" % (gi, k), R, mode, proc, again, path, Dr, align=(k % 10 == 0), rnd=rnd)
            out.add_case((R, mode, proc, again, path, Dr), nontrivial=bool(it["rows"]))
            ritems.append(it)
        chk.validate(ritems, Dr, "xsrnd%d" % gi)
    out.extra["runs"] = chk.stats
    st = chk.stats
    out.note("runs %d (modes %s): %d rows, %d raised, %d empty lines, %d undefined cells, %d zero cells, %d warnings, %d appended files, %d alignment comparisons, %d exponent cells, %d markdown cells rounded to 6 digits"
             % (st["runs"], st["modes"], st["rows"], st["crashed"], st["empty_lines"], st["undefined_cells"], st["zero_cells"], st["warnings"], st["appended"], st["aligned"], st["exponent_cells"], st["rounded_md_cells"]))
    for key in ("crashed", "empty_lines", "undefined_cells", "zero_cells", "warnings", "appended", "aligned", "exponent_cells", "rounded_md_cells"):
        if not st[key]:
            out.vacuous.append("no executed run exercised: " + key)

    # ---- binding self-test (independent of the implementation under test): a hand-made recording of a report with five lines of
    # cumulative times is accepted by TLC, its corrupted copies are rejected
    binding_selftest(out, slots, D)

    # ---- verdicts
    for key, rec in sorted(chk.new.items()):
        out.violations.append(rec["violation"])
        out.note("L1 FAILED %s in %d runs; smallest: %s %s" % (key, rec["n"], rec["violation"].detail, str(rec["violation"].case)[:300]))
    out.extra["l1_failures_by_clause"] = dict(sorted(chk.stats["l1"].items()))
    for c, rec in sorted(out.extra.get("pinned_behaviour_observed", {}).items()):
        rec.pop("size", None)
        out.note("pinned behaviour of /repo (strong clause %s fails in %d runs; model switch %s = FALSE): %s; smallest example %s" % (c, rec["runs"], rec["switch"], rec["what"], str(rec["example"])[:500]))
    missing = [c for c in PINNED if c not in out.extra.get("pinned_behaviour_observed", {})]
    if missing:
        out.note("pinned behaviour NOT observed on this tree (repaired?): %s" % missing)
    if out.vacuous:
        out.note("VACUOUS (kinds of runs this seed did not produce): %s" % out.vacuous)
    out.drift.sort(key=lambda d: 0 if "seems to have been repaired" in d else 1)
    if out.drift:
        out.note("MODEL-DRIFT in %d places, first: %s" % (len(out.drift), out.drift[0][:600]))
    shutil.rmtree(root, ignore_errors=True)
