"""Extra module TrackProcessors: what happens to a loaded track AFTER the reader (specs/TrackProcessors; esrally/track/loader.py
TrackProcessorRegistry, TaskFilter- (name filters only), ServerlessFilter-, TestModeTrackProcessor, DefaultTrackPreparator).
A track is an abstract record (corpora with document sets [bulk, n, archive / file name, sizes]; challenges with a schedule of tasks and
parallel elements, each leaf with clients, warmup-iterations / iterations / warmup-time-period / time-period / ramp-up-time-period absent or
given, throttle, operation type, run-on-serverless); every processor is a function on it.  Invariants (TLC + L1 on every run of the REAL
processors on real track.Track objects): ChallengesKept, OrderPreserved, NoEmptyParallel, ShapePreserved (no filter: schedule shape and task
names as loaded), LeafIdentity, CapsAreMins (iterations -> min(x, clients), warmup-time-period -> min(x, 0), time-period -> min(x, 10), absent
stays absent), RampUpNeverRaised, TestModeOffIdentity, ThrottleKept (throttled stays throttled, same unit, maxsize), CorporaCapped (bulk: min(n,
1000)), Suffix1k (-1k before the extensions, sizes dropped, <= 1000 untouched), Idempotent, FiltersCommute (task filter / serverless filter),
TestModeCommutes, ServerlessByStatus (status table; run-on-serverless overrides), ParallelsPublic, ServerlessOffSilent, ExcludedReported,
NoUndocumentedChange; registry: RequiredFirst (task filter, serverless filter, test mode), DefaultWhenNoCustom, CustomReplacesImplicitDefault,
StableReads, ReadsDoNotHarden, Injected (cfg / downloader / decompressor), NoopPrepare.  /repo does not meet two strong forms, each pinned behind a model switch
(FALSE = /repo), shown as notes: RampUpWithinWarmup (ResetRampUp), RegisteredKept (KeepExplicitDefault).  Part 3 (python-only oracle, no TLC):
DefaultTrackPreparator.on_prepare_track hands exactly the corpora used by the bulk tasks of the selected / default challenge to prepare_docs.

Leg M: TLC on TrackProcessors.quick.cfg (code as it is; dump = test table), .intended.cfg (switches TRUE: strong clauses hold), 2 self-tests.
Leg S2C: every TLC input built as real track.Track objects and run through the REAL processors (order taken from the REAL registry).
Leg C2S: those runs and seeded random tracks (all serverless-relevant operation types, up to 3 challenges, nested parallels, odd file names)
validated by TLC against TraceTrackProcessors.tla (L1 clauses, L2 = the transcription Code / GCode); corrupted recordings check the binding.
"""
import copy
import json
import os
import random
import re
import sys
from concurrent.futures import ThreadPoolExecutor

from .. import tlc, tracecheck
from ..core import Violation
from ..tlaparse import parse_dump, to_json

SPEC = "TrackProcessors"
ABSENT = -1
PINNED = {
    "RampUpWithinWarmup": ("ResetRampUp", "test mode sets warmup-time-period to 0 but keeps ramp-up-time-period: the reader's rule 'warmup-time-period >= ramp-up-time-period' no longer holds and the last client of the task still waits ramp-up * (n-1)/n seconds (docs: 'time-period-based tasks run at most for 10 seconds without warmup')"),
    "RegisteredKept": ("KeepExplicitDefault", "a DefaultTrackPreparator that a track plugin registers BEFORE its first custom processor is silently dropped by that later registration (registered after it, it is kept): docs 'Multiple TrackProcessors can be registered this way, and will be invoked sequentially'"),
}
SELFTESTS = [("TrackProcessors.pinned.rampup.cfg", "IRampUpWithinWarmup"), ("TrackProcessors.pinned.registered.cfg", "IRegisteredKept")]
INFO0 = {"par": 0, "excl": []}
# VERIF_TRACKPROCESSORS_REPAIRED=1: validate against the model with both switches TRUE (a tree that carries the two proposed patches)
TRACE_CFG = "TraceTrackProcessors.repaired.cfg" if os.environ.get("VERIF_TRACKPROCESSORS_REPAIRED") else "TraceTrackProcessors.cfg"

# ------------------------------------------------------------------ abstract record -> real objects


class _Cfg:
    """the few keys the processors read; anything else is a KeyError (a new dependency of the code shows up as a machinery failure)"""

    def __init__(self, c):
        self.v = {
            ("track", "test.mode.enabled"): c["tm"],
            ("driver", "serverless.mode"): c["sl"] != "off",
            ("driver", "serverless.operator"): c["sl"] == "operator",
            ("system", "offline.mode"): True,
        }
        if c["fmode"] == "include":
            self.v[("track", "include.tasks")] = list(c["fn"])
        elif c["fmode"] == "exclude":
            self.v[("track", "exclude.tasks")] = list(c["fn"])

    def opts(self, section, key, default_value=None, mandatory=True):
        if (section, key) in self.v:
            return self.v[(section, key)]
        if section == "track" and key in ("include.tasks", "exclude.tasks") or not mandatory:
            return default_value
        raise KeyError("config key %s/%s is not provided by the harness" % (section, key))


def _opt(v):
    return None if v == ABSENT else v


def doc_names(ci, di, d):
    """(file, archive, file-1k, archive-1k) of a document set; the -1k forms are the documented ones (suffix before the extensions)"""
    stem, ext2, ext = d.get("nm", ["docs-%d-%d" % (ci, di), ".json", ".bz2"])
    f, f1 = stem + ext2, stem + "-1k" + ext2
    return (f, f + ext, f1, f1 + ext) if d["arch"] != "none" else (f, None, f1, None)


def throttle_params(l):
    return {"none": {}, "zero": {"target-throughput": 0}, "str": {"target-throughput": "5 docs/s"}, "num": {"target-throughput": 5}, "ival": {"target-interval": 2}}[l["tt"]]


class Rt:
    def __init__(self):
        from esrally.track import loader, track  # the modules under test ($VERIF_REPO)

        self.loader, self.track = loader, track

    def build(self, a):
        t = self.track
        corpora = []
        for ci, c in enumerate(a["corpora"]):
            docs = []
            for di, d in enumerate(c["docs"]):
                f, ar, _f1, _a1 = doc_names(ci, di, d)
                docs.append(t.Documents("bulk" if d["bulk"] else "percolator-queries", document_file=f, document_archive=ar, base_url="http://localhost/x", number_of_documents=d["n"],
                                        compressed_size_in_bytes=_opt(d["csz"]), uncompressed_size_in_bytes=_opt(d["usz"]), target_index="idx", meta_data={"k": di}))  # fmt: skip
            corpora.append(t.DocumentCorpus(c["name"], docs, meta_data={"corpus": ci}))
        chs = []
        for hi, ch in enumerate(a["chs"]):
            sched = []
            for e in ch["sched"]:
                leaves = []
                for l in e["tasks"]:
                    op_params = {"index": "idx", "bulk-size": 100}
                    if l["ros"] != "unset":
                        op_params["run-on-serverless"] = l["ros"] == "yes"
                    op = t.Operation("op-" + l["name"], l["op"], meta_data={"m": 1}, params=op_params)
                    spec = dict({"operation": "op-" + l["name"], "clients": l["cl"], "x-custom": [1, 2]}, **throttle_params(l))
                    leaves.append(t.Task(l["name"], op, tags=["t1"], meta_data={"tm": l["name"]}, warmup_iterations=_opt(l["wi"]), iterations=_opt(l["it"]), warmup_time_period=_opt(l["wtp"]),
                                         time_period=_opt(l["tp"]), ramp_up_time_period=_opt(l["ru"]), clients=l["cl"], params=spec))  # fmt: skip
                sched.append(t.Parallel(leaves) if e["par"] else leaves[0])
            chs.append(t.Challenge(ch["name"], description="d", default=hi == 0, meta_data={"c": hi}, schedule=sched))
        return t.Track("trk", description="d", meta_data={"t": 1}, challenges=chs, corpora=corpora)

    def processors(self, cfg, order):
        if order is None:
            return list(self.loader.TrackProcessorRegistry(cfg).processors)  # Rally's own order, as _load_single_track uses it
        cls = {"tf": self.loader.TaskFilterTrackProcessor, "sl": self.loader.ServerlessFilterTrackProcessor, "tm": self.loader.TestModeTrackProcessor}
        return [cls[s](cfg) for s in order]

    def apply(self, trk, a, order=None):
        """-> [] or the exception that ended the run (a processor that raises on a reader-valid track is an undocumented change)"""
        try:
            for p in self.processors(_Cfg(a["cfg"]), order):
                p.on_after_load_track(trk)
        except Exception as ex:  # pylint: disable=broad-except
            return ["raised %s: %s" % (type(ex).__name__, str(ex)[:200])]
        return []

    # -------------------------------------------------------------- real objects -> abstract record
    def project(self, trk, a):
        flags = []
        corpora = []
        for ci, c in enumerate(trk.corpora):
            docs = []
            for di, d in enumerate(c.documents):
                src = a["corpora"][ci]["docs"][di] if ci < len(a["corpora"]) and di < len(a["corpora"][ci]["docs"]) else None
                f, ar, f1, a1 = doc_names(ci, di, src) if src else ("?", "?", "?", "?")

                def cls(v, orig, k1):
                    return "none" if v is None else "orig" if v == orig else "1k" if v == k1 else "other:" + str(v)

                docs.append({"bulk": d.source_format == "bulk", "n": d.number_of_documents, "arch": cls(d.document_archive, ar, a1), "file": cls(d.document_file, f, f1),
                             "csz": ABSENT if d.compressed_size_in_bytes is None else d.compressed_size_in_bytes, "usz": ABSENT if d.uncompressed_size_in_bytes is None else d.uncompressed_size_in_bytes})  # fmt: skip
            corpora.append({"name": c.name, "docs": docs})
        chs = []
        for ch in trk.challenges:
            sched = []
            for e in ch.schedule:
                par = isinstance(e, self.track.Parallel)
                sched.append({"par": par, "tasks": [self.leaf(l) for l in (e.tasks if par else [e])]})
            info = {"par": 0, "excl": []}
            for s in ch.serverless_info:
                if s.startswith("Treating parallel task"):
                    info["par"] += 1
                elif s.startswith("Excluding ") and " as challenge [" in s:
                    info["excl"].append(re.findall(r"\[([^\]]*)\]", s.split(" as challenge [")[0]))
                else:
                    flags.append("info:" + s)
            chs.append({"name": ch.name, "sched": sched, "info": info})
        return {"corpora": corpora, "chs": chs}, flags

    @staticmethod
    def leaf(l):
        def num(v):
            return ABSENT if v is None else v

        tput, ival = l.params.get("target-throughput"), l.params.get("target-interval")
        tt, mu = "other", ""
        if tput is None and ival is None:
            tt = "none"
        elif tput is None:
            tt = "ival" if ival == 2 else "other"
        elif ival is None:
            if isinstance(tput, str) and tput.startswith(str(sys.maxsize) + " "):
                tt, mu = "max", tput.split(" ", 1)[1]
            elif tput == "5 docs/s":
                tt = "str"
            elif isinstance(tput, int) and not isinstance(tput, bool) and tput in (0, 5):
                tt = "zero" if tput == 0 else "num"
        ros = l.operation.params.get("run-on-serverless")
        return {"name": l.name, "op": l.operation.type, "ros": "unset" if ros is None else "yes" if ros is True else "no" if ros is False else "other", "cl": l.clients,
                "wi": num(l.warmup_iterations), "it": num(l.iterations), "wtp": num(l.warmup_time_period), "tp": num(l.time_period), "ru": num(l.ramp_up_time_period), "tt": tt, "mu": mu}  # fmt: skip

    def rest(self, trk):
        """everything of the track that the abstract record does not carry, keyed by the part it belongs to"""
        r = {"track": repr({k: v for k, v in vars(trk).items() if k not in ("challenges", "corpora")})}
        for ci, c in enumerate(trk.corpora):
            r["corpus/%d" % ci] = repr((c.name, c.meta_data))
            for di, d in enumerate(c.documents):
                r["doc/%d/%d" % (ci, di)] = repr((d.source_format, d.base_url, d.includes_action_and_meta_data, d.target_index, d.target_data_stream, d.target_type, d.meta_data))
        for hi, ch in enumerate(trk.challenges):
            r["ch/%d" % hi] = repr({k: v for k, v in vars(ch).items() if k not in ("schedule", "serverless_info")})
            for e in ch.schedule:
                par = isinstance(e, self.track.Parallel)
                for l in e.tasks if par else [e]:
                    skip = ("warmup_iterations", "iterations", "warmup_time_period", "time_period", "ramp_up_time_period", "clients", "name", "params", "operation")
                    r["leaf/%d/%s" % (hi, l.name)] = repr(({k: v for k, v in vars(l).items() if k not in skip}, {k: v for k, v in l.params.items() if not k.startswith("target-")},
                                                           vars(l.operation), par and e._clients))  # fmt: skip
        return r

    def run_pipeline(self, a):
        trk = self.build(a)
        before = self.rest(trk)
        raised = self.apply(trk, a)
        main, flags = self.project(trk, a)
        after = self.rest(trk)
        flags += raised + [k for k in after if after[k] != before.get(k)]
        raised = self.apply(trk, a)
        twice, f2 = self.project(trk, a)
        f2 += raised
        out = {"main": main, "twice": twice, "other": bool(flags + f2)}
        for key, order in (("sw", ["sl", "tf", "tm"]), ("tmf", ["tm", "tf", "sl"])):
            trk = self.build(a)
            raised = self.apply(trk, a, order)
            out[key], f3 = self.project(trk, a)
            out["other"] = out["other"] or bool(f3 + raised)
        return out, {"flags": (flags + f2)[:5]}

    def run_registry(self, a):
        lo = self.loader

        class C1(lo.TrackProcessor):
            def __init__(self):
                self.cfg, self.downloader, self.decompressor = None, None, None

        class C2(lo.TrackProcessor):
            def __init__(self):
                self.cfg = None

        cfg = _Cfg({"tm": True, "sl": "off", "fmode": "none", "fn": []})
        def registry(regs):
            reg = lo.TrackProcessorRegistry(cfg)
            for p in regs:
                if p == "R":
                    reg.processors  # pylint: disable=pointless-statement
                else:
                    reg.register_track_processor({"D": lo.DefaultTrackPreparator, "C1": C1, "C2": C2}[p]())
            return reg

        reg = registry(a["regs"])
        kinds = [(lo.TaskFilterTrackProcessor, "TF"), (lo.ServerlessFilterTrackProcessor, "SL"), (lo.TestModeTrackProcessor, "TM"), (lo.DefaultTrackPreparator, "D"), (C1, "C1"), (C2, "C2")]

        def kind(p):
            return next((k for c, k in kinds if type(p) is c), "other:" + type(p).__name__)

        first = list(reg.processors)
        procs = first
        for _ in range(a["reads"]):
            procs = list(reg.processors)
        inj = all((not hasattr(p, "cfg") or p.cfg is cfg) and (not hasattr(p, "downloader") or isinstance(p.downloader, lo.Downloader)) and (not hasattr(p, "decompressor") or isinstance(p.decompressor, lo.Decompressor)) for p in procs)
        noop = all(list(p.on_prepare_track(None, "/nonexistent")) == [(lo.TrackProcessor._noop, {})] for p in procs if kind(p) in ("TF", "SL", "TM", "C1", "C2"))
        nor = [kind(p) for p in registry([p for p in a["regs"] if p != "R"]).processors]
        return {"first": [kind(p) for p in first], "procs": [kind(p) for p in procs], "nor": nor, "inj": inj, "noop": noop}, {}


# ------------------------------------------------------------------ random tracks (not derived from TLC)

OPS = ["bulk", "search", "force-merge", "index-stats", "node-stats", "wait-for-recovery", "wait-for-snapshot-create", "wait-for-current-snapshots-create", "downsample", "cluster-health",
       "delete-snapshot-repository", "create-snapshot-repository", "create-snapshot", "restore-snapshot", "put-settings", "create-index-template", "delete-index-template", "shrink-index",
       "create-ilm-policy", "delete-ilm-policy", "raw-request", "composite", "create-index", "delete-index", "refresh", "sleep", "put-pipeline", "esql", "sql", "field-caps", "scroll-search",
       "paginated-search", "create-data-stream", "create-composable-template", "create-component-template", "create-transform", "transform-stats", "open-point-in-time", "my-custom-op", "Force-Merge"]  # fmt: skip
NAMES = ["a", "b", "c", "d", "e", "f", "g", "h"]
FILE_NAMES = [["documents", ".json", ".bz2"], ["docs.v2", ".json", ".gz"], ["sub/dir.x/docs", ".ndjson", ".zst"], ["noext", "", ".bz2"], ["docs", ".json", ".zip"], ["a-1k", ".json", ".bz2"], ["UPPER", ".JSON", ".BZ2"]]


def random_timing(rnd):
    k = rnd.choice(["none", "iter", "iter", "time", "time", "time"])
    t = {"wi": ABSENT, "it": ABSENT, "wtp": ABSENT, "tp": ABSENT, "ru": ABSENT}
    if k == "iter":
        if rnd.random() < 0.7:
            t["wi"] = rnd.choice([0, 1, 2, 3, 8, 100, 5000])
        if rnd.random() < 0.8:
            t["it"] = rnd.choice([0, 1, 2, 4, 8, 9, 1000])
    elif k == "time":
        if rnd.random() < 0.8:
            t["wtp"] = rnd.choice([0, 1, 10, 120, 600])
        if rnd.random() < 0.85:
            t["tp"] = rnd.choice([0, 1, 9, 10, 11, 300, 3600])
        if t["wtp"] != ABSENT and rnd.random() < 0.5:
            t["ru"] = rnd.choice([x for x in [0, 1, 10, 60, 600] if x <= t["wtp"]])
    return t


def random_leaf(rnd, name):
    l = {"name": name, "op": rnd.choice(OPS), "ros": rnd.choice(["unset"] * 6 + ["yes", "no"]), "cl": rnd.choice([1, 1, 2, 3, 8]), "tt": rnd.choice(["none"] * 4 + ["zero", "str", "num", "ival"]), "mu": ""}
    l.update(random_timing(rnd))
    return l


def random_input(rnd):
    chs = []
    all_names = []
    for hi in range(rnd.choice([1, 1, 2, 3])):
        names = rnd.sample(NAMES, rnd.choice([0, 1, 2, 3, 4, 5, 6, 8]))
        all_names += names
        sched = []
        while names:
            if rnd.random() < 0.35:
                k = rnd.choice([1, 2, 2, 3])
                sched.append({"par": True, "tasks": [random_leaf(rnd, n) for n in names[:k]]})
                names = names[k:]
            else:
                sched.append({"par": False, "tasks": [random_leaf(rnd, names[0])]})
                names = names[1:]
        chs.append({"name": "ch%d" % hi, "sched": sched, "info": dict(INFO0)})
    corpora = []
    for ci in range(rnd.choice([0, 1, 1, 2, 3])):
        docs = []
        for _ in range(rnd.choice([0, 1, 1, 2, 3])):
            sz = rnd.choice([[ABSENT, ABSENT], [123456, 987654321], [1, ABSENT], [ABSENT, 2_000_000_000]])
            docs.append({"bulk": rnd.random() < 0.8, "n": rnd.choice([0, 1, 999, 1000, 1001, 1002, 5000, 11_000_000]), "arch": rnd.choice(["none", "orig", "orig"]), "file": "orig", "csz": sz[0], "usz": sz[1], "nm": rnd.choice(FILE_NAMES)})
        corpora.append({"name": "corpus%d" % ci, "docs": docs})
    fmode = rnd.choice(["none", "none", "include", "exclude", "exclude"])
    pool = sorted(set(all_names)) + ["zz"]
    fn = [] if fmode == "none" else rnd.sample(pool, rnd.randint(1, min(3, len(pool))))
    return {"cfg": {"tm": rnd.random() < 0.6, "sl": rnd.choice(["off", "off", "public", "operator"]), "fmode": fmode, "fn": fn}, "corpora": corpora, "chs": chs}


def random_registry(rnd):
    return {"regs": [rnd.choice(["D", "C1", "C2", "R"]) for _ in range(rnd.randint(0, 7))], "reads": rnd.randint(1, 3)}


def strip_nm(a):
    """the file-name parts are a rendering detail (like spellings): TLC sees the abstract record only"""
    if "corpora" not in a:
        return a
    b = copy.deepcopy(a)
    for c in b["corpora"]:
        for d in c["docs"]:
            d.pop("nm", None)
    return b


# ------------------------------------------------------------------ part 3: DefaultTrackPreparator (python oracle)


def preparator_cases(rt, rnd, n, stats):
    """on_prepare_track yields one (prepare_docs, params) per corpus that a bulk task of the selected / default challenge uses, with exactly
    the bulk document sets those tasks reference (union over the tasks); prepare_docs hands only bulk document sets to the preparator."""
    t, lo = rt.track, rt.loader
    bad = []
    for k in range(n):
        corpora = []
        for ci in range(rnd.randint(1, 3)):
            docs = [t.Documents(rnd.choice(["bulk", "bulk", "other"]), document_file="d%d-%d.json" % (ci, di), number_of_documents=10 + di, target_index=rnd.choice(["i1", "i2"])) for di in range(rnd.randint(1, 3))]
            corpora.append(t.DocumentCorpus("c%d" % ci, docs))
        chs = []
        expected = {}
        n_ch = rnd.randint(1, 2)
        sel = rnd.randrange(n_ch) if rnd.random() < 0.5 else None
        for hi in range(n_ch):
            sched = []
            for ti in range(rnd.randint(0, 4)):
                if rnd.random() < 0.6:
                    cs = rnd.sample([c.name for c in corpora], rnd.randint(1, len(corpora)))
                    idx = rnd.choice([None, ["i1"], ["i2"]])
                    params = {"bulk-size": 10, "corpora": cs}
                    if idx:
                        params["indices"] = idx
                    op = t.Operation("b%d-%d" % (hi, ti), "bulk", params=params)
                    mine = hi == (sel if sel is not None else 0)
                    # the bulk parameter source refuses a task whose corpora have no matching bulk document set
                    hit = {c.name: [d for d in c.documents if d.is_bulk and (not idx or d.target_index in idx)] for c in corpora if c.name in cs}
                    if not any(hit.values()):
                        continue
                    if mine:
                        for cn, ds in hit.items():
                            if ds:
                                expected.setdefault(cn, set()).update(d.document_file for d in ds)
                else:
                    op = t.Operation("s%d-%d" % (hi, ti), "search", params={"index": "i1", "body": {}})
                leaf = t.Task(op.name, op)
                sched.append(t.Parallel([leaf]) if rnd.random() < 0.3 else leaf)
            chs.append(t.Challenge("ch%d" % hi, default=hi == 0, selected=hi == sel, schedule=sched))
        trk = t.Track("trk", challenges=chs, corpora=corpora)
        reg = lo.TrackProcessorRegistry(_Cfg({"tm": False, "sl": "off", "fmode": "none", "fn": []}))
        prep = [p for p in reg.processors if isinstance(p, lo.DefaultTrackPreparator)][0]
        try:
            calls = list(prep.on_prepare_track(trk, "/nonexistent"))
        except Exception as ex:  # pylint: disable=broad-except
            bad.append({"case": k, "error": "%s: %s" % (type(ex).__name__, ex)})
            continue
        got = {}
        ok = all(f is lo.DefaultTrackPreparator.prepare_docs and set(p) == {"cfg", "track", "corpus", "preparator"} and p["track"] is trk for f, p in calls)
        for _f, p in calls:
            ok = ok and p["corpus"].name not in got
            got[p["corpus"].name] = {d.document_file for d in p["corpus"].documents}

        class _Prep:
            def __init__(self):
                self.seen = []

            def prepare_document_set(self, document_set, data_root):
                self.seen.append(document_set)

            def prepare_bundled_document_set(self, document_set, data_root):
                self.seen.append(document_set)
                return True

        stats["prep_calls"] += len(calls)
        stats["prep_nonempty"] += bool(calls)
        if not ok or got != expected:
            bad.append({"case": k, "expected": {c: sorted(v) for c, v in expected.items()}, "got": {c: sorted(v) for c, v in got.items()}})
    return bad


# ------------------------------------------------------------------ TLC


def _run_tlc(cfg, name, dump=False, **kw):
    wd = tlc.prepare_workdir(SPEC, name)
    d = os.path.join(wd, "states") if dump else None
    res = tlc.run_tlc(wd, "MC_TrackProcessors", cfg, dump=d, **kw)
    res.wd = wd
    res.dump_path = (d + ".dump" if os.path.exists(d + ".dump") else d) if dump else None
    return res


def validate_parallel(items, name, size=2000, threads=4):
    """tracecheck.validate on slices of the items, up to four TLC processes (one worker each) at a time; verdicts merged"""
    parts = [items[i : i + size] for i in range(0, len(items), size)] or [[]]
    with ThreadPoolExecutor(threads) as ex:
        vs = list(ex.map(lambda p: tracecheck.validate(SPEC, "TraceTrackProcessors", TRACE_CFG, p, name=name, timeout=600), parts))
    v = vs[0]
    for w in vs[1:]:
        v.l1.update(w.l1)
        v.l2.update(w.l2)
        v.n_items += w.n_items
        v.n_events += w.n_events
    return v


def run_cases(rt, cases, out, label, stats):
    items, index = [], {}
    for ci, case in enumerate(cases):
        tid = "%s-%d" % (label, ci)
        r, info = rt.run_pipeline(case["a"]) if case["kind"] == "p" else rt.run_registry(case["a"])
        a = strip_nm(case["a"])
        out.add_case({"kind": case["kind"], "a": a}, nontrivial=True)
        stats["cases"] += 1
        if case["kind"] == "p":
            m = r["main"]
            before = sum(len(e["tasks"]) for ch in a["chs"] for e in ch["sched"])
            after = sum(len(e["tasks"]) for ch in m["chs"] for e in ch["sched"])
            for key, hit in (("test_mode", a["cfg"]["tm"]), ("serverless_dropped", any(ch["info"]["excl"] for ch in m["chs"])), ("task_filter_dropped", a["cfg"]["fmode"] != "none" and after < before),
                             ("parallel_emptied", a["cfg"]["fmode"] != "none" and sum(e["par"] for ch in a["chs"] for e in ch["sched"]) > sum(e["par"] for ch in m["chs"] for e in ch["sched"])),
                             ("challenge_emptied", any(ch["sched"] for ch in a["chs"]) and any(not m["chs"][i]["sched"] and a["chs"][i]["sched"] for i in range(min(len(m["chs"]), len(a["chs"]))))),
                             ("corpus_1k", any(d["file"] == "1k" for c in m["corpora"] for d in c["docs"])), ("capped_iterations", a["cfg"]["tm"] and json.dumps(a["chs"]) != json.dumps([dict(ch, info=INFO0) for ch in m["chs"]])),
                             ("throttle_max", any(l["tt"] == "max" for ch in m["chs"] for e in ch["sched"] for l in e["tasks"]))):  # fmt: skip
                stats[key] = stats.get(key, 0) + bool(hit)
        else:
            stats["registry"] = stats.get("registry", 0) + 1
        item = {"id": tid, "kind": case["kind"], "a": a, "r": r}
        if case.get("model") is not None:
            stats["s2c"] += 1
            stats["s2c_followed"] += json.dumps(case["model"], sort_keys=True) == json.dumps(r, sort_keys=True)
        items.append(item)
        index[tid] = (case, item, info)
    v = validate_parallel(items, "xtptrace")
    out.states += v.n_events
    out.transitions += v.n_events
    bad = set(v.l2) | {tid for tid, fails in v.l1.items() if any(c not in PINNED for _, cl in fails for c in cl)}
    out.traces_validated += max(0, v.n_items - len(bad))
    for tid, fails in sorted(v.l1.items()):
        case, item, info = index[tid]
        for _line, clauses in fails:
            for c in sorted(clauses):
                stats["l1"][c] = stats["l1"].get(c, 0) + 1
                if c in PINNED and tid in v.l2:
                    continue
                if c in PINNED:
                    rec = out.extra.setdefault("pinned_behaviour_observed", {}).setdefault(c, {"switch": PINNED[c][0], "what": PINNED[c][1], "cases": 0, "size": 10**9, "example": None})
                    rec["cases"] += 1
                    size = len(json.dumps(item["a"]))
                    if size < rec["size"]:
                        rec["size"] = size
                        rec["example"] = {"case": tid, "input": item["a"], "result": item["r"]["main"] if case["kind"] == "p" else item["r"]}
                elif len(out.violations) < 40:
                    out.violations.append(Violation(c, {"kind": case["kind"], "a": case["a"]}, {"kind": case["kind"]}, "clause %s fails on the recorded result %s (%s)" % (c, json.dumps(item["r"], sort_keys=True)[:700], info)))
    for tid in sorted(v.l2):
        case, item, info = index[tid]
        stats["l2"] += 1
        if len(out.drift) < 25:
            out.drift.append("case %s (%s): the recorded result is not the one of TrackProcessors.tla (code as it is): input %s -> recorded %s %s" % (tid, case.get("src", label), json.dumps(item["a"], sort_keys=True)[:500], json.dumps(item["r"].get("main", item["r"]), sort_keys=True)[:700], info))
    return items


def table_from_dump(path):
    table = []
    for st in parse_dump(path):
        st = to_json(st)
        if st["done"]:
            table.append({"kind": "g" if "regs" in st["in"] else "p", "a": st["in"], "model": st["res"], "src": "tlc"})
    table.sort(key=lambda c: json.dumps(c["a"], sort_keys=True))
    return table


def run(ctx, out):
    out.rule = (
        "case = abstract track (corpora / document sets, challenges / schedule / parallel elements / leaf tasks with timing properties) + processor configuration (test mode, serverless "
        "mode, name task filter), or a sequence of processor registrations; distinct by that input. Sources: every state of the TLC run (S2C, exhaustive for the configuration), seeded "
        "random tracks over wider alphabets (C2S only)."
    )
    out.exhaustive = True
    out.assumptions = [
        "tracks are built directly as track.Track / Challenge / Parallel / Task / Operation / DocumentCorpus / Documents objects as the reader would produce them (unique task names per challenge, no mix "
        "of iterations and time periods, ramp-up <= warmup-time-period, document_file always present); the projection back to the abstract record and the -1k file name oracle (suffix before the "
        "extensions) are trusted",
        "the config object is a stub that serves the six keys the processors read; the processors of the main run come from the REAL TrackProcessorRegistry.processors",
        "task filter: name filters only (type: / tag: filters are C11 / specs/TaskFilter); throttle spellings: '5 docs/s', 5, target-interval 2, 0",
        "not modelled: post_process_for_test_mode (no such function in this tree), the TrackPreparationActor's distribution of the yielded calls over worker actors, downloads / decompression (C13, C14)",
    ]
    pool = ThreadPoolExecutor(4)
    tlc.scratch_root()
    main_cfg = "TrackProcessors.quick.cfg" if ctx.quick else "TrackProcessors.thorough.cfg"
    futs = {main_cfg: pool.submit(_run_tlc, main_cfg, "xtpmc", dump=True, timeout=900, workers=4, allow_violation=True)}
    futs["TrackProcessors.intended.cfg"] = pool.submit(_run_tlc, "TrackProcessors.intended.cfg", "xtpmc", timeout=300, workers=2, allow_violation=True)
    for cfg, _inv in SELFTESTS:
        futs[cfg] = pool.submit(_run_tlc, cfg, "xtpmc", timeout=300, workers=1, allow_violation=True)
    try:
        _run(ctx, out, futs, main_cfg, Rt())
    finally:
        pool.shutdown(wait=True)


def _run(ctx, out, futs, main_cfg, rt):
    stats = {"cases": 0, "s2c": 0, "s2c_followed": 0, "l2": 0, "l1": {}, "prep_calls": 0, "prep_nonempty": 0}
    main = futs[main_cfg].result()
    out.add_tlc(main)
    if not main.ok:
        raise tlc.MachineryError("model violates %s in %s: %s" % (main.invariant_violated or "?", main_cfg, main.out[-1500:]))
    table = table_from_dump(main.dump_path)
    if len(table) * 2 != main.distinct:
        raise tlc.MachineryError("dump has %d evaluated states, TLC reports %d distinct states" % (len(table), main.distinct))
    out.note("leg M %s: %d distinct states, %.1fs" % (main_cfg, main.distinct, main.wall_s))
    items = run_cases(rt, table, out, "tab", stats)
    out.note("leg S2C: %d inputs from TLC, the real code gives the model's result in %d of %d executions" % (len(table), stats["s2c_followed"], stats["s2c"]))
    out.extra["table"] = {"rows": len(table), "real_code_equals_table": stats["s2c_followed"], "compared": stats["s2c"]}
    out.sample({"source": "tlc", "input": items[len(items) // 2]["a"], "recorded": items[len(items) // 2]["r"]})
    rnd = random.Random(ctx.seed + 41)
    rc = [{"kind": "p", "a": random_input(rnd), "src": "random"} for _ in range(2500 if ctx.quick else 40000)]
    rc += [{"kind": "g", "a": random_registry(rnd), "src": "random"} for _ in range(300 if ctx.quick else 3000)]
    ritems = run_cases(rt, rc, out, "rnd", stats)
    out.sample({"source": "random", "input": ritems[0]["a"], "recorded": ritems[0]["r"]})
    bad = preparator_cases(rt, random.Random(ctx.seed + 42), 400 if ctx.quick else 4000, stats)
    out.extra["default_track_preparator"] = {"cases": 400 if ctx.quick else 4000, "calls_yielded": stats["prep_calls"], "mismatches": bad[:5]}
    for b in bad[:5]:
        out.drift.append("DefaultTrackPreparator.on_prepare_track does not hand the used bulk corpora to prepare_docs: %s" % json.dumps(b, sort_keys=True)[:500])
    res = futs["TrackProcessors.intended.cfg"].result()
    out.add_tlc(res)
    if not res.ok:
        raise tlc.MachineryError("model violates %s in TrackProcessors.intended.cfg: %s" % (res.invariant_violated or "?", res.out[-1500:]))
    for cfg, inv in SELFTESTS:
        res = futs[cfg].result()
        if res.invariant_violated != inv:
            raise tlc.MachineryError("self-test failed: %s no longer violates %s (%s)" % (cfg, inv, res.invariant_violated or res.error))
        out.extra.setdefault("model_selftests", []).append("%s violates %s in the model, as expected" % (cfg, inv[1:]))
    out.extra["coverage_of_cases"] = stats
    out.note("leg C2S: %d executions validated, %d accepted; %s" % (stats["cases"], out.traces_validated, {k: v for k, v in sorted(stats.items()) if k not in ("l1", "cases")}))
    for key in ("test_mode", "serverless_dropped", "task_filter_dropped", "parallel_emptied", "challenge_emptied", "corpus_1k", "capped_iterations", "throttle_max", "registry", "prep_nonempty"):
        if not stats.get(key):
            out.vacuous.append("no executed case exercised: " + key)
    binding_selftest(out, items + ritems)
    for key, rec in sorted(out.extra.get("pinned_behaviour_observed", {}).items()):
        rec.pop("size", None)
        out.note("pinned behaviour of /repo (strong clause %s fails in %d cases; model switch %s = FALSE): %s; smallest example %s" % (key, rec["cases"], rec["switch"], rec["what"], json.dumps(rec["example"]["input"], sort_keys=True)[:600]))
    for c in PINNED:
        if c not in out.extra.get("pinned_behaviour_observed", {}) and not (out.violations or out.drift):
            out.note("pinned behaviour %s (switch %s) was NOT observed on this tree" % (c, PINNED[c][0]))
    if out.vacuous:
        out.note("VACUOUS: %s" % out.vacuous)


def binding_selftest(out, items):
    def leaves(t):
        return [l for ch in t["chs"] for e in ch["sched"] for l in e["tasks"]]

    base = next((it for it in items if it["kind"] == "p" and it["a"]["cfg"]["tm"] and it["a"]["cfg"]["sl"] == "off" and it["a"]["cfg"]["fmode"] == "none"
                 and any(l["it"] > l["cl"] for l in leaves(it["a"])) and any(d["bulk"] and d["n"] > 1000 for c in it["a"]["corpora"] for d in c["docs"])), None)  # fmt: skip
    sl = next((it for it in items if it["kind"] == "p" and it["a"]["cfg"]["sl"] == "public" and it["a"]["cfg"]["fmode"] == "none" and any(ch["info"]["excl"] for ch in it["r"]["main"]["chs"])), None)
    g = next((it for it in items if it["kind"] == "g" and it["a"]["regs"] == ["C1"]), None)
    if base is None or sl is None or g is None:
        if not (out.violations or out.drift):
            raise tlc.MachineryError("binding self-test: no suitable recorded case")
        return
    ms = []

    def mutant(src, mid, f):
        m = copy.deepcopy(src)
        m["id"] = mid
        f(m["r"])
        ms.append(m)

    def cap(r):
        l = next(l for l in leaves(r["main"]) if l["it"] != ABSENT)
        l["it"] += 1

    def name(r):
        d = next(d for c in r["main"]["corpora"] for d in c["docs"] if d["file"] == "1k")
        d["file"] = "orig"

    def kept(r):
        ch = next(ch for ch in r["main"]["chs"] if ch["info"]["excl"])
        ch["info"]["excl"][0] = ch["info"]["excl"][0][1:]

    mutant(base, "bind-cap", cap)
    mutant(base, "bind-1k", name)
    mutant(base, "bind-other", lambda r: r.update(other=True))
    mutant(base, "bind-twice", lambda r: leaves(r["twice"])[0].update(tp=3))
    mutant(sl, "bind-excl", kept)
    mutant(g, "bind-order", lambda r: r.update(procs=["SL", "TF", "TM", "C1"]))
    v = tracecheck.validate(SPEC, "TraceTrackProcessors", TRACE_CFG, ms, name="xtpbind")
    want = {"bind-cap": "CapsAreMins", "bind-1k": "Suffix1k", "bind-other": "NoUndocumentedChange", "bind-twice": "Idempotent", "bind-excl": "ExcludedReported", "bind-order": "RequiredFirst"}
    missed = [m for m, c in want.items() if not any(c in cl for _, cl in v.l1.get(m, [])) or m not in v.l2]
    if missed:
        raise tlc.MachineryError("binding self-test failed: corrupted recordings accepted: %s (l1 %s, l2 %s)" % (missed, sorted(v.l1.items()), sorted(v.l2)))
    out.extra["binding_selftest"] = "recordings with a raised iteration cap, a missing -1k name, an undocumented change, a non-idempotent second run, an incomplete Excluding line and a reordered registry are rejected by TLC (L1 and L2)"
