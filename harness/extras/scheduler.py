"""Extra module Scheduler: WHICH scheduler a task gets and how it adapts to the responses (esrally/driver/scheduler.py, Task.target_throughput
in esrally/track/track.py; specs/Scheduler).  The deterministic schedule of one client inside the request loop is property C05 and not redone.
A client's scheduler is a state machine: registry (register_scheduler: built-in deterministic / poisson, function, legacy class(params),
simple class(task, target_throughput), full class(task) + before_request / after_request / next) -> scheduler_for(task) (Unthrottled |
UnitAwareScheduler around the registered class | LegacyWrappingScheduler | the custom object | RallyError / InvalidSyntax) -> next / before /
after(now, weight, unit, meta) as driver.ScheduleHandle issues them; exact rationals.  Invariants (TLC + L1 on every recorded run of the REAL
objects): RegisterOnce, ResolvedExact (unthrottled iff no target throughput and a built-in schedule; otherwise exactly the object registered
under task.schedule or `deterministic`; unknown name -> RallyError; bad parameters -> InvalidSyntax), ThroughputParsed (number | "N unit/s" |
target-interval, both given, zero, none, booleans ...), FirstUnthrottled (every request at 0 until the first successful response in the
target's unit), Spacing (then weight * clients / T apart; a foreign unit counts as 1 op for an ops/s target; weight 0 changes nothing),
PoissonRate (one random.expovariate(T / (clients * weight)) draw per request; the floats are compared with a replica of the seeded generator),
RaiseOnlyOnMismatch / FirstMismatchRaises, SimpleArgs / LegacyArgs / FullArgs (custom schedulers get exactly the documented arguments, calls
are forwarded verbatim).  /repo does not meet six strong forms: each is pinned behind a model switch (UnitCheckFirst, FnSchedulerWorks,
GuardMissingThroughput, RejectNegative; FALSE = /repo) with a self-test cfg and shown as a note; the weaker form /repo does meet is L1.

Leg M   : TLC on Scheduler.quick.cfg (code as it is, weak clauses) / thorough, Scheduler.intended.cfg (all switches TRUE: weak AND strong
          clauses hold), 7 pinned self-tests (one switch FALSE -> the named strong clause is violated in the model).
Leg S2C : TLC -simulate behaviours (wide alphabets, two plugin names, resolution through driver.schedule_for for half of them) and an
          exhaustive table (TLC -dump: every parameter descriptor x schedule name x registered kind x first event) are executed on the REAL
          scheduler objects obtained through scheduler.scheduler_for / driver.schedule_for for real track.Task objects.
Leg C2S : every recorded run (S2C ones and seeded random longer ones with other throughputs, weights, spellings of the parameters) is
          validated by TLC against TraceScheduler.tla (L1 all clauses on the recorded states, L2 = the step of the model of the code as it
          is); runs that are not steps of that model are re-validated with one switch flipped (repaired tree or broken tree?).
"""
import copy
import decimal
import glob
import json
import logging
import os
import random
from fractions import Fraction

from .. import tlc, tracecheck
from ..core import Violation
from ..tlaparse import parse_dump, parse_simulation_file, to_json

SPEC = "Scheduler"
PREFIX = "verif-xsched-"
OP_TYPE = "verif-xsched"
BUILTIN = ("deterministic", "poisson")
STEP = {"fn": 7, "legacy": 3, "full": 11}
DEN_TIME = 10**4  # recorded times are rationals with a denominator up to this
DEN_RATE = 10**6
REL_TOL = Fraction(1, 10**9)
MAX_VIOLATIONS_PER_KIND = 10
ZERO = {"n": 0, "d": 1}
NO_FWD = {"m": "-", "now": 0, "w": 0, "u": "-", "md": False, "cur": ZERO}
BAD_STRINGS = ["none", "5", "5docs/s", "-5 docs/s", "5 docs/m", "5. docs/s", "1e3 docs/s", "fast", " 5 docs/s", "5 /s", "docs/s", "5  docs/s"]
SWITCHES = ["UnitCheckFirst", "FnSchedulerWorks", "GuardMissingThroughput", "RejectNegative"]
# strong L1 clauses which the code as it is does not meet: clause -> (model switch that repairs it, what happens)
PINNED = {
    "MismatchAlwaysRaises": ("UnitCheckFirst", "a response in a unit other than the target's goes unnoticed when its weight equals the current weight (the unit is only compared on the first response and when the weight changes)"),
    "RecreateOnlyOnChange": ("UnitCheckFirst", "ops/s target, runner reports another unit with weight != 1: the delegate scheduler is created again after EVERY response (current_weight is 1, the raw weight is compared)"),
    "SpacingAlways": ("UnitCheckFirst", "ops/s target, responses in changing units: a response (w, other unit) after (w, ops) keeps the spacing of weight w instead of 1 op"),
    "NoInternalError": ("FnSchedulerWorks / GuardMissingThroughput", "after_request raises TypeError (function scheduler: the registry lambda takes one argument, UnitAwareScheduler passes two) or AttributeError (simple scheduler class, task without target throughput: task.target_throughput is None)"),
    "FnUsed": ("FnSchedulerWorks", "a registered scheduler FUNCTION is never called: the task runs unthrottled until the first successful response, which raises"),
    "MonotoneSchedule": ("RejectNegative", "Task.target_throughput accepts a negative number (only the JSON schema refuses it): the schedule runs backwards in time"),
}


class _Unobservable(Exception):
    """The real object has no vocabulary in the model (renamed attribute, foreign class, non-finite number)."""


# ===================================================================================================
# the real code under a recording harness
# ===================================================================================================
_setup_done = False


def _setup():
    global _setup_done
    if _setup_done:
        return
    from .. import clientloop

    clientloop.ensure_rally_home()
    from esrally.driver import runner

    async def _runner(es, params):
        return 1, "ops"

    runner.register_runner(OP_TYPE, _runner, async_runner=True)
    root = logging.getLogger()
    if not root.handlers:
        root.addHandler(logging.NullHandler())
    _setup_done = True


class _RandomProxy:
    """Stands in for the module `random` inside esrally.driver.scheduler: every call is served by a private seeded generator and logged."""

    def __init__(self, seed):
        self._gen = random.Random(seed)
        self.calls = []  # (name, args, result)

    def __getattr__(self, name):
        target = getattr(self._gen, name)
        if not callable(target):
            return target

        def call(*args, **kw):
            res = target(*args, **kw)
            self.calls.append((name, args, kw, res))
            return res

        return call


class _WarnCounter(logging.Handler):
    def __init__(self):
        super().__init__(logging.WARNING)
        self.n = 0

    def emit(self, record):
        if "throttles based on" in str(record.msg):
            self.n += 1


def _decimal_str(n, d, style):
    q = decimal.Decimal(n) / decimal.Decimal(d)
    txt = format(q, "f")
    if "." in txt:
        txt = txt.rstrip("0").rstrip(".")
    if style == 3 and txt.startswith("0."):
        txt = txt[1:]
    return txt


def concrete_param(desc, variant):
    """descriptor [k, n, d, u] of Scheduler.tla -> (present, value as a track author / plugin could have written it)"""
    k = desc["k"]
    if k == "absent":
        return False, None
    if k == "null":
        return True, None
    if k == "num":
        n, d = desc["n"], desc["d"]
        style = variant.get("num", 0) % 3
        if style == 2:
            return True, Fraction(n, d)
        if d == 1 and style == 0:
            return True, n
        return True, n / d
    if k == "str":
        style = variant.get("str", 0) % 4
        txt = _decimal_str(desc["n"], desc["d"], style)
        if style == 1:
            return True, "%s %s/second" % (txt, desc["u"])  # re.match: a prefix is enough
        if style == 2:
            return True, "%s\t%s/s" % (txt, desc["u"])
        return True, "%s %s/s" % (txt, desc["u"])
    if k == "strbad":
        return True, BAD_STRINGS[variant.get("bad", 0) % len(BAD_STRINGS)]
    if k == "strempty":
        return True, ""
    if k == "true":
        return True, True
    if k == "false":
        return True, False
    if k == "other":
        return True, [[5], {"value": 5}, (5,)][variant.get("other", 0) % 3]
    raise tlc.MachineryError("unknown parameter descriptor %r" % (desc,))


class _Run:
    def __init__(self, case):
        self.case = case
        self.task = None
        self.objs = {}  # id(registered class) -> (model name, kind)
        self.fns = {}  # id(registered function) -> model name
        self.wrappers = {}  # id(registry value that stands for a registered function) -> model name
        self.keep = []  # references (ids must stay unique)
        self.ctor = []
        self.fwd = dict(NO_FWD)
        self.ps = False
        self.source = None
        self.meta = None
        self.inexact = 0
        self.loose = []

    # ---- numbers
    def rat(self, x, maxden, what):
        if isinstance(x, bool) or not isinstance(x, (int, float, Fraction)):
            raise _Unobservable("%s is %r" % (what, x))
        if isinstance(x, float) and (x != x or x in (float("inf"), float("-inf"))):
            raise _Unobservable("%s is %r" % (what, x))
        f = Fraction(x)
        a = f.limit_denominator(maxden)
        if a != f:
            self.inexact += 1
            if abs(a - f) > REL_TOL * max(1, abs(a)):
                self.loose.append("%s=%r" % (what, x))
        return {"n": a.numerator, "d": a.denominator}

    def now_of(self, x):
        return int(x) if isinstance(x, (int, float)) and not isinstance(x, bool) and x == int(x) else -1

    # ---- custom schedulers as a track plugin would register them
    def make(self, kind, mname):
        run = self

        if kind == "fn":

            def scheduler_function(current):
                run.fwd = dict(NO_FWD, m="next", cur=run.rat(current, DEN_TIME, "current"))
                return current + STEP["fn"]

            self.fns[id(scheduler_function)] = mname
            self.keep.append(scheduler_function)
            return scheduler_function
        if kind == "legacy":

            class LegacyScheduler:
                parameter_source = None

                def __init__(self, params):
                    run.ctor.append({"name": mname, "args": "params" if params is run.task.params else "other", "rate": ZERO})

                def next(self, current):
                    run.fwd = dict(NO_FWD, m="next", cur=run.rat(current, DEN_TIME, "current"))
                    return current + STEP["legacy"]

            cls = LegacyScheduler
        elif kind == "simple":

            class SimpleScheduler:
                parameter_source = None

                def __init__(self, task, target_throughput):
                    ok = task is run.task
                    run.ctor.append({"name": mname, "args": "task,rate" if ok else "other", "rate": run.rat(target_throughput, DEN_RATE, "target_throughput")})
                    self.wait = 1 / target_throughput  # as in docs/advanced.rst

                def next(self, current):
                    run.fwd = dict(NO_FWD, m="next", cur=run.rat(current, DEN_TIME, "current"))
                    return current + self.wait

            cls = SimpleScheduler
        elif kind == "full":

            class FullScheduler:
                parameter_source = None

                def __init__(self, task):
                    run.ctor.append({"name": mname, "args": "task" if task is run.task else "other", "rate": ZERO})

                def before_request(self, now):
                    run.fwd = dict(NO_FWD, m="before", now=run.now_of(now))

                def after_request(self, now, weight, unit, request_meta_data):
                    run.fwd = dict(NO_FWD, m="after", now=run.now_of(now), w=weight if isinstance(weight, int) else -1, u=str(unit), md=request_meta_data is run.meta)

                def next(self, current):
                    run.fwd = dict(NO_FWD, m="next", cur=run.rat(current, DEN_TIME, "current"))
                    return current + STEP["full"]

            cls = FullScheduler
        else:
            raise tlc.MachineryError("unknown kind %r" % kind)
        self.objs[id(cls)] = (mname, kind)
        self.keep.append(cls)
        return cls


def _cname(mname):
    """model name -> name in the real registry"""
    return mname if mname in BUILTIN else PREFIX + mname


def _registry(sched_mod):
    r = getattr(sched_mod, "__SCHEDULERS", None)
    if not isinstance(r, dict):
        raise _Unobservable("esrally.driver.scheduler has no registry dict __SCHEDULERS")
    return r


def _identify(run, sched_mod, obj):
    """registered object (or what the registry made of it) -> (model name, kind)"""
    if obj is sched_mod.DeterministicScheduler:
        return "deterministic", "det"
    if obj is sched_mod.PoissonScheduler:
        return "poisson", "poi"
    if id(obj) in run.objs:
        return run.objs[id(obj)]
    if id(obj) in run.fns:
        return run.fns[id(obj)], "fn"
    if id(obj) in run.wrappers:
        return run.wrappers[id(obj)], "fn"
    return "?", "?"


def _observe_registry(run, sched_mod):
    reg = {}
    for key, val in _registry(sched_mod).items():
        if key in BUILTIN:
            mname = key
        elif key.startswith(PREFIX):
            mname = key[len(PREFIX) :]
        else:
            continue  # not ours
        name, kind = _identify(run, sched_mod, val)
        # a built-in name must hold the built-in class, a plugin name the object registered under THAT name
        reg[mname] = kind if name == mname else "?"
    return reg


def execute(case):
    """Runs one case on the REAL scheduler module.  case = {"task": {sched, spec: {tt, ti}, clients, handle}, "acts": [action records of
    Scheduler.tla], "variant": {...spellings...}, "seed": int}.  Returns the trace item for TraceScheduler.tla and run information."""
    _setup()
    from esrally import exceptions
    from esrally.driver import driver
    from esrally.driver import scheduler as sched_mod
    from esrally.track import params as track_params
    from esrally.track import track

    run = _Run(case)
    tdesc = case["task"]
    variant = case.get("variant") or {}
    registry = _registry(sched_mod)
    snapshot = dict(registry)
    proxy = _RandomProxy(case.get("seed", 0))
    replica = random.Random(case.get("seed", 0))
    lg = logging.getLogger("esrally.driver.scheduler")
    old = (lg.level, lg.propagate, logging.root.manager.disable, sched_mod.random)
    warn = _WarnCounter()
    events = []
    info = {"exc_text": [], "draws": 0, "norm_draws": 0.0}
    st = {
        "kind": "unres", "name": "-", "cls": "-", "err": "-", "why": "-", "tput": {"r": "none", "v": ZERO, "u": "-"}, "first": True, "cw": 0, "dk": "-",
        "rate": ZERO, "created": 0, "warned": 0, "last": ZERO, "k": 0, "pd": [], "ctor": [], "fwd": dict(NO_FWD), "ps": False, "sumok": True, "exc": "-",
    }  # fmt: skip
    sched = None
    handle = None
    agen = None
    prev = 0  # the value ScheduleHandle.__call__ passes to next()
    delegate_seen = None
    try:
        logging.disable(logging.NOTSET)
        lg.setLevel(logging.WARNING)
        lg.propagate = False
        lg.addHandler(warn)
        sched_mod.random = proxy
        for a in case["acts"]:
            fok = True
            exc = "-"
            st["sumok"] = True
            try:
                if a["a"] == "register":
                    obj = run.make(a["kind"], a["name"])
                    key = _cname(a["name"])
                    had = registry.get(key)
                    try:
                        sched_mod.register_scheduler(key, obj)
                    except exceptions.SystemSetupError:
                        exc = "SystemSetupError"
                    now_has = registry.get(key)
                    if a["kind"] == "fn" and now_has is not had and now_has is not obj and now_has is not None:
                        run.wrappers[id(now_has)] = a["name"]
                        run.keep.append(now_has)
                elif a["a"] == "resolve":
                    params = {}
                    for pkey, d in (("target-throughput", tdesc["spec"]["tt"]), ("target-interval", tdesc["spec"]["ti"])):
                        present, val = concrete_param(d, variant)
                        if present:
                            params[pkey] = val
                    sname = None if tdesc["sched"] == "none" else _cname(tdesc["sched"])
                    op = track.Operation(name="xsched-op", operation_type=OP_TYPE, params={})
                    kw = {"iterations": 10**6} if tdesc["handle"] else {}
                    run.task = track.Task(name="xsched", operation=op, clients=tdesc["clients"], schedule=sname, params=params, **kw)
                    try:
                        if tdesc["handle"]:
                            run.source = track_params.ParamSource(track=None, params={})
                            alloc = driver.TaskAllocation(task=run.task, client_index_in_task=0, global_client_index=0, total_clients=tdesc["clients"])
                            handle = driver.schedule_for(alloc, run.source)
                            sched = handle.sched
                            handle.start()
                            agen = handle()
                        else:
                            sched = sched_mod.scheduler_for(run.task)
                    except exceptions.InvalidSyntax as ex:
                        msg = str(ex)
                        st["kind"], st["err"], exc = "err", "InvalidSyntax", "InvalidSyntax"
                        st["why"] = (
                            "both" if "only one of them is allowed" in msg else "interval" if "must be numeric" in msg else "pattern" if "specifies invalid target throughput" in msg else "type" if "must be string or numeric" in msg else "value"
                        )
                    except exceptions.RallyError as ex:
                        if type(ex) is not exceptions.RallyError:
                            raise
                        st["kind"], st["err"], exc = "err", "RallyError", "RallyError"
                        st["why"] = "unknown-name" if "No scheduler available for name" in str(ex) else "needs-throughput"
                    try:
                        tt = run.task.target_throughput
                    except exceptions.InvalidSyntax:
                        tt = None
                    if tt is not None:
                        unit = str(tt.unit)
                        st["tput"] = {"r": "ok", "v": run.rat(tt.value, DEN_RATE, "target_throughput.value"), "u": unit[:-2] if unit.endswith("/s") else unit}
                    if sched is not None:
                        ps = getattr(sched, "parameter_source", None)
                        run.ps = ps is not None and ps is run.source
                elif a["a"] == "next":
                    if sched is None:
                        raise tlc.MachineryError("next before resolve")
                    n0 = len(proxy.calls)
                    if agen is not None:
                        try:
                            agen.__anext__().send(None)
                            raise _Unobservable("the schedule generator suspended")
                        except StopIteration as stop:
                            ret = stop.value[0]
                        except StopAsyncIteration:
                            raise _Unobservable("the schedule generator ended")
                    else:
                        ret = sched.next(prev)
                    new = proxy.calls[n0:]
                    if len(new) == 0:
                        if st["k"] == 0 or (isinstance(ret, int) and ret == 0):
                            st["last"] = run.rat(ret, DEN_TIME, "scheduled")
                            st["k"] = 0
                        else:
                            st["sumok"] = False  # a time that contains draws changed without a draw
                    elif len(new) == 1:
                        name, args, kw, res = new[0]
                        lam = args[0] if len(args) == 1 and not kw else None
                        if name != "expovariate" or lam is None:
                            st["pd"] = st["pd"] + [{"n": -1, "d": 1}]
                            fok = False
                        else:
                            st["pd"] = st["pd"] + [run.rat(lam, DEN_RATE, "lambda")]
                            # the replica of the seeded generator, stepped with the same lambda, gives the same float; the
                            # returned time is the previous one plus that float, bit by bit
                            if replica.expovariate(lam) != res:
                                fok = False
                            if ret != prev + res:
                                st["sumok"] = False
                        st["k"] += 1
                        info["draws"] += 1
                        if lam:
                            info["norm_draws"] += res * lam
                    else:
                        st["sumok"] = False
                        st["k"] += len(new)
                        st["pd"] = st["pd"] + [{"n": -1, "d": 1}] * len(new)
                    prev = ret
                elif a["a"] == "before":
                    (handle or sched).before_request(float(a["now"]))
                elif a["a"] == "after":
                    run.meta = {"success": True}
                    (handle or sched).after_request(float(a["now"]), a["w"], a["u"], run.meta)
                else:
                    raise tlc.MachineryError("unknown action %r" % (a,))
            except (tlc.MachineryError, _Unobservable):
                raise
            except Exception as ex:  # pylint: disable=broad-except
                exc = type(ex).__name__
                info["exc_text"].append("%s: %s" % (exc, str(ex)[:160]))
            # ---- observe
            st["exc"] = exc
            st["warned"] = warn.n
            st["ctor"] = [dict(c) for c in run.ctor]
            st["fwd"] = dict(run.fwd)
            st["ps"] = bool(run.ps)
            if sched is not None and st["kind"] != "err":
                if isinstance(sched, sched_mod.Unthrottled):
                    st["kind"] = "unthr"
                elif isinstance(sched, sched_mod.UnitAwareScheduler):
                    st["kind"] = "ua"
                    try:
                        sc, first, cw, dg = sched.scheduler_class, sched.first_request, sched.current_weight, sched.scheduler
                    except AttributeError as ex:
                        raise _Unobservable("UnitAwareScheduler: %s" % ex)
                    st["name"], st["cls"] = _identify(run, sched_mod, sc)
                    st["first"] = bool(first)
                    st["cw"] = 0 if cw is None else cw if isinstance(cw, int) and not isinstance(cw, bool) else -1
                    if dg is not delegate_seen:
                        if delegate_seen is not None:
                            st["created"] += 1
                        delegate_seen = dg
                        run.keep.append(dg)
                    if isinstance(dg, sched_mod.Unthrottled):
                        st["dk"], st["rate"] = "unthr", ZERO
                    elif type(dg) is sched_mod.DeterministicScheduler:
                        st["dk"], st["rate"] = "det", run.rat(1 / dg.wait_time, DEN_RATE, "1/wait_time")
                    elif type(dg) is sched_mod.PoissonScheduler:
                        st["dk"], st["rate"] = "poi", run.rat(dg.rate, DEN_RATE, "rate")
                    elif id(type(dg)) in run.objs and run.objs[id(type(dg))][1] == "simple":
                        st["dk"], st["rate"] = "simple", (run.ctor[-1]["rate"] if run.ctor else ZERO)
                    else:
                        st["dk"] = "?"
                elif isinstance(sched, sched_mod.LegacyWrappingScheduler):
                    st["kind"] = "legacy"
                    st["name"], st["cls"] = _identify(run, sched_mod, type(getattr(sched, "legacy_scheduler", None)))
                elif id(type(sched)) in run.objs:
                    st["name"], st["cls"] = run.objs[id(type(sched))]
                    st["kind"] = "full" if st["cls"] == "full" else "?"
                elif id(getattr(sched, "delegate", None)) in run.fns:
                    st["kind"], st["name"], st["cls"] = "fnd", run.fns[id(sched.delegate)], "fn"
                else:
                    st["kind"] = "?"
            if run.loose:
                fok = False
            events.append({"act": dict(a), "reg": _observe_registry(run, sched_mod), "st": copy.deepcopy(st), "fok": fok})
            if a["a"] == "resolve" and sched is None:
                break  # no scheduler: nothing can follow
    finally:
        sched_mod.random = old[3]
        lg.removeHandler(warn)
        lg.setLevel(old[0])
        lg.propagate = old[1]
        logging.disable(old[2])
        registry.clear()
        registry.update(snapshot)
        if agen is not None:
            try:
                agen.aclose().send(None)
            except (StopIteration, StopAsyncIteration, RuntimeError):
                pass
    # observation outside the model: the harness' legacy / simple classes declare `parameter_source` like the full one does
    custom = getattr(sched, "legacy_scheduler", None) or (getattr(sched, "scheduler", None) if st["dk"] == "simple" else None)
    info["wrapped_without_parameter_source"] = bool(tdesc["handle"] and custom is not None and getattr(custom, "parameter_source", None) is not run.source)
    info["inexact"] = run.inexact
    info["loose"] = run.loose
    item = {"task": tdesc, "skip": [], "events": events}
    return item, info


# ===================================================================================================
# case sources
# ===================================================================================================
def _variant(rnd):
    return {"num": rnd.randrange(3), "str": rnd.randrange(4), "bad": rnd.randrange(len(BAD_STRINGS)), "other": rnd.randrange(3)}


def _run_tlc(module, cfg, name, **kw):
    wd = tlc.prepare_workdir(SPEC, name)
    res = tlc.run_tlc(wd, module, cfg, **kw)
    res.wd = wd
    return res


def behaviours_from_tlc(ctx, out, pre):
    res = pre.get("sim")
    if not res.ok:
        raise tlc.MachineryError("simulation reported a model violation: %s" % res.out[-2000:])
    out.add_tlc(res)
    rnd = random.Random(ctx.seed + 32)
    cases = []
    for fn in sorted(glob.glob(os.path.join(res.simdir, "b_*"))):
        states = parse_simulation_file(fn)
        if len(states) < 2:
            continue
        last = to_json(states[-1])
        cases.append({"src": "tlc-simulate", "task": last["task"], "acts": last["path"], "variant": _variant(rnd), "seed": rnd.randrange(1 << 30), "model": {"reg": last["reg"], "s": last["s"]}})
    return cases


def table_from_tlc(ctx, out, pre):
    res = pre.get("table")
    if not res.ok:
        raise tlc.MachineryError("table run reported a model violation: %s" % res.out[-2000:])
    out.add_tlc(res)
    rows = []
    for st in parse_dump(res.dump):
        if not st["path"]:
            continue
        row = to_json(st)
        rows.append({"src": "tlc-table", "task": row["task"], "acts": row["path"], "variant": {}, "seed": 0, "model": {"reg": row["reg"], "s": row["s"]}})
    rows.sort(key=lambda c: json.dumps([c["task"], c["acts"]], sort_keys=True))
    rnd = random.Random(ctx.seed + 33)
    for c in rows:
        c["variant"] = _variant(rnd)
        c["seed"] = rnd.randrange(1 << 30)
    return rows


def _desc(k, n=0, d=1, u="-"):
    return {"k": k, "n": n, "d": d, "u": u}


def random_case(rnd):
    """Longer runs with throughputs / weights / units / clients outside the alphabets of the TLC configurations."""
    units = ["ops", "docs", "pages", "MB"]
    # target throughput n/d per second; the weights are chosen so that a run stays below ~10^4 s (TLC integers are 32 bit)
    tn, td = rnd.choice([(100, 1), (1000, 1), (2, 1), (1, 2), (5000, 1), (250, 1), (3, 1), (7, 2), (1, 4), (20, 1), (64, 1), (1, 1), (12, 5)])
    form = rnd.choice(["num", "num", "str", "str", "str", "interval", "edge"])
    absent = _desc("absent")
    tunit = "ops"
    if form == "num":
        spec = {"tt": _desc("num", tn, td), "ti": rnd.choice([absent, absent, _desc("null")])}
    elif form == "str":
        tunit = rnd.choice(units)
        if td not in (1, 2, 4, 5):
            td = 1
        spec = {"tt": _desc("str", tn, td, tunit), "ti": absent}
    elif form == "interval":
        spec = {"tt": rnd.choice([absent, _desc("null")]), "ti": _desc("num", td, tn)}
    else:
        spec = rnd.choice(
            [
                {"tt": absent, "ti": absent},
                {"tt": _desc("num", -tn, td), "ti": absent},
                {"tt": absent, "ti": _desc("num", -td, tn)},
                {"tt": _desc("strbad"), "ti": absent},
                {"tt": _desc("num", tn, td), "ti": _desc("num", 1, 2)},
                {"tt": _desc("num", 0, 1), "ti": absent},
                {"tt": _desc("str", 0, 1, "docs"), "ti": absent},
                {"tt": _desc("true"), "ti": absent},
                {"tt": _desc("false"), "ti": absent},
                {"tt": _desc("other"), "ti": absent},
                {"tt": _desc("strempty"), "ti": absent},
                {"tt": absent, "ti": _desc("strbad")},
                {"tt": absent, "ti": _desc("true")},
                {"tt": absent, "ti": _desc("num", 0, 1)},
                {"tt": _desc("null"), "ti": _desc("null")},
            ]
        )
    clients = rnd.choice([1, 1, 2, 3, 4, 8, 16])
    wmax = max(1, min(5000, int(Fraction(tn, td) * 400 / clients)))
    palette = sorted({1, wmax, max(1, wmax // 2), rnd.randint(1, wmax), rnd.randint(1, wmax)})
    acts = []
    names = ["c1", "c2", "c3"]
    regs = {}
    for _ in range(rnd.choice([0, 0, 1, 1, 2, 3])):
        nm = rnd.choice(names + ["deterministic", "poisson"] if rnd.random() < 0.15 else names)
        kind = rnd.choice(["fn", "legacy", "simple", "simple", "full"])
        acts.append({"a": "register", "name": nm, "kind": kind, "now": 0, "w": 0, "u": "-"})
        regs.setdefault(nm, kind)
    pool = ["none", "deterministic", "poisson", "poisson"] + list(regs) * 3 + (["unknown"] if rnd.random() < 0.1 else [])
    sched = rnd.choice(pool)
    acts.append({"a": "resolve", "name": "-", "kind": "-", "now": 0, "w": 0, "u": "-"})
    runit = rnd.choice([tunit, tunit, tunit, rnd.choice(units)])
    style = rnd.choice(["steady", "steady", "varying", "errors", "mixed-units"])
    w = rnd.choice(palette)
    now = 0
    nexts = 0
    for _ in range(rnd.randint(4, 40)):
        x = rnd.random()
        now += rnd.randint(0, 3)
        if x < 0.45 and nexts < 22:
            acts.append({"a": "next", "name": "-", "kind": "-", "now": 0, "w": 0, "u": "-"})
            nexts += 1
        elif x < 0.55:
            acts.append({"a": "before", "name": "-", "kind": "-", "now": now, "w": 0, "u": "-"})
        else:
            if style == "varying" or (style != "steady" and rnd.random() < 0.3):
                w = rnd.choice(palette)
            ww = 0 if (style == "errors" and rnd.random() < 0.4) or rnd.random() < 0.05 else w
            uu = rnd.choice(units) if style == "mixed-units" and rnd.random() < 0.4 else ("ops" if ww == 0 else runit)
            acts.append({"a": "after", "name": "-", "kind": "-", "now": now, "w": ww, "u": uu})
    return {"src": "random", "task": {"sched": sched, "spec": spec, "clients": clients, "handle": rnd.random() < 0.5}, "acts": acts, "variant": _variant(rnd), "seed": rnd.randrange(1 << 30)}


# ===================================================================================================
# running + judging
# ===================================================================================================
def _fits_tlc(obj):
    if isinstance(obj, bool) or isinstance(obj, str):
        return True
    if isinstance(obj, int):
        return abs(obj) < 2**31 // 8  # head room for the model's own arithmetic (lcm, cross products)
    if isinstance(obj, dict):
        return all(_fits_tlc(v) for v in obj.values())
    if isinstance(obj, list):
        return all(_fits_tlc(v) for v in obj)
    return False


def _signature(clauses, case, item):
    evs = item["events"]
    last = evs[-1]["st"] if evs else {}
    return {
        "clauses": sorted(clauses),
        "kind": last.get("kind"),
        "cls": last.get("cls"),
        "tunit": last.get("tput", {}).get("u"),
        "handle": case["task"]["handle"],
        "exceptions": sorted({e["st"]["exc"] for e in evs if e["st"]["exc"] != "-"}),
        "pinned": sorted({PINNED[c][0] for c in clauses if c in PINNED}),
    }


def _replay_of(case):
    return {k: case[k] for k in ("task", "acts", "variant", "seed")}


def _report_l1(out, stats, tid, fails, case, item):
    """Clauses in PINNED are the strong forms which the code as it is is known not to meet (the forms it does meet are L1 clauses of their
    own): counted and shown as notes with the smallest replayable example; every other failing clause is a violation."""
    clauses = sorted({c for _, cl in fails for c in cl})
    fresh = [c for c in clauses if c not in PINNED]
    for c in clauses:
        stats["l1"][c] = stats["l1"].get(c, 0) + 1
    if fresh:
        key = ",".join(fresh)
        stats["l1_new"][key] = stats["l1_new"].get(key, 0) + 1
        if stats["l1_new"][key] <= MAX_VIOLATIONS_PER_KIND:
            ln = min(ln for ln, cl in fails if any(c in fresh for c in cl))
            out.violations.append(
                Violation(key, _replay_of(case), signature=_signature(clauses, case, item), detail="run %s (%s), first failing event %d: %s -> %s" % (tid, case["src"], ln, json.dumps(item["events"][ln - 1]["act"], sort_keys=True), json.dumps(item["events"][ln - 1]["st"], sort_keys=True)[:500]))
            )
        return
    for c in clauses:
        rec = out.extra.setdefault("pinned_behaviour_observed", {}).setdefault(c, {"switch": PINNED[c][0], "what": PINNED[c][1], "runs": 0, "example": None, "size": None})
        rec["runs"] += 1
        size = len(case["acts"])
        if rec["example"] is None or size < rec["size"]:
            rec["example"] = {"run": tid, "event": min(ln for ln, cl in fails if c in cl), "case": _replay_of(case)}
            rec["size"] = size


def _explain_drift(out, items, label):
    """Recorded runs that are not behaviours of the model of the code as it is: do they all fit a variant with one switch flipped
    (i.e. has the pinned behaviour been repaired in the tree under test)?"""
    if not items:
        return
    with open(os.path.join(tlc.SPECS, SPEC, "TraceScheduler.cfg"), encoding="utf-8") as f:
        base = f.read()
    for switch in SWITCHES:
        txt = base.replace("%s = FALSE" % switch, "%s = TRUE" % switch)
        v = tracecheck.validate(SPEC, "TraceScheduler", "TraceScheduler.cfg", copy.deepcopy(items[:300]), name="xsvariant", cfg_text=txt, timeout=300, skip_field="skip")
        if not v.l2:
            out.drift.append("%s: the %d runs that are not steps of the model of the code as it is are all accepted with %s = TRUE: this behaviour seems to have been repaired; switch the cfgs of specs/Scheduler over" % (label, len(items), switch))
            return


def _validate(items, out, name="xstrace"):
    """tracecheck.validate in chunks; a recorded run on which TLC's 32 bit arithmetic fails (only on a broken tree, _tlc_safe filters the
    predictable ones) is taken out and reported as drift instead of stopping the whole extra."""
    import re

    res = []
    for i in range(0, len(items), 4000):
        chunk = items[i : i + 4000]
        for _attempt in range(12):
            try:
                res.append(tracecheck.validate(SPEC, "TraceScheduler", "TraceScheduler.cfg", chunk, name=name, timeout=600, skip_field="skip"))
                break
            except tlc.MachineryError as ex:
                tids = re.findall(r"^/\\ tid = (\d+)", str(ex), flags=re.M)
                if not any(m in str(ex) for m in ("\\div", "verflow", "out of range")) or not tids or not 1 <= int(tids[-1]) <= len(chunk):
                    raise
                bad = chunk[int(tids[-1]) - 1]
                out.drift.append("run %s: TLC cannot evaluate the model on the recorded numbers (%s)" % (bad["id"], str(ex).splitlines()[0][:200]))
                chunk = [it for it in chunk if it is not bad]
        else:
            raise tlc.MachineryError("too many recorded runs on which TLC's arithmetic fails")
    return res


def _tlc_safe(item):
    """Will the model's rational arithmetic on the recorded numbers of this run stay inside TLC's 32 bit integers?  (always on /repo)"""
    lim = 2**30
    clients = item["task"]["clients"]
    bases, times, weights = set(), set(), {1}
    for key, d in item["task"]["spec"].items():
        if d["k"] in ("num", "str") and d["n"] != 0:
            bases.add(Fraction(d["n"], d["d"]) if key == "tt" else Fraction(d["d"], d["n"]))
    rates = set()
    for e in item["events"]:
        st = e["st"]
        if e["act"]["a"] == "after" and e["act"]["w"] > 0:
            weights.add(e["act"]["w"])
        for q in [st["rate"], st["tput"]["v"]] + st["pd"] + [c["rate"] for c in st["ctor"]]:
            if q["n"] != 0 and q["d"] != 0:
                (bases if q is st["tput"]["v"] else rates).add(Fraction(q["n"], q["d"]))
        for q in (st["last"], st["fwd"]["cur"]):
            if q["d"] != 0:
                times.add(Fraction(q["n"], q["d"]))
    for b in bases:
        for w in weights:
            if abs(b.denominator) * clients * w >= lim:
                return False
            rates.add(b / (clients * w))
    for r in rates:
        wait = 1 / r
        for t in times | {Fraction(0)}:
            g = t.denominator * wait.denominator // _gcd(t.denominator, wait.denominator)
            if abs(t.numerator) * (g // t.denominator) + abs(wait.numerator) * (g // wait.denominator) >= lim:
                return False
    return True


def _gcd(a, b):
    while b:
        a, b = b, a % b
    return a


def _same_state(a, b):
    return json.dumps(a, sort_keys=True) == json.dumps(b, sort_keys=True)


def run_cases(cases, out, label, stats):
    items, index = [], {}
    for ci, case in enumerate(cases):
        tid = "%s-%d" % (label, ci)
        try:
            item, info = execute(case)
        except _Unobservable as ex:
            out.drift.append("%s: the real scheduler cannot be observed (%s); task %s" % (tid, ex, json.dumps(case["task"], sort_keys=True)))
            continue
        item["id"] = tid
        evs = item["events"]
        names = [e["act"]["a"] for e in evs]
        out.add_case(_replay_of(case), nontrivial=names.count("next") + names.count("after") >= 2)
        stats["runs"] += 1
        if not _fits_tlc(item) or not _tlc_safe(item):
            stats["dropped_too_big_for_tlc"] += 1
            if stats["dropped_too_big_for_tlc"] <= 3:
                out.drift.append("%s: the run produces numbers that do not fit TLC's integers (never on /repo with these inputs): last recorded state %s; task %s" % (tid, json.dumps(evs[-1]["st"], sort_keys=True)[:300] if evs else "-", json.dumps(case["task"], sort_keys=True)))
            continue
        items.append(item)
        index[tid] = (case, item, info)
        last = evs[-1]["st"]
        stats["events"] += len(evs)
        stats["kind_" + last["kind"]] = stats.get("kind_" + last["kind"], 0) + 1
        if last["kind"] != "err":
            stats["cls_" + last["cls"]] = stats.get("cls_" + last["cls"], 0) + 1
        else:
            stats["err_" + last["why"]] = stats.get("err_" + last["why"], 0) + 1
        stats["handle_runs"] += bool(case["task"]["handle"])
        stats["register_refused"] += any(e["act"]["a"] == "register" and e["st"]["exc"] == "SystemSetupError" for e in evs)
        stats["unit_mismatch_raised"] += any(e["st"]["exc"] == "RallyAssertionError" for e in evs)
        stats["type_error"] += any(e["st"]["exc"] == "TypeError" for e in evs)
        stats["attribute_error"] += any(e["st"]["exc"] == "AttributeError" for e in evs)
        stats["other_exceptions"] += any(e["st"]["exc"] not in ("-", "RallyAssertionError", "TypeError", "AttributeError", "SystemSetupError", "InvalidSyntax", "RallyError") for e in evs)
        stats["weight_changes"] += last["created"] >= 2
        stats["zero_weight_responses"] += any(e["act"]["a"] == "after" and e["act"]["w"] == 0 for e in evs)
        stats["foreign_unit_counted_as_one_op"] += last["warned"] > 0
        stats["poisson_draws"] += info["draws"]
        stats["poisson_sum_of_lambda_times_wait"] += info["norm_draws"]
        stats["runs_with_poisson_draws"] += info["draws"] > 0
        stats["deterministic_gaps"] += sum(1 for i, e in enumerate(evs) if e["act"]["a"] == "next" and e["st"]["dk"] == "det" and i > 0)
        stats["simple_ctor_calls"] += sum(1 for c in last["ctor"] if c["args"] == "task,rate")
        stats["legacy_ctor_calls"] += sum(1 for c in last["ctor"] if c["args"] == "params")
        stats["full_forwarded_calls"] += sum(1 for e in evs if e["st"]["kind"] == "full" and e["act"]["a"] in ("before", "after"))
        stats["parameter_source_injected"] += bool(last["ps"])
        stats["negative_throughput"] += last["tput"]["v"]["n"] < 0
        stats["inexact_floats"] += info["inexact"]
        stats["wrapped_custom_scheduler_without_parameter_source"] += info["wrapped_without_parameter_source"]
        stats["float_time_mismatch"] += any(not e["fok"] for e in evs)
        if info["loose"]:
            out.drift.append("%s: floats further than 1e-9 from a small rational: %s" % (tid, info["loose"][:3]))
        if case.get("model") is not None:
            stats["s2c"] += 1
            same = bool(evs) and _same_state(evs[-1]["st"], case["model"]["s"]) and _same_state(evs[-1]["reg"], case["model"]["reg"])
            stats["s2c_followed"] += same
    if not items:
        raise tlc.MachineryError("no runs for %s" % label)
    parts = _validate(items, out)
    verdicts = tracecheck.TraceVerdicts()
    for v in parts:
        verdicts.l1.update(v.l1)
        verdicts.l2.update(v.l2)
        verdicts.n_items += v.n_items
        verdicts.n_events += v.n_events
    out.states += verdicts.n_events
    out.transitions += verdicts.n_events
    bad = set(verdicts.l2) | {tid for tid, fails in verdicts.l1.items() if any(c not in PINNED for _, cl in fails for c in cl)}
    out.traces_validated += max(0, verdicts.n_items - len(bad))
    for tid, fails in sorted(verdicts.l1.items()):
        case, item, info = index[tid]
        _report_l1(out, stats, tid, fails, case, item)
    _explain_drift(out, [index[tid][1] for tid in sorted(verdicts.l2)], label)
    for tid, lines in sorted(verdicts.l2.items()):
        case, item, info = index[tid]
        ln = lines[0]
        stats["l2"] += 1
        if len(out.drift) < 25:
            ev = item["events"][ln - 1] if 1 <= ln <= len(item["events"]) else None
            out.drift.append(
                "run %s (%s): event %d (%s) is not a step of Scheduler.tla (code as it is): recorded %s; task %s; exceptions %s"
                % (tid, case["src"], ln, json.dumps(ev["act"], sort_keys=True) if ev else "?", json.dumps(ev["st"], sort_keys=True)[:700] if ev else "?", json.dumps(case["task"], sort_keys=True), info["exc_text"][:2])
            )
    return items


SELFTESTS = [
    ("Scheduler.pinned.unitcheck.cfg", "PMismatchAlwaysRaises", "UnitCheckFirst=FALSE (code): target docs/s, responses (500, docs) then (500, pages): the second one is not compared"),
    ("Scheduler.pinned.recreate.cfg", "PRecreateOnlyOnChange", "UnitCheckFirst=FALSE (code): target ops/s, responses (500, docs), (500, docs): the delegate is created twice with the same rate"),
    ("Scheduler.pinned.mixed.cfg", "PSpacingAlways", "UnitCheckFirst=FALSE (code): target ops/s, responses (500, ops) then (500, docs): spacing stays 500 * clients / T"),
    ("Scheduler.pinned.fn.cfg", "PFnUsed", "FnSchedulerWorks=FALSE (code): the first next() of a task with a function scheduler returns 0, the function is not called"),
    ("Scheduler.pinned.fnerr.cfg", "PNoInternalError", "FnSchedulerWorks=FALSE (code): TypeError in the first successful after_request"),
    ("Scheduler.pinned.guard.cfg", "PNoInternalError", "GuardMissingThroughput=FALSE (code): AttributeError in the first successful after_request of a simple scheduler without target throughput"),
    ("Scheduler.pinned.negative.cfg", "PMonotoneSchedule", "RejectNegative=FALSE (code): target-throughput -4 gives waits of -clients/4 s"),
]


def _main_cfgs(ctx):
    return [("Scheduler.quick.cfg" if ctx.quick else "Scheduler.thorough.cfg", 200 if ctx.quick else 1200), ("Scheduler.intended.cfg", 200)]


class _Prefetch:
    """Every TLC run that does not depend on an execution of the real code is started at once (at most four at a time) while the
    harness executes cases; results are fetched by key."""

    def __init__(self, ctx):
        from concurrent.futures import ThreadPoolExecutor

        tlc.scratch_root()
        self.pool = ThreadPoolExecutor(4)
        self.fut = {}
        q = ctx.quick
        self._submit("sim", self._sim, ctx, 300 if q else 4000, 18)
        self._submit("table", self._table, "Scheduler.table.cfg" if q else "Scheduler.tablebig.cfg")
        for i, (cfg, to) in enumerate(_main_cfgs(ctx)):
            self._submit(cfg, _run_tlc, "MC_Scheduler", cfg, "xsmc", timeout=to, allow_violation=True, workers=(4 if i == 0 else 2) * (1 if q else 2))
        for cfg, _p, _t in SELFTESTS:
            self._submit(cfg, _run_tlc, "MC_Scheduler", cfg, "xsmc", timeout=200, allow_violation=True, workers=1)

    def _submit(self, key, fn, *a, **kw):
        self.fut[key] = self.pool.submit(fn, *a, **kw)

    def get(self, key):
        return self.fut.pop(key).result()

    def close(self):
        self.pool.shutdown(wait=True)

    @staticmethod
    def _sim(ctx, num, depth):
        wd = tlc.prepare_workdir(SPEC, "xssim")
        simdir = os.path.join(wd, "sim")
        os.makedirs(simdir)
        res = tlc.run_tlc(wd, "MC_Scheduler", "Scheduler.sim.cfg", workers=1, simulate={"num": num, "file": os.path.join(simdir, "b")}, depth=depth, seed=ctx.seed + 31, timeout=300)
        res.simdir = simdir
        return res

    @staticmethod
    def _table(cfg):
        wd = tlc.prepare_workdir(SPEC, "xstab")
        dump = os.path.join(wd, "states")
        res = tlc.run_tlc(wd, "MC_Scheduler", cfg, dump=dump, timeout=900, workers=2, allow_violation=True)
        res.dump = dump if os.path.exists(dump) else dump + ".dump"
        return res


def _leg_m(ctx, out, pre):
    for cfg, _to in _main_cfgs(ctx):
        res = pre.get(cfg)
        out.add_tlc(res)
        if not res.ok:
            raise tlc.MachineryError("model violates %s in %s: %s" % (res.invariant_violated or res.property_violated or "?", cfg, res.out[-1500:]))
        out.note("leg M %s: %d distinct states, depth %d, %.1fs" % (cfg, res.distinct, res.depth, res.wall_s))
    for cfg, prop, text in SELFTESTS:
        res = pre.get(cfg)
        if res.property_violated != prop:
            raise tlc.MachineryError("self-test failed: %s no longer violates %s (%s)" % (cfg, prop, res.property_violated or res.invariant_violated or res.error))
        out.extra.setdefault("model_selftests", []).append("%s violates %s in the model, as expected: %s" % (cfg, prop[1:], text))


def run(ctx, out):
    out.rule = (
        "case = task (schedule name, descriptors of target-throughput / target-interval and their spelling, clients, resolution through scheduler_for "
        "or driver.schedule_for) + sequence of register / resolve / next / before / after(now, weight, unit) calls + seed of the random generator; "
        "distinct by hash of that input; non-trivial = at least 2 next / after calls. Sources: TLC -simulate behaviours, TLC table (S2C), seeded random longer runs (C2S only)."
    )
    out.assumptions = [
        "one client, one task; next() is always called with the previously returned value (as ScheduleHandle.__call__ does), in half of the runs through the real ScheduleHandle generator",
        "floats are abstracted to the closest rational with denominator <= 10^4 (times) / 10^6 (rates); a float further than 1e-9 (relative) from it is drift; "
        "Poisson: the module `random` inside esrally.driver.scheduler is replaced by a proxy around a private seeded random.Random - the returned time must equal "
        "previous time + replica.expovariate(lambda) bit by bit (L2), lambda = T / (clients * weight) is L1; the distribution itself (mean rate) is not a verdict",
        "internal state of UnitAwareScheduler (first_request, current_weight, scheduler, scheduler_class) and the registry dict are read for L2; L1 clauses about times, exceptions and "
        "the arguments custom schedulers receive only use what the public calls return / raise / forward",
        "custom schedulers are the harness' own: function current+7, legacy class(params) current+3, simple class(task, target_throughput) current+1/target_throughput (docs/advanced.rst), full class(task) current+11",
        "not modelled: the throughput of test mode (sys.maxsize does not fit TLC integers), NaN / infinite values, task.schedule = '' , several clients sharing the global random generator",
    ]
    pre = _Prefetch(ctx)
    try:
        _run(ctx, out, pre)
    finally:
        pre.close()


def _run(ctx, out, pre):
    stats = {
        k: 0
        for k in (
            "runs events dropped_too_big_for_tlc handle_runs register_refused unit_mismatch_raised type_error attribute_error other_exceptions weight_changes zero_weight_responses "
            "foreign_unit_counted_as_one_op poisson_draws poisson_sum_of_lambda_times_wait runs_with_poisson_draws deterministic_gaps simple_ctor_calls legacy_ctor_calls full_forwarded_calls parameter_source_injected "
            "negative_throughput inexact_floats wrapped_custom_scheduler_without_parameter_source float_time_mismatch s2c s2c_followed l2"
        ).split()
    }
    stats.update(l1={}, l1_new={})
    sim = behaviours_from_tlc(ctx, out, pre)
    out.note("leg S2C: %d TLC -simulate behaviours" % len(sim))
    items = run_cases(sim, out, "sim", stats)
    out.sample({"source": "tlc-simulate", "task": sim[0]["task"], "acts": sim[0]["acts"][:6], "recorded_last_state": items[0]["events"][-1]["st"]})
    table = table_from_tlc(ctx, out, pre)
    before = stats["s2c_followed"]
    run_cases(table, out, "tab", stats)
    out.extra["table"] = {"rows": len(table), "real_code_equals_table": stats["s2c_followed"] - before}
    out.note("leg S2C: table of %d paths, the real code ends in the model's state in %d" % (len(table), stats["s2c_followed"] - before))
    rnd = random.Random(ctx.seed + 71)
    rc = [random_case(rnd) for _ in range(1200 if ctx.quick else 20000)]
    items = run_cases(rc, out, "rnd", stats)
    _leg_m(ctx, out, pre)
    out.sample({"source": "random", "task": rc[0]["task"], "variant": rc[0]["variant"], "acts": rc[0]["acts"][:8], "recorded_last_state": items[0]["events"][-1]["st"]})
    out.extra["coverage_of_runs"] = stats
    out.note(
        "leg C2S: %d runs (%d events) validated, %d accepted; S2C: %d/%d TLC behaviours / table rows end in the model's state; resolved kinds %s, classes %s, errors %s; "
        "unit mismatch raised in %d runs, weight changes in %d, zero-weight responses in %d, foreign unit as 1 op in %d, %d Poisson draws compared with the replica generator, "
        "%d deterministic gaps, %d runs through ScheduleHandle, parameter source injected in %d; %d floats were not exactly the recorded rational"
        % (
            stats["runs"], stats["events"], out.traces_validated, stats["s2c_followed"], stats["s2c"],
            {k[5:]: v for k, v in sorted(stats.items()) if k.startswith("kind_")}, {k[4:]: v for k, v in sorted(stats.items()) if k.startswith("cls_")},
            {k[4:]: v for k, v in sorted(stats.items()) if k.startswith("err_")}, stats["unit_mismatch_raised"], stats["weight_changes"], stats["zero_weight_responses"],
            stats["foreign_unit_counted_as_one_op"], stats["poisson_draws"], stats["deterministic_gaps"], stats["handle_runs"], stats["parameter_source_injected"], stats["inexact_floats"],
        )
    )  # fmt: skip
    for key in (
        "register_refused unit_mismatch_raised weight_changes zero_weight_responses foreign_unit_counted_as_one_op poisson_draws deterministic_gaps simple_ctor_calls legacy_ctor_calls "
        "full_forwarded_calls parameter_source_injected handle_runs s2c_followed kind_unthr kind_ua kind_legacy kind_full err_both err_interval err_pattern err_type err_unknown-name"
    ).split():
        if not stats.get(key):
            out.vacuous.append("no executed run exercised: " + key)
    # ---- binding self-test: corrupted recordings must be rejected
    base = next((it for it in items if sum(1 for e in it["events"] if e["act"]["a"] == "next" and e["st"]["dk"] == "det") >= 2), None)
    if base is None:
        if not (out.violations or out.drift):
            raise tlc.MachineryError("binding self-test: no recorded run with two deterministic gaps")
        out.note("binding self-test skipped: no recorded run is suitable")
    else:
        k = max(j for j, e in enumerate(base["events"]) if e["act"]["a"] == "next" and e["st"]["dk"] == "det")
        m1 = copy.deepcopy(base)
        m1["id"] = "bind-time"
        for e in m1["events"][k:]:
            e["st"]["last"] = {"n": e["st"]["last"]["n"] + 1, "d": e["st"]["last"]["d"]}
        m2 = copy.deepcopy(base)
        m2["id"] = "bind-drop"
        del m2["events"][k]
        m3 = copy.deepcopy(base)
        m3["id"] = "bind-exc"
        j = next(j for j, e in enumerate(m3["events"]) if e["act"]["a"] == "resolve")
        for e in m3["events"][j:]:
            e["st"]["kind"] = "unthr"
        v = tracecheck.validate(SPEC, "TraceScheduler", "TraceScheduler.cfg", [m1, m2, m3], name="xsbind", skip_field="skip")
        missed = [m for m in ("bind-time", "bind-drop", "bind-exc") if m not in v.l1 and m not in v.l2]
        if missed or "bind-time" not in v.l1 or "bind-exc" not in v.l1:
            raise tlc.MachineryError("binding self-test failed: corrupted recordings accepted: %s (l1 %s, l2 %s)" % (missed, sorted(v.l1), sorted(v.l2)))
        out.extra["binding_selftest"] = "a recording with a shifted scheduled time (L1 Spacing), one without one of its next events and one that claims an unthrottled scheduler (L1 ResolvedExact) are rejected by TLC"
    for c, rec in sorted(out.extra.get("pinned_behaviour_observed", {}).items()):
        rec.pop("size", None)
        out.note("pinned behaviour of /repo (strong clause %s fails in %d runs; model switch %s = FALSE): %s; smallest example %s" % (c, rec["runs"], rec["switch"], rec["what"], json.dumps(rec["example"], sort_keys=True)[:700]))
    if stats["poisson_draws"]:
        stats["poisson_sum_of_lambda_times_wait"] = round(stats["poisson_sum_of_lambda_times_wait"], 3)
        out.note("informational, not a verdict: mean of lambda * wait over %d Poisson draws = %.4f (1 for an exponential distribution)" % (stats["poisson_draws"], stats["poisson_sum_of_lambda_times_wait"] / stats["poisson_draws"]))
    if stats["wrapped_custom_scheduler_without_parameter_source"]:
        out.extra["observations"] = [
            "%d runs through driver.schedule_for with a legacy / simple custom scheduler that declares a `parameter_source` property: the parameter source is only injected "
            "into top-level (full) schedulers, hasattr() is asked of the wrapper (LegacyWrappingScheduler / UnitAwareScheduler), not of the custom object" % stats["wrapped_custom_scheduler_without_parameter_source"]
        ]
        out.note("observation: " + out.extra["observations"][0])
    if stats["l1"]:
        out.note("L1 verdicts by clause: %s" % json.dumps(stats["l1"], sort_keys=True))
    if out.vacuous:
        out.note("VACUOUS (kinds of runs this seed did not produce): %s" % out.vacuous)
    out.drift.sort(key=lambda d: 0 if "seems to have been repaired" in d else 1)
    if out.drift:
        out.note("MODEL-DRIFT in %d places, first: %s" % (len(out.drift), out.drift[0][:900]))
