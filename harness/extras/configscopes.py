"""ConfigScopes (extra) — Rally's layered configuration: esrally/config.py Config / ConfigFile / auto_load_local_config.
A configuration is a partial map <<scope, section, key>> -> value (specs/ConfigScopes).  Invariants: opts() returns the value of the
most specific scope defining the key, whatever the insertion order; a later add() in the same scope (None = application) replaces
the earlier one; opts(mandatory=True) raises a ConfigError naming section/key iff no scope defines the key, else the default is
returned; exists() <=> effective value is not None, consistent with opts(); all_opts(section) = exactly the section's keys with the
values opts() returns; add_all copies the slots of exactly one section (source wins unless the target defines the key in a narrower
scope); load_config = built-in defaults + ini file as strings in application scope (earlier adds forgotten, ${CONFIG_DIR} / $$ / %%
rewritten, version checked only with auto_upgrade); ConfigFile.store + load round trip; auto_load_local_config = local file named
like the base config (packaged default installed when missing) + the six fixed and the additional sections of the base config, base
values winning, nothing else leaking.  Eight naive readings the code does NOT satisfy are named (Naive*) and proved by TLC.
Legs: M = TLC on quick.cfg (all calls, depth 3) + table.cfg (all scope assignments of two keys); S2C = every table state and TLC
-simulate behaviours on the real Config in a scratch RALLY_HOME; C2S = those + seeded random sequences + deviation witnesses (L1/L2).
"""
import configparser
import glob
import os
import random
import re
import shutil
import time

from .. import tlc, tracecheck
from ..core import Violation
from ..tlaparse import parse_dump, parse_value, to_json

WORKERS = 4  # other checks run in parallel on the same machine
DIR_MARK = "@DIR@"
BUILTIN = {
    ("source", "distribution.dir"): ("str", "distributions"),
    ("benchmarks", "track.repository.dir"): ("str", "tracks"),
    ("benchmarks", "track.default.repository"): ("str", "default"),
    ("provisioning", "node.name.prefix"): ("str", "rally-node"),
    ("provisioning", "node.http.port"): ("int", "39200"),
    ("mechanic", "team.repository.dir"): ("str", "teams"),
    ("mechanic", "team.default.repository"): ("str", "default"),
}
FIXED_PROBES = [("mechanic", "team.repository.dir"), ("provisioning", "node.http.port"), ("meta", "config.version"), ("nosuch", "no.key")]
DEFAULT_PROBES = [("reporting", "datastore.type"), ("node", "root.dir"), ("system", "env.name"), ("distributions", "release.cache"), ("reporting", "datastore.password")]


# ---------------------------------------------------------------------------------------------------
# values and raw ini values
# ---------------------------------------------------------------------------------------------------
def py_value(v):
    t = v["t"]
    if t == "str":
        return v["v"]
    if t == "int":
        return int(v["v"])
    if t == "bool":
        return v["v"] == "True"
    if t == "NoneType":
        return None
    raise tlc.MachineryError("unsupported value type %r" % (v,))


def render(raw, rnd):
    """Token sequence -> the characters in the ini file."""
    out = []
    for i, tk in enumerate(raw):
        nxt = raw[i + 1] if i + 1 < len(raw) else None
        # an unbraced placeholder is only usable where the next character cannot continue the identifier
        free = nxt is None or (nxt["t"] == "lit" and nxt["s"][:1] in ("/", " ", "-", ".")) or nxt["t"] in ("esc", "dir", "unk", "pct")
        if tk["t"] == "lit":
            out.append(tk["s"])
        elif tk["t"] == "dir":
            out.append("$CONFIG_DIR" if free and rnd.random() < 0.3 else "${CONFIG_DIR}")
        elif tk["t"] == "esc":
            out.append("$$")
        elif tk["t"] == "pct":
            out.append("%%")
        elif tk["t"] == "unk":
            out.append("$" + tk["s"] if free and rnd.random() < 0.3 else "${%s}" % tk["s"])
        else:
            raise tlc.MachineryError("unknown token %r" % (tk,))
    return "".join(out)


_HEADER = re.compile(r"^\[(.*)\]\s*$")


def ini_set(path, section, key, text):
    """Edits an ini file the way a user would: replaces the key's line in the section, or adds it / the section."""
    line = "%s = %s\n" % (key, text) if text else "%s =\n" % key
    if not os.path.isfile(path):
        os.makedirs(os.path.dirname(path), exist_ok=True)
        with open(path, "w", encoding="utf-8") as f:
            f.write("[%s]\n%s" % (section, line))
        return
    with open(path, encoding="utf-8") as f:
        lines = f.readlines()
    if lines and not lines[-1].endswith("\n"):
        lines[-1] += "\n"
    start = None
    for i, ln in enumerate(lines):
        m = _HEADER.match(ln)
        if m and m.group(1) == section:
            start = i
            break
    if start is None:
        lines += ["\n", "[%s]\n" % section, line]
    else:
        end = len(lines)
        for i in range(start + 1, len(lines)):
            if _HEADER.match(lines[i]):
                end = i
                break
        for i in range(start + 1, end):
            if "=" in lines[i] and lines[i].split("=", 1)[0].strip().lower() == key.lower():
                lines[i] = line
                break
        else:
            lines.insert(start + 1, line)
    with open(path, "w", encoding="utf-8") as f:
        f.writelines(lines)


# ---------------------------------------------------------------------------------------------------
# the real code
# ---------------------------------------------------------------------------------------------------
class Runner:
    """Executes one item (a sequence of calls) on the real esrally.config objects in a scratch RALLY_HOME."""

    def __init__(self, home, rnd):
        self.home = home
        self.rnd = rnd

    def _proj(self, x):
        s = str(x)
        if isinstance(x, str):
            s = s.replace(self.confdir, DIR_MARK)
        return {"t": type(x).__name__, "v": s}

    def _store(self, cfg):
        res = []
        for (scope, section, key), v in cfg._opts.items():  # pylint: disable=protected-access
            res.append({"sc": scope.value, "s": section, "k": key, "v": self._proj(v)})
        return sorted(res, key=lambda e: (e["s"], e["k"], e["sc"]))

    def _result(self, fn):
        try:
            return dict(self._proj(fn()), exc=False), True
        except Exception as ex:  # pylint: disable=broad-except
            return {"exc": True, "t": type(ex).__name__, "v": str(ex)}, ex

    def _observe(self, cfg, s, k):
        man, ex = self._result(lambda: cfg.opts(s, k, default_value="<default>"))
        named = True
        if man["exc"]:
            named = s in man["v"] and k in man["v"]
        optd, _ = self._result(lambda: cfg.opts(s, k, default_value="<default>", mandatory=False))
        optn, _ = self._result(lambda: cfg.opts(s, k, mandatory=False))
        return {"s": s, "k": k, "man": man, "named": named, "optd": optd, "optn": optn, "ex": bool(cfg.exists(s, k))}

    def _path(self, name):
        return os.path.join(self.confdir, "rally-%s.ini" % name if name else "rally.ini")

    def run(self, item, probes=None, every=True):
        """item: {id, names, cfgName, baseName, ops}.  Returns the trace item (events with observations)."""
        from esrally import config

        shutil.rmtree(self.home, ignore_errors=True)
        os.makedirs(self.home)
        old_home = os.environ.get("RALLY_HOME")
        os.environ["RALLY_HOME"] = self.home
        try:
            self.confdir = os.path.join(self.home, ".rally")
            cfg = config.Config(config_name=item["cfgName"] or None)
            base = config.Config(config_name=item["baseName"] or None)
            seen = list(probes or [])
            events = []
            for i, op in enumerate(item["ops"]):
                res = "ok"
                kind = op["op"]
                try:
                    if kind == "add":
                        target = cfg if op["tgt"] == "cfg" else base
                        target.add(config.Scope(op["sc"]) if op["sc"] else None, op["s"], op["k"], py_value(op["v"]))
                        seen.append((op["s"], op["k"]))
                    elif kind == "addall":
                        cfg.add_all(base, op["s"])
                    elif kind == "setfile":
                        ini_set(self._path(op["name"]), op["s"], op["k"], render(op["raw"], self.rnd))
                        seen.append((op["s"], op["k"]))
                    elif kind == "delfile":
                        if os.path.isfile(self._path(op["name"])):
                            os.remove(self._path(op["name"]))
                    elif kind == "store":
                        cp = configparser.ConfigParser()
                        d = {}
                        for e in op["ents"]:
                            d.setdefault(e["s"], {})[e["k"]] = render(e["raw"], self.rnd)
                            seen.append((e["s"], e["k"]))
                        cp.read_dict(d)
                        config.ConfigFile(op["name"] or None).store(cp)
                    elif kind == "load":
                        cfg.load_config(auto_upgrade=op["au"])
                    elif kind == "autoload":
                        addl = list(op["addl"])
                        if not addl and self.rnd.random() < 0.5:
                            addl = None
                        cfg = config.auto_load_local_config(base, additional_sections=addl)
                    else:
                        raise tlc.MachineryError("unknown op %r" % (op,))
                except tlc.MachineryError:
                    raise
                except Exception as ex:  # pylint: disable=broad-except
                    res = type(ex).__name__
                ev = {"op": op, "chk": bool(every or i == len(item["ops"]) - 1)}
                if ev["chk"]:
                    pr = []
                    for p in seen:
                        if p not in pr:
                            pr.append(p)
                    ev.update(
                        res=res,
                        name=cfg.name or "",
                        cpresent=bool(cfg.config_present()),
                        store=self._store(cfg),
                        bstore=self._store(base),
                        present=[{"n": nm, "p": os.path.isfile(self._path(nm))} for nm in item["names"]],
                        obs=[self._observe(cfg, s, k) for s, k in pr],
                        all=[{"s": s, "kv": [{"k": k, "v": self._proj(v)} for k, v in sorted(cfg.all_opts(s).items())]} for s in sorted({p[0] for p in pr})],
                    )
                events.append(ev)
            return {"id": item["id"], "names": item["names"], "cfgName": item["cfgName"], "baseName": item["baseName"], "events": events}
        finally:
            if old_home is None:
                os.environ.pop("RALLY_HOME", None)
            else:
                os.environ["RALLY_HOME"] = old_home


# ---------------------------------------------------------------------------------------------------
# case sources
# ---------------------------------------------------------------------------------------------------
def _val(t, v):
    return {"t": t, "v": v}


def _add(tgt, sc, s, k, v):
    return {"op": "add", "tgt": tgt, "sc": sc, "s": s, "k": k, "v": v}


def table_items(ctx, out, rnd):
    """Leg M on the table + one item per state: the store is built by add() calls in a random order, some slots are first
    written with another value (overwrite), then every lookup is observed."""
    cfg = "ConfigScopes.table.cfg" if ctx.quick else "ConfigScopes.tablewide.cfg"
    wd = tlc.prepare_workdir("ConfigScopes", "xcfgtable")
    dump = os.path.join(wd, "states.dump")
    res = tlc.run_tlc(wd, "MC_ConfigScopes", cfg, workers=WORKERS, timeout=1200, dump=dump, allow_violation=True)
    out.add_tlc(res)
    if not res.ok:
        raise tlc.MachineryError("model violates %s in %s: %s" % (res.invariant_violated, cfg, res.out[-1500:]))
    out.note("leg M %s: %d distinct states in %.1fs" % (cfg, res.distinct, res.wall_s))
    stores = []
    for stt in parse_dump(dump + ".dump" if os.path.exists(dump + ".dump") else dump):
        o = stt["st"]["cfg"]["o"]
        ents = sorted((sl[1], sl[2], sl[0], v["t"], v["v"]) for sl, v in o.items())
        stores.append(ents)
    stores.sort()
    if len(stores) > 100000:
        stores = [s for i, s in enumerate(stores) if i % 3 == ctx.seed % 3]
        out.note("1/3 sample of the table executed on the implementation")
    else:
        out.exhaustive = True
    items = []
    junk = [_val("str", "junk"), _val("NoneType", "None"), _val("int", "0")]
    for i, ents in enumerate(stores):
        ops = []
        for s, k, sc, t, v in ents:
            if sc == 1 and BUILTIN.get((s, k)) == (t, v):
                continue  # the built-in default itself
            ops.append(_add("cfg", 0 if sc == 1 and rnd.random() < 0.3 else sc, s, k, _val(t, v)))
        rnd.shuffle(ops)
        # overwrites: an earlier add to the same slot with another value must not matter
        for op in list(ops):
            if rnd.random() < 0.25:
                ops.insert(rnd.randint(0, ops.index(op)), dict(op, v=rnd.choice(junk)))
        if not ops:
            ops = [_add("cfg", 1, "reporting", "car.names", _val("str", "x"))]
        items.append({"id": "t%d" % i, "names": [""], "cfgName": "", "baseName": "", "ops": ops})
    return items


def sim_items(ctx, out, num, depth):
    wd = tlc.prepare_workdir("ConfigScopes", "xcfgsim")
    simdir = os.path.join(wd, "sim")
    os.makedirs(simdir)
    res = tlc.run_tlc(wd, "MC_ConfigScopes", "ConfigScopes.sim.cfg", workers=1, simulate={"num": num, "file": os.path.join(simdir, "b")}, depth=depth, seed=ctx.seed + 23, timeout=900)
    if not res.ok:
        raise tlc.MachineryError("simulation reported a model violation: %s" % res.out[-2000:])
    out.add_tlc(res)
    items = []
    act_re = re.compile(r"^/\\ act = (.*?)(?=^/\\ |\Z)", re.M | re.S)
    for fi, fn in enumerate(sorted(glob.glob(os.path.join(simdir, "b_*")))):
        with open(fn, encoding="utf-8") as f:
            text = f.read()
        acts = []
        for block in text.split("\nSTATE_")[1:]:
            body = "\n".join(ln for ln in block.splitlines()[1:] if not ln.startswith("\\*") and not ln.startswith("===="))
            m = act_re.search(body)
            if not m:
                raise tlc.MachineryError("no act in a state of %s" % fn)
            acts.append(to_json(parse_value(m.group(1).strip())))
        if len(acts) < 2 or acts[0]["op"] != "init":
            continue
        items.append({"id": "s%d" % fi, "names": ["", "x"], "cfgName": acts[0]["cn"], "baseName": acts[0]["bn"], "ops": acts[1:]})
    return items


SECTIONS = ["reporting", "tracks", "teams", "distributions", "defaults", "system", "mechanic", "track", "driver", "client", "telemetry", "node", "source", "provisioning", "benchmarks", "meta", "race"]
KEYS = ["datastore.type", "default.url", "release.cache", "env.name", "team.repository.dir", "node.http.port", "root.dir", "car.names", "config.version", "time.start", "x.y"]


def _rand_raw(rnd):
    pieces = [
        lambda: {"t": "lit", "s": rnd.choice(["a", "b c", "/opt/data", "https://example.org/x.git", "True", "9200", "in-memory", "x=y", "[z]", "#1"])},
        lambda: {"t": "dir", "s": ""},
        lambda: {"t": "esc", "s": ""},
        lambda: {"t": "pct", "s": ""},
    ]
    r = rnd.random()
    if r < 0.1:
        return []
    if r < 0.55:
        return [pieces[0]()]
    if r < 0.62:
        return [{"t": "unk", "s": rnd.choice(["HOME", "foo", "CONFIG_DIRX"])}]
    raw = []
    for _ in range(rnd.randint(1, 4)):
        tk = rnd.choice(pieces)()
        if tk["t"] == "lit" and raw and raw[-1]["t"] == "lit":
            continue
        raw.append(tk)
    return raw


VERSION_KEY = ("meta", "config.version")


def _version_raw(rnd):
    # canonical decimal numbers below 100 or something that is no number (see assumptions)
    v = rnd.choice(["17", "17", "17", "16", "18", "0", "abc", "99", ""])
    return [{"t": "lit", "s": v}] if v else []


def _norm_raw(raw):
    # the model identifies a raw value with its token sequence: merge adjacent literals, drop empty ones
    res = []
    for tk in raw:
        if tk["t"] == "lit" and not tk["s"]:
            continue
        if tk["t"] == "lit" and res and res[-1]["t"] == "lit":
            res[-1] = {"t": "lit", "s": res[-1]["s"] + tk["s"]}
        else:
            res.append(dict(tk))
    return res


def random_items(seed, count):
    rnd = random.Random(seed)
    items = []
    for i in range(count):
        names = ["", rnd.choice(["x", "it", "night-ly"])]
        secs = rnd.sample(SECTIONS, rnd.randint(2, 5))
        keys = rnd.sample(KEYS, rnd.randint(2, 4))
        vals = [_val("str", "a"), _val("str", "b"), _val("str", ""), _val("NoneType", "None"), _val("int", "0"), _val("int", "17"), _val("bool", "False"), _val("bool", "True"), _val("str", "None")]
        ops = []
        for _ in range(rnd.randint(4, 18)):
            r = rnd.random()
            if r < 0.3:
                ops.append(_add("cfg", rnd.randint(0, 5), rnd.choice(secs), rnd.choice(keys), rnd.choice(vals)))
            elif r < 0.5:
                ops.append(_add("base", rnd.randint(0, 5), rnd.choice(secs + ["system", "reporting"]), rnd.choice(keys), rnd.choice(vals)))
            elif r < 0.6:
                ops.append({"op": "addall", "s": rnd.choice(secs + ["nosuch"])})
            elif r < 0.72:
                if rnd.random() < 0.4:
                    ops.append({"op": "setfile", "name": rnd.choice(names), "s": "meta", "k": "config.version", "raw": _version_raw(rnd)})
                else:
                    s, k = rnd.choice(secs), rnd.choice(keys)
                    ops.append({"op": "setfile", "name": rnd.choice(names), "s": s, "k": k, "raw": _version_raw(rnd) if (s, k) == VERSION_KEY else _norm_raw(_rand_raw(rnd))})
            elif r < 0.75:
                ops.append({"op": "delfile", "name": rnd.choice(names)})
            elif r < 0.82:
                ents = {}
                if rnd.random() < 0.8:
                    ents[("meta", "config.version")] = [{"t": "lit", "s": "17"}]
                for _j in range(rnd.randint(0, 4)):
                    sk = (rnd.choice(secs), rnd.choice(keys))
                    ents[sk] = _version_raw(rnd) if sk == VERSION_KEY else _norm_raw(_rand_raw(rnd))
                if not ents:
                    continue
                ops.append({"op": "store", "name": rnd.choice(names), "ents": [{"s": s, "k": k, "raw": raw} for (s, k), raw in sorted(ents.items())]})
            elif r < 0.9:
                ops.append({"op": "load", "au": rnd.random() < 0.6})
            else:
                ops.append({"op": "autoload", "addl": rnd.sample(secs + ["mechanic", "nosuch"], rnd.randint(0, 3))})
        items.append({"id": "r%d" % i, "names": names, "cfgName": rnd.choice(names), "baseName": rnd.choice(names), "ops": ops})
    return items


def witness_items():
    """Minimal inputs of the named deviations (ConfigScopes!Naive*) and of the scenarios quoted in the docs / tests."""
    a, none = _val("str", "a"), _val("NoneType", "None")
    v17 = {"op": "setfile", "name": "", "s": "meta", "k": "config.version", "raw": [{"t": "lit", "s": "17"}]}

    def item(i, ops, base=""):
        return {"id": "w-" + i, "names": ["", "x"], "cfgName": "", "baseName": base, "ops": ops}

    return [
        item("none-hides", [_add("cfg", 1, "s", "k", a), _add("cfg", 3, "s", "k", none)]),
        item("narrow-first", [_add("cfg", 5, "s", "k", a), _add("cfg", 1, "s", "k", _val("str", "b")), _add("cfg", 0, "s", "k", _val("str", "c"))]),
        item("addall-target-narrower", [_add("cfg", 3, "s", "k", a), _add("base", 1, "s", "k", _val("str", "b")), {"op": "addall", "s": "s"}]),
        item("addall-keeps-scopes", [_add("base", 5, "s", "k", _val("str", "narrow")), _add("base", 1, "s", "k", _val("str", "broad")), _add("cfg", 2, "s", "k", a), _add("cfg", 1, "t", "k", a), {"op": "addall", "s": "s"}]),
        item("newer-version", [dict(v17, raw=[{"t": "lit", "s": "18"}]), {"op": "load", "au": True}, {"op": "autoload", "addl": []}]),
        item("load-forgets-overrides", [v17, _add("cfg", 2, "s", "k", a), {"op": "load", "au": True}]),
        item("failed-upgrade-keeps-file-content", [dict(v17, raw=[{"t": "lit", "s": "16"}]), _add("cfg", 2, "s", "k", a), {"op": "load", "au": True}]),
        item("version-not-checked", [dict(v17, raw=[{"t": "lit", "s": "16"}]), {"op": "load", "au": False}]),
        item("nonnumeric-version", [dict(v17, raw=[{"t": "lit", "s": "abc"}]), {"op": "load", "au": True}]),
        item("dollar", [v17, {"op": "setfile", "name": "", "s": "reporting", "k": "datastore.password", "raw": [{"t": "lit", "s": "pa"}, {"t": "esc", "s": ""}, {"t": "lit", "s": "word"}, {"t": "pct", "s": ""}]}, {"op": "load", "au": True}]),
        item("unknown-placeholder", [v17, {"op": "setfile", "name": "", "s": "reporting", "k": "datastore.password", "raw": [{"t": "lit", "s": "pa"}, {"t": "unk", "s": "word"}]}, {"op": "load", "au": True}]),
        item("port-type", [v17, {"op": "setfile", "name": "", "s": "provisioning", "k": "node.http.port", "raw": [{"t": "lit", "s": "39200"}]}, {"op": "load", "au": True}]),
        item(
            "autoload-named",
            [
                dict(v17, name="x"),
                {"op": "setfile", "name": "x", "s": "system", "k": "env.name", "raw": [{"t": "lit", "s": "remote"}]},
                {"op": "setfile", "name": "x", "s": "node", "k": "root.dir", "raw": [{"t": "dir", "s": ""}, {"t": "lit", "s": "/bench"}]},
                _add("base", 1, "system", "env.name", _val("str", "coordinator")),
                _add("base", 1, "system", "time.start", _val("str", "t0")),
                _add("base", 3, "mechanic", "car.names", _val("str", "4gheap")),
                _add("base", 1, "node", "root.dir", _val("str", "/coordinator")),
                {"op": "autoload", "addl": ["mechanic"]},
            ],
            base="x",
        ),
        item("autoload-default", [_add("base", 2, "reporting", "datastore.type", _val("str", "elasticsearch")), _add("base", 1, "driver", "on.error", a), {"op": "autoload", "addl": []}]),
    ]


# ---------------------------------------------------------------------------------------------------
def _sig(item, clauses):
    return {"clauses": sorted(clauses), "src": item["id"][0]}


def run(ctx, out):
    out.rule = (
        "case = one sequence of calls (add on the config under test / on the base config, add_all, manual ini edit, ConfigFile.store, delete, "
        "load_config, auto_load_local_config) with the observations after the checked calls; distinct by hash; non-trivial = at least 2 calls. "
        "Sources: every state of the TLC table (S2C, exhaustive), TLC -simulate behaviours (S2C), seeded random sequences and hand-written witnesses (C2S only)."
    )
    out.assumptions = [
        "keys and sections are lower-case strings (configparser lower-cases keys), there is no [DEFAULT] section, values are str/int/bool/None",
        "raw ini values are sequences of: text without $ % newline or outer blanks, ${CONFIG_DIR}, $$, %%, ${unknown}; a lone % or $ (InterpolationSyntaxError / ValueError with a half-filled config) is not modelled",
        "config.version values are canonical decimal numbers below 100 or non-numeric; no migration exists between EARLIEST_SUPPORTED_VERSION and CURRENT_CONFIG_VERSION (both 17)",
        "the configuration directory is normalised to @DIR@ in recorded values; Config._opts is read to project the store (as add_all itself does)",
    ]
    rnd = random.Random(ctx.seed + 4711)
    # ---- Leg M
    cfg = "ConfigScopes.quick.cfg" if ctx.quick else "ConfigScopes.thorough.cfg"
    wd = tlc.prepare_workdir("ConfigScopes", "xcfgmc")
    res = tlc.run_tlc(wd, "MC_ConfigScopes", cfg, workers=WORKERS if ctx.quick else 2 * WORKERS, timeout=1500, allow_violation=True)
    out.add_tlc(res)
    if not res.ok:
        raise tlc.MachineryError("model violates %s in %s (model and code are supposed to agree on the unchanged tree): %s" % (res.invariant_violated or res.property_violated, cfg, res.out[-1500:]))
    out.note("leg M %s: %d distinct states, depth %d, %.1fs (the ASSUMEs of MC_ConfigScopes prove the 8 named deviations)" % (cfg, res.distinct, res.depth, res.wall_s))
    # ---- cases
    runner = Runner(os.path.join(tlc.scratch("xcfghome"), "home"), rnd)
    sources = []
    tab = table_items(ctx, out, rnd)
    table_probes = [("mechanic", "team.repository.dir"), ("mechanic", "car.names"), ("mechanic", "team.default.repository"), ("reporting", "car.names")]
    sources.append(("table", tab, table_probes, False))
    sim = sim_items(ctx, out, 250 if ctx.quick else 2500, 15)
    sources.append(("sim", sim, FIXED_PROBES + DEFAULT_PROBES[:2], True))
    sources.append(("random", random_items(ctx.seed, 300 if ctx.quick else 4000), FIXED_PROBES + DEFAULT_PROBES, True))
    sources.append(("witness", witness_items(), FIXED_PROBES + DEFAULT_PROBES, True))
    traces = []
    index = {}
    opcount = {}
    for label, items, probes, every in sources:
        t0 = time.time()  # (reporting only)
        for it in items:
            tr = runner.run(it, probes=probes, every=every)
            traces.append(tr)
            index[tr["id"]] = it
            out.add_case((it["cfgName"], it["baseName"], it["ops"]), nontrivial=len(it["ops"]) >= 2)
            for ev in tr["events"]:
                key = ev["op"]["op"] + ("" if ev.get("res", "ok") == "ok" else ":" + ev["res"])
                opcount[key] = opcount.get(key, 0) + 1
        out.note("%s: %d items executed on esrally.config (%.1fs)" % (label, len(items), time.time() - t0))
    shutil.rmtree(runner.home, ignore_errors=True)
    out.extra["calls_executed"] = opcount
    out.note("calls executed (op[:exception]): %s" % ", ".join("%s=%d" % kv for kv in sorted(opcount.items())))
    rare = [need for need in ("add", "addall", "setfile", "store", "load", "autoload", "delfile") if opcount.get(need, 0) < 20]
    if rare:
        raise tlc.MachineryError("calls (almost) never exercised: %s" % rare)
    w = [t for t in traces if t["id"] == "w-autoload-named"][0]
    out.sample({"source": "witness autoload-named", "ops": index["w-autoload-named"]["ops"], "observed": [o for o in w["events"][-1]["obs"] if o["s"] in ("system", "node", "mechanic")]})
    out.sample({"source": "table", "ops": tab[len(tab) // 2]["ops"]})
    if sim:
        out.sample({"source": "tlc-simulate", "ops": sim[0]["ops"][:6]})
    # ---- C2S
    t0 = time.time()
    verdicts = tracecheck.validate("ConfigScopes", "TraceConfigScopes", "TraceConfigScopes.cfg", traces, name="xcfgtrace", chunk=3000, timeout=1500)
    out.states += verdicts.n_events
    out.transitions += verdicts.n_events
    out.traces_validated += verdicts.accepted(len(traces))
    out.note("leg C2S: %d of %d traces accepted by TLC (%d checked events, %.1fs)" % (out.traces_validated, len(traces), verdicts.n_events, time.time() - t0))
    for tid, fails in verdicts.l1.items():
        it = index[tid]
        clauses = sorted(min(fails)[1])  # the clauses of the first failing call (later calls of the item only repeat it)
        out.violations.append(Violation(",".join(clauses), it, signature=_sig(it, clauses), detail="item %s first failing call %d" % (tid, fails[0][0])))
    for tid, lines in verdicts.l2.items():
        out.drift.append("item %s: call %d (%s) is not the Step of ConfigScopes.tla" % (tid, lines[0], index[tid]["ops"][lines[0] - 1]["op"]))
