"""Extra module Paging: request protocols of Rally's stateful search runners (runner.Query: search, scroll-search, paginated-search
with search_after; OpenPointInTime / ClosePointInTime / CompositeContext), specs/Paging.  A fake Elasticsearch (N hits, capped total,
scroll contexts / points in time open or closed, one scripted failing request, rotating ids) and the runner as the sequence of wire
requests and returned meta data over iterations that share ONE params object.  Invariants (TLC + L1 on every recorded run): pages of a
call are contiguous, each hit at most once and in order (InOrderOnce); <= `pages` pages, a call not stopped by the limit saw everything,
exact page count: paginated = min(pages, max(1, ceil(total/size))), scroll = 1 if total < size else up to AND INCLUDING the first empty
page (PagesWithinLimit, Complete, PageCount); the scroll is always cleared, also after a raising request, never used afterwards
(ScrollCleared, NoUseAfterClear); pit id sent = most recently returned (LatestPitId); search_after(i+1) = sort of last hit of response i
(SearchAfterChain); weight = pages = pages served, hits/relation of the first response, timed_out = OR, took = SUM (MetaFaithful); only
clear_scroll follows an error, errors surface (NothingAfterError, NoSuccessOnFailure); a pit is closed iff its segment succeeded
(PitClosedOnSuccess, NoSearchOnClosedPit); RequestShape.  Deviations of /repo (switch FALSE = code, reported as pinned L1):
ResetBody - paginated-search that stops at the `pages` limit or raises leaves search_after in the shared body: the next iteration
starts behind the last hit and finally sends search_after:null (StartsAtFirstHit, NoRequestAfterEmptyPage); RefreshScrollId - scroll
and clear_scroll always use the FIRST _scroll_id (LatestScrollId); DefaultPageSize - paginated-search without results-per-page raises
TypeError instead of using 10 (ErrOnlyIfRequestFailed).

Leg M   : TLC on Paging.quick/thorough.cfg (code as it is), Paging.intended.cfg (all switches TRUE: ALL invariants hold), 4 pinned
          self-tests (one switch FALSE -> the named invariant is violated in the model).
Leg S2C : TLC -simulate behaviours (scenario chosen stepwise from wide alphabets) and an exhaustive table (TLC -dump of SpecTable:
          scenario -> wire + returned meta data) are executed on the REAL registered runners against a scripted fake async client.
Leg C2S : every recorded run (S2C ones and seeded random bigger ones) is validated by TLC against TracePaging.tla: L1 = all invariants
          on the recorded state, L2 = request / response / returned meta data are the model's; a sample is also run through the real
          runner.Composite and compared request by request.
"""
import asyncio
import glob
import io
import json
import os
import random
import re

from .. import tlc, tracecheck
from ..core import Violation
from ..tlaparse import parse_dump, parse_simulation_file, to_json

BIG = 99  # "no cap" in the TLC scenario sets
NO_ID = {"k": "none", "c": 0, "v": 0}
NO_META = {"w": 0, "unit": "", "pages": -1, "hits": -1, "rel": "", "tout": False, "took": -1}
SEG_OPS = {"pit": ["open", "ppag", "close"]}
OP_TYPE = {
    "search": "search",
    "dsearch": "search",
    "scroll": "scroll-search",
    "oscroll": "search",
    "pag": "paginated-search",
    "ppag": "paginated-search",
    "open": "open-point-in-time",
    "close": "close-point-in-time",
}
MAX_REQUESTS = 400
# L1 clauses that /repo is known to violate, with the model switch that pins the behaviour
PINNED = {
    "StartsAtFirstHit": "ResetBody",
    "NoRequestAfterEmptyPage": "ResetBody",
    "LatestScrollId": "RefreshScrollId",
    "ErrOnlyIfRequestFailed": "DefaultPageSize",
}
SCN_KEYS = ("seg", "iters", "cont", "n", "size", "pages", "cap", "fail", "tout", "rot", "dsize")


class FakeEsError(Exception):
    def __init__(self, why, nreq):
        super().__init__("scripted Elasticsearch error %s at request %d" % (why, nreq))
        self.why = why


def seg_ops(seg):
    return SEG_OPS.get(seg, [seg])


# ---------------------------------------------------------------------------------------------------
# the fake Elasticsearch (the Python twin of Serve in Paging.tla; L2 compares the two on every request)
# ---------------------------------------------------------------------------------------------------
_ID = re.compile(r"^(scr|pit)-(\d+)-(\d+)$")


def id_str(i):
    if i["k"] == "none":
        return None
    return "%s-%d-%d" % ("scr" if i["k"] == "s" else "pit", i["c"], i["v"])


def id_abs(s, absent=False):
    if absent:
        return dict(NO_ID)
    m = _ID.match(s) if isinstance(s, str) else None
    if not m:
        return {"k": "bad", "c": 0, "v": 0}
    return {"k": "s" if m.group(1) == "scr" else "p", "c": int(m.group(2)), "v": int(m.group(3))}


def _req(op, idx=False, size=0, sa=0, pit=None, sid=None, scroll=False):
    return {"op": op, "idx": idx, "size": size, "sa": sa, "pit": pit or dict(NO_ID), "sid": sid or dict(NO_ID), "scroll": scroll}


def _ok(frm=0, cnt=0, total=0, rel="", rid=None, tout=False, took=0):
    return {"ok": True, "why": "", "from": frm, "cnt": cnt, "total": total, "rel": rel, "id": rid or dict(NO_ID), "tout": tout, "took": took}


def _fail(why):
    return {"ok": False, "why": why, "from": 0, "cnt": 0, "total": 0, "rel": "", "id": dict(NO_ID), "tout": False, "took": 0}


class EsModel:
    def __init__(self, scn):
        self.scn = scn
        self.nreq = 0
        self.scrolls = []
        self.pits = []

    def books(self):
        return {"nreq": self.nreq, "scrolls": [dict(x) for x in self.scrolls], "pits": [dict(x) for x in self.pits]}

    def _valid(self, table, kind, i):
        return i["k"] == kind and 1 <= i["c"] <= len(table) and table[i["c"] - 1]["st"] == "open"

    def serve(self, q):
        sc = self.scn
        self.nreq += 1
        r = self.nreq
        if sc["fail"] == r:
            return _fail("boom")
        to = sc["tout"] == r
        total = min(sc["n"], sc["cap"])
        rel = "gte" if sc["n"] > sc["cap"] else "eq"
        bump = 1 if sc["rot"] else 0
        op = q["op"]
        if op == "search":
            if q["sa"] < 0:
                return _fail("badreq")
            has_pit = q["pit"] != NO_ID
            if has_pit and not self._valid(self.pits, "p", q["pit"]):
                return _fail("notfound")
            sz = q["size"] if q["size"] > 0 else sc["dsize"]
            start = 0 if q["scroll"] else q["sa"]
            cnt = max(0, min(sc["n"], start + sz) - start)
            if q["scroll"]:
                self.scrolls.append({"st": "open", "pos": cnt, "size": sz, "v": 0})
                return _ok(start + 1, cnt, total, rel, {"k": "s", "c": len(self.scrolls), "v": 0}, to, r)
            if has_pit:
                p = self.pits[q["pit"]["c"] - 1]
                p["v"] += bump
                return _ok(start + 1, cnt, total, rel, {"k": "p", "c": q["pit"]["c"], "v": p["v"]}, to, r)
            return _ok(start + 1, cnt, total, rel, None, to, r)
        if op == "scroll":
            if not self._valid(self.scrolls, "s", q["sid"]):
                return _fail("notfound")
            x = self.scrolls[q["sid"]["c"] - 1]
            frm = x["pos"] + 1
            cnt = max(0, min(sc["n"], x["pos"] + x["size"]) - x["pos"])
            x["pos"] += cnt
            x["v"] += bump
            return _ok(frm, cnt, total, rel, {"k": "s", "c": q["sid"]["c"], "v": x["v"]}, to, r)
        if op == "clear":
            if not self._valid(self.scrolls, "s", q["sid"]):
                return _fail("notfound")
            self.scrolls[q["sid"]["c"] - 1]["st"] = "closed"
            return _ok()
        if op == "open":
            self.pits.append({"st": "open", "v": 0})
            return _ok(rid={"k": "p", "c": len(self.pits), "v": 0})
        if op == "close":
            if not self._valid(self.pits, "p", q["pit"]):
                return _fail("notfound")
            self.pits[q["pit"]["c"] - 1]["st"] = "closed"
            return _ok()
        return _fail("badreq")


def render_page(resp, legacy_total):
    """An Elasticsearch search / scroll response for the abstract page (key order as Elasticsearch writes it)."""
    doc = {}
    if resp["id"]["k"] == "p":
        doc["pit_id"] = id_str(resp["id"])
    if resp["id"]["k"] == "s":
        doc["_scroll_id"] = id_str(resp["id"])
    doc["took"] = resp["took"]
    doc["timed_out"] = resp["tout"]
    doc["_shards"] = {"total": 2, "successful": 2, "skipped": 0, "failed": 0}
    hits = [
        {"_index": "idx", "_id": str(i), "_score": None, "_source": {"k": i, "text": "doc %d" % i}, "sort": [i]}
        for i in range(resp["from"], resp["from"] + resp["cnt"])
    ]
    total = resp["total"] if legacy_total and resp["rel"] == "eq" else {"value": resp["total"], "relation": resp["rel"]}
    doc["hits"] = {"total": total, "max_score": None, "hits": hits}
    return io.BytesIO(json.dumps(doc).encode("utf-8"))


_setup_done = False


def _setup():
    global _setup_done
    from .. import racesim

    racesim.ensure_rally_home()
    from esrally.driver import runner

    if not _setup_done:
        runner.register_default_runners()
        _setup_done = True
    return runner


def make_client_class():
    from esrally.client import context

    class FakeEs(context.RequestContextHolder):
        def __init__(self, scn, events, legacy_total):
            self.model = EsModel(scn)
            self.events = events
            self.legacy_total = legacy_total
            self.anomalies = []

        # ---- what the runners call
        def options(self, **kw):
            return self

        def return_raw_response(self):  # pylint: disable=arguments-differ
            return None

        async def close(self):
            return None

        def _exchange(self, q):
            if self.model.nreq >= MAX_REQUESTS:
                raise tlc.MachineryError("runaway execution: more than %d requests" % MAX_REQUESTS)
            try:
                self.on_request_start()
            except LookupError:
                pass
            resp = self.model.serve(q)
            self.events.append({"a": "Q", "req": q, "resp": resp, "es": self.model.books()})
            try:
                self.on_request_end()
            except LookupError:
                pass
            if not resp["ok"]:
                raise FakeEsError(resp["why"], self.model.nreq)
            return resp

        async def perform_request(self, method="GET", path="/", headers=None, body=None, params=None, **kw):
            await asyncio.sleep(0)
            if kw or method != "GET":
                self.anomalies.append("perform_request(method=%r, extra=%r)" % (method, sorted(kw)))
            if path == "/_search/scroll":
                body = body or {}
                if params is not None or body.get("scroll") != "10s":
                    self.anomalies.append("scroll request with params=%r body=%r" % (params, body))
                q = _req("scroll", sid=id_abs(body.get("scroll_id"), "scroll_id" not in body))
            elif path.endswith("/_search") and path in ("/_search", "/idx/_search"):
                body = body or {}
                params = params or {}
                size = body.get("size", 0)
                if not isinstance(size, int) or isinstance(size, bool) or size < 0:
                    size = -2
                scroll = "scroll" in params
                if scroll:
                    want = body.get("size")
                    if params.get("size") != want or params.get("sort") != "_doc" or params.get("scroll") != "10s":
                        self.anomalies.append("initial scroll search with params=%r and body size %r" % (params, want))
                if "search_after" not in body:
                    sa = 0
                else:
                    v = body["search_after"]
                    sa = v[0] if isinstance(v, list) and len(v) == 1 and isinstance(v[0], int) and v[0] > 0 else -1
                if "pit" in body:
                    pit = body["pit"]
                    if not isinstance(pit, dict) or pit.get("keep_alive") != "1m":
                        self.anomalies.append("pit clause %r" % (pit,))
                    pit = id_abs(pit.get("id") if isinstance(pit, dict) else None)
                else:
                    pit = None
                q = _req("search", idx=path != "/_search", size=size, sa=sa, pit=pit, scroll=scroll)
            else:
                raise tlc.MachineryError("unexpected request %s %s" % (method, path))
            resp = self._exchange(q)
            return render_page(resp, self.legacy_total)

        async def clear_scroll(self, body=None, **kw):
            await asyncio.sleep(0)
            ids = (body or {}).get("scroll_id")
            sid = ids[0] if isinstance(ids, list) and len(ids) == 1 else None
            self._exchange(_req("clear", sid=id_abs(sid)))
            return io.BytesIO(b'{"succeeded":true,"num_freed":1}')

        async def open_point_in_time(self, index=None, params=None, keep_alive=None, **kw):
            await asyncio.sleep(0)
            if index != "idx" or keep_alive != "1m":
                self.anomalies.append("open_point_in_time(index=%r, keep_alive=%r)" % (index, keep_alive))
            resp = self._exchange(_req("open", idx=True))
            return {"id": id_str(resp["id"])}

        async def close_point_in_time(self, body=None, params=None, headers=None, **kw):
            await asyncio.sleep(0)
            body = body or {}
            self._exchange(_req("close", pit=id_abs(body.get("id"), "id" not in body)))
            return {"succeeded": True, "num_freed": 1}

    return FakeEs


_client_class = None


def client_class():
    global _client_class
    if _client_class is None:
        _client_class = make_client_class()
    return _client_class


# ---------------------------------------------------------------------------------------------------
# executing one scenario on the real runners
# ---------------------------------------------------------------------------------------------------
def build_params(scn):
    """One params dict per operation of the segment; the SAME objects are handed to every iteration."""
    pages = "all" if scn["pages"] == 0 else scn["pages"]
    res = {}
    for op in seg_ops(scn["seg"]):
        if op == "open":
            p = {"name": "open-pit", "operation-type": OP_TYPE[op], "index": "idx"}
        elif op == "close":
            p = {"name": "close-pit", "operation-type": OP_TYPE[op], "with-point-in-time-from": "open-pit"}
        else:
            body = {"query": {"match_all": {}}}
            if op in ("pag", "ppag"):
                body["sort"] = [{"k": "asc"}]
            p = {"name": "q-" + op, "operation-type": OP_TYPE[op], "index": "idx", "body": body}
            if scn["size"]:
                p["results-per-page"] = scn["size"]
            if op in ("scroll", "oscroll", "pag", "ppag"):
                p["pages"] = pages
            if op == "dsearch":
                p["detailed-results"] = True
            if op == "ppag":
                p["with-point-in-time-from"] = "open-pit"
            if op in ("scroll", "pag") and (scn["n"] + scn["size"]) % 2 == 1:
                p["cache"] = True
        res[op] = p
    return res


def meta_of(ret):
    if ret is None:
        return dict(NO_META)
    if not isinstance(ret, dict):
        return {"w": -99, "unit": repr(ret)[:20], "pages": -1, "hits": -1, "rel": "", "tout": False, "took": -1}

    def num(key, dflt):
        v = ret.get(key, dflt)
        return v if isinstance(v, int) and not isinstance(v, bool) else -99

    hits = ret.get("hits", -1)
    return {
        "w": num("weight", -99),
        "unit": ret.get("unit") or "",
        "pages": num("pages", -1),
        "hits": hits if isinstance(hits, int) and not isinstance(hits, bool) else (-1 if hits is None else -99),
        "rel": ret.get("hits_relation") or "",
        "tout": bool(ret.get("timed_out", False)),
        "took": num("took", -1),
    }


def _why(ex):
    return ex.why if isinstance(ex, FakeEsError) else "internal"


def _run(coro):
    loop = asyncio.new_event_loop()
    try:
        asyncio.set_event_loop(loop)
        return loop.run_until_complete(coro)
    finally:
        asyncio.set_event_loop(None)
        loop.close()


def legacy_total(scn):
    return (scn["n"] + scn["size"] + scn["pages"]) % 3 == 0


def execute(scn):
    """The task of the scenario on the registered runners, called as driver.execute_single / runner.Composite call them.
    Returns the trace item (without id)."""
    runner = _setup()
    events = []
    es = client_class()(scn, events, legacy_total(scn))
    params = build_params(scn)
    ops = seg_ops(scn["seg"])
    internal = []

    async def call(it, k, op):
        events.append({"a": "B", "it": it, "k": k, "op": op})
        r = runner.runner_for(OP_TYPE[op])
        try:
            with es.new_request_context():
                async with r:
                    ret = await r({"default": es}, params[op])
        except tlc.MachineryError:
            raise
        except Exception as ex:  # pylint: disable=broad-except
            if not isinstance(ex, FakeEsError):
                internal.append("%s: %s" % (type(ex).__name__, str(ex)[:120]))
            events.append({"a": "R", "st": "err", "why": _why(ex), "meta": dict(NO_META)})
            return False
        events.append({"a": "R", "st": "ok", "why": "", "meta": meta_of(ret)})
        return True

    async def segment(it):
        for k, op in enumerate(ops, start=1):
            if not await call(it, k, op):
                return False
        return True

    async def task():
        for it in range(1, scn["iters"] + 1):
            if scn["seg"] == "pit":
                async with runner.CompositeContext():
                    ok = await segment(it)
            else:
                ok = await segment(it)
            if not ok and not scn["cont"]:
                break

    _run(task())
    return {"scn": {k: scn[k] for k in SCN_KEYS}, "skip": [], "events": events}, es.anomalies, internal


def execute_composite(scn):
    """The same task through the REAL runner.Composite (one composite call per iteration, the segment as its `requests`).
    Returns (wire, per-iteration outcome) for the comparison with the direct execution."""
    runner = _setup()
    events = []
    es = client_class()(scn, events, legacy_total(scn))
    params = build_params(scn)
    cparams = {"name": "c", "operation-type": "composite", "requests": [params[op] for op in seg_ops(scn["seg"])]}
    outcomes = []

    async def task():
        comp = runner.runner_for("composite")
        for _ in range(scn["iters"]):
            try:
                with es.new_request_context():
                    async with comp:
                        ret = await comp({"default": es}, cparams)
            except tlc.MachineryError:
                raise
            except Exception as ex:  # pylint: disable=broad-except
                outcomes.append({"st": "err", "why": _why(ex), "metas": []})
                if not scn["cont"]:
                    break
                continue
            metas = []
            for d in ret.get("dependent_timing") or []:
                if d is None:
                    metas.append(None)
                else:
                    metas.append({k: v for k, v in meta_of(d).items() if k not in ("w", "unit")})
            outcomes.append({"st": "ok", "why": "", "metas": metas})

    _run(task())
    return [(e["req"], e["resp"]) for e in events if e["a"] == "Q"], outcomes


def direct_outcomes(item):
    """Per iteration of a direct execution: what runner.Composite would have returned."""
    res = {}
    it = 0
    for e in item["events"]:
        if e["a"] == "B":
            it = e["it"]
            res.setdefault(it, {"st": "ok", "why": "", "metas": []})
            op = e["op"]
        elif e["a"] == "R":
            o = res[it]
            if e["st"] == "err":
                o["st"], o["why"], o["metas"] = "err", e["why"], []
            elif op in ("open", "close"):
                # RequestTiming turns the None of these runners into a result dict without search meta data
                o["metas"].append({k: v for k, v in NO_META.items() if k not in ("w", "unit")})
            else:
                o["metas"].append({k: v for k, v in e["meta"].items() if k not in ("w", "unit")})
    return [res[i] for i in sorted(res)]


# ---------------------------------------------------------------------------------------------------
# case sources
# ---------------------------------------------------------------------------------------------------
def _scn_json(v):
    s = to_json(v)
    return {k: s[k] for k in SCN_KEYS}


def _model_run(state):
    wire = to_json(state["wire"]) or []
    calls = to_json(state["calls"]) or []
    return wire, calls


def behaviours_from_tlc(ctx, out, num, depth):
    wd = tlc.prepare_workdir("Paging", "xpagsim")
    simdir = os.path.join(wd, "sim")
    os.makedirs(simdir)
    res = tlc.run_tlc(
        wd,
        "MC_Paging",
        "Paging.sim.cfg",
        workers=1,
        simulate={"num": num, "file": os.path.join(simdir, "b")},
        depth=depth,
        seed=ctx.seed + 41,
        timeout=300,
    )
    if not res.ok:
        raise tlc.MachineryError("simulation reported a model violation: %s" % res.out[-2000:])
    out.add_tlc(res)
    cases = []
    for fn in sorted(glob.glob(os.path.join(simdir, "b_*"))):
        states = parse_simulation_file(fn)
        last = states[-1]
        if last["rn"]["stage"] in ("cfgA", "cfgB", "cfgC"):
            continue
        wire, calls = _model_run(last)
        cases.append({"src": "tlc-simulate", "scn": _scn_json(last["scn"]), "model": {"wire": wire, "calls": calls, "complete": last["rn"]["stage"] == "end"}})
    return cases


def table_from_tlc(ctx, out, module, cfg):
    wd = tlc.prepare_workdir("Paging", "xpagtab")
    dump = os.path.join(wd, "table")
    res = tlc.run_tlc(wd, module, cfg, workers=2, dump=dump, timeout=600)
    if not res.ok:
        raise tlc.MachineryError("table run failed: %s" % res.out[-1500:])
    out.add_tlc(res)
    path = dump + ".dump" if os.path.exists(dump + ".dump") else dump
    cases = []
    for st in parse_dump(path):
        if st["rn"]["stage"] != "end":
            continue
        wire, calls = _model_run(st)
        cases.append({"src": "tlc-table", "scn": _scn_json(st["scn"]), "model": {"wire": wire, "calls": calls, "complete": True}})
    cases.sort(key=lambda c: json.dumps(c["scn"], sort_keys=True))
    return cases


def random_scenario(rnd):
    seg = rnd.choice(["scroll", "scroll", "oscroll", "pag", "pag", "pit", "pit", "search", "dsearch"])
    simple = seg in ("search", "dsearch")
    size = rnd.choice([0, 0, 1, 2, 3, 5, 7, 10, 12])
    eff = size or 10
    pages = 0 if simple else rnd.choice([0, 0, 1, 2, 3, 4, 5, 7])
    # keep the number of requests per call below ~14
    max_n = eff * (13 if pages == 0 else 40)
    n = rnd.choice([0, 1, eff - 1, eff, eff + 1, 2 * eff, 3 * eff - 1, rnd.randint(0, 60), rnd.randint(0, 60)])
    n = max(0, min(n, max_n))
    cap = rnd.choice([10000, 10000, 10000, max(1, n // 2), max(1, n - 1), eff])
    if n <= cap:
        cap = 10000
    iters = 1 if simple else rnd.choice([1, 2, 2, 3, 4])
    per_call = 2 + (n // eff if pages == 0 else min(pages, n // eff + 1))
    fail = 0
    if rnd.random() < 0.45:
        fail = rnd.randint(1, 1 if simple else max(2, min(40, per_call * iters + 2)))
    tout = rnd.choice([0, 0, 1, 2, 3, rnd.randint(1, 12)])
    if simple:
        tout = min(tout, 1)
    cont = bool(fail and iters > 1 and rnd.random() < 0.6)
    rot = seg in ("scroll", "oscroll", "pit") and rnd.random() < 0.5
    return {"seg": seg, "iters": iters, "cont": cont, "n": n, "size": size, "pages": pages, "cap": cap, "fail": fail, "tout": tout, "rot": rot, "dsize": 10}


# ---------------------------------------------------------------------------------------------------
def _signature(clauses, scn, item):
    pinned = sorted({PINNED[c] for c in clauses if c in PINNED})
    return {
        "clauses": sorted(clauses),
        "seg": scn["seg"],
        "pinned_switches": pinned,
        "unexpected": sorted(c for c in clauses if c not in PINNED),
        "page_limit": scn["pages"] != 0,
        "scripted_failure": scn["fail"] != 0,
        "rotating_ids": scn["rot"],
        "size_given": scn["size"] != 0,
        "iterations": min(scn["iters"], 3),
    }


def _same_as_model(item, model):
    wire = [{"call": None, "req": e["req"], "resp": e["resp"]} for e in item["events"] if e["a"] == "Q"]
    calls = []
    for e in item["events"]:
        if e["a"] == "B":
            calls.append({"it": e["it"], "k": e["k"], "op": e["op"], "st": "run", "why": "", "meta": dict(NO_META)})
        elif e["a"] == "R":
            calls[-1].update(st=e["st"], why=e["why"], meta=e["meta"])
    mw = [{"call": None, "req": w["req"], "resp": w["resp"]} for w in model["wire"]]
    if model["complete"]:
        return wire == mw and calls == model["calls"]
    return wire[: len(mw)] == mw


def run_cases(cases, out, label, stats, with_composite=0):
    items = []
    index = {}
    for ci, case in enumerate(cases):
        scn = case["scn"]
        item, anomalies, internal = execute(scn)
        item["id"] = "%s-%d" % (label, ci)
        items.append(item)
        index[item["id"]] = (case, item)
        evs = item["events"]
        nq = sum(1 for e in evs if e["a"] == "Q")
        out.add_case(scn, nontrivial=nq >= 2)
        stats["runs"] += 1
        stats["requests"] += nq
        stats["failed_calls"] += any(e["a"] == "R" and e["st"] == "err" for e in evs)
        stats["scroll_cleared_after_error"] += any(
            e["a"] == "Q" and e["req"]["op"] == "clear" and any(not p["resp"]["ok"] for p in evs[:i] if p["a"] == "Q")
            for i, e in enumerate(evs)
        )
        stats["clear_failed"] += any(e["a"] == "Q" and e["req"]["op"] == "clear" and not e["resp"]["ok"] for e in evs)
        stats["empty_last_page"] += any(e["a"] == "Q" and e["req"]["op"] == "scroll" and e["resp"]["ok"] and e["resp"]["cnt"] == 0 for e in evs)
        stats["page_limit_hit"] += any(e["a"] == "R" and e["st"] == "ok" and scn["pages"] and e["meta"]["pages"] == scn["pages"] for e in evs)
        stats["stale_search_after"] += any(
            e["a"] == "Q" and e["req"]["op"] == "search" and e["req"]["sa"] != 0 and evs[i - 1]["a"] == "B" for i, e in enumerate(evs)
        )
        stats["search_after_null"] += any(e["a"] == "Q" and e["req"]["sa"] < 0 for e in evs)
        stats["pit_refreshed"] += any(e["a"] == "Q" and e["req"]["pit"]["v"] > 0 for e in evs)
        stats["pit_leaked"] += any(p["st"] == "open" for p in _last_books(evs)["pits"])
        stats["lower_bound_total"] += scn["n"] > scn["cap"]
        stats["timed_out_reported"] += any(e["a"] == "R" and e["meta"]["tout"] for e in evs)
        for a in anomalies:
            stats["anomalies"].setdefault(a[:160], 0)
            stats["anomalies"][a[:160]] += 1
        for a in internal:
            key = re.sub(r"\d+", "N", a)[:120]
            stats["internal_errors"][key] = stats["internal_errors"].get(key, 0) + 1
        if case.get("model") is not None:
            stats["s2c"] += 1
            stats["s2c_followed"] += _same_as_model(item, case["model"])
    if not items:
        raise tlc.MachineryError("no runs for %s" % label)
    # ---- the same tasks through the real runner.Composite
    done = 0
    for case, item in list(index.values()):
        scn = case["scn"]
        if done >= with_composite:
            break
        if scn["seg"] not in ("pit", "pag", "search", "dsearch"):
            continue
        done += 1
        wire, outcomes = execute_composite(scn)
        direct_wire = [(e["req"], e["resp"]) for e in item["events"] if e["a"] == "Q"]
        stats["composite_runs"] += 1
        if wire == direct_wire and outcomes == direct_outcomes(item):
            stats["composite_agrees"] += 1
        else:
            out.drift.append("%s: runner.Composite and the direct calls of its sub-operations differ for scenario %s" % (label, scn))
    verdicts = tracecheck.validate("Paging", "TracePaging", "TracePaging.cfg", items, name="xpagtrace", chunk=3000, skip_field="skip")
    out.states += verdicts.n_events
    out.transitions += verdicts.n_events
    out.traces_validated += verdicts.accepted(len(items))
    for tid, fails in sorted(verdicts.l1.items()):
        case, item = index[tid]
        clauses = sorted({c for _, cl in fails for c in cl})
        key = ",".join(c + ("(pinned)" if c in PINNED else "") for c in clauses)
        stats["l1"][key] = stats["l1"].get(key, 0) + 1
        if key in stats["l1_reported"]:
            continue
        stats["l1_reported"].add(key)
        pinned = all(c in PINNED for c in clauses)
        out.violations.append(
            Violation(
                key,
                case["scn"],
                signature=_signature(clauses, case["scn"], item),
                detail="run %s, first failing event %d of %d%s; %d wire requests"
                % (
                    tid,
                    fails[0][0],
                    len(item["events"]),
                    " (known deviation of /repo, pinned by model switch %s=FALSE)" % "/".join(sorted({PINNED[c] for c in clauses})) if pinned else " (NOT a pinned deviation)",
                    sum(1 for e in item["events"] if e["a"] == "Q"),
                ),
            )
        )
    for tid, lines in sorted(verdicts.l2.items()):
        case, item = index[tid]
        ln = lines[0]
        what = item["events"][ln - 1] if 1 <= ln <= len(item["events"]) else "end of run"
        if len(out.drift) < 12:
            out.drift.append("run %s: event %d (%s) is not a step of Paging.tla; scenario %s" % (tid, ln, json.dumps(what, sort_keys=True)[:400], case["scn"]))
        stats["l2"] += 1
    return items


def _last_books(evs):
    for e in reversed(evs):
        if e["a"] == "Q":
            return e["es"]
    return {"pits": [], "scrolls": []}


def run(ctx, out):
    out.rule = (
        "case = one scenario: segment (search | detailed search | scroll-search | search+pages | paginated-search | open-pit + "
        "paginated-search with pit + close-pit), iterations sharing one params object, on-error continue or abort, hits in the index, "
        "results-per-page (or absent), pages (or all), total-hits cap, position of one failing request, position of one timed_out "
        "response, rotating ids; distinct by hash of the scenario; non-trivial = at least 2 wire requests. Sources: TLC -simulate "
        "behaviours, TLC table (S2C) and seeded random bigger scenarios (C2S only)."
    )
    out.assumptions = [
        "the fake Elasticsearch is the Python twin of Serve in Paging.tla (L2 compares them on every request): hit i has sort value [i], "
        "old scroll / pit ids stay valid after a newer one was returned, a failing request changes nothing on the server",
        "the runners are the registered ones (runner_for: completion / assertion / multi-cluster wrappers around runner.Query, "
        "OpenPointInTime, ClosePointInTime), called like driver.execute_single does; a segment stops at its first failing call like "
        "runner.Composite (cross-checked on the real runner.Composite for a sample)",
        "all iterations of a task get the same params object (SearchParamSource.params() returns self.query_params; composite items are the same dicts)",
        "parsing of the response bodies is property C19 and not varied here (compact JSON as Elasticsearch writes it; total as object or legacy int)",
        "composite-agg pagination, sql / esql cursors, request-timeout / headers handling and task cancellation inside clear_scroll are not modelled",
    ]
    # ---- Leg M
    todo = [("MC_Paging", "Paging.quick.cfg", 120), ("MC_Paging", "Paging.intended.cfg", 120)]
    if not ctx.quick:
        todo = [("MC_PagingL", "Paging.thorough.cfg", 900), ("MC_PagingL", "Paging.intended.thorough.cfg", 900)]
    for mod, cfg, to in todo:
        wd = tlc.prepare_workdir("Paging", "xpagmc")
        res = tlc.run_tlc(wd, mod, cfg, timeout=to, allow_violation=True, workers=4 if ctx.quick else 8)
        out.add_tlc(res)
        if not res.ok:
            raise tlc.MachineryError("model violates %s in %s: %s" % (res.invariant_violated or res.property_violated or "?", cfg, res.out[-1500:]))
        out.note("leg M %s: %d distinct states, depth %d, %.1fs" % (cfg, res.distinct, res.depth, res.wall_s))
    for cfg, inv, text in [
        ("Paging.pinned.resetbody.cfg", "StartsAtFirstHit", "ResetBody=FALSE (code): after a call that stopped at the pages limit the next call starts behind its last hit"),
        ("Paging.pinned.emptypage.cfg", "NoRequestAfterEmptyPage", "ResetBody=FALSE (code): a stale search_after runs past the end, search_after:null is sent after an empty page"),
        ("Paging.pinned.scrollid.cfg", "LatestScrollId", "RefreshScrollId=FALSE (code): the first _scroll_id is used for all scroll requests and for clear_scroll"),
        ("Paging.pinned.pagesize.cfg", "ErrOnlyIfRequestFailed", "DefaultPageSize=FALSE (code): paginated-search without results-per-page raises although no request failed"),
    ]:
        wd = tlc.prepare_workdir("Paging", "xpagself")
        res = tlc.run_tlc(wd, "MC_Paging", cfg, timeout=120, allow_violation=True, workers=2)
        if res.invariant_violated != inv:
            raise tlc.MachineryError("self-test failed: %s no longer violates %s" % (cfg, inv))
        out.extra.setdefault("model_selftests", []).append("%s violates %s in the model, as expected: %s" % (cfg, inv, text))
    # ---- Leg S2C + C2S
    stats = {
        k: 0
        for k in (
            "runs requests failed_calls scroll_cleared_after_error clear_failed empty_last_page page_limit_hit stale_search_after "
            "search_after_null pit_refreshed pit_leaked lower_bound_total timed_out_reported s2c s2c_followed composite_runs composite_agrees l2"
        ).split()
    }
    stats.update(l1={}, l1_reported=set(), anomalies={}, internal_errors={})
    sim = behaviours_from_tlc(ctx, out, 300 if ctx.quick else 4000, 120)
    out.note("leg S2C: %d TLC -simulate behaviours" % len(sim))
    items = run_cases(sim, out, "sim", stats, with_composite=60 if ctx.quick else 600)
    out.sample({"source": "tlc-simulate", "scenario": sim[0]["scn"], "recorded_events": items[0]["events"][:6]})
    table = table_from_tlc(ctx, out, *(("MC_Paging", "Paging.table.cfg") if ctx.quick else ("MC_PagingL", "Paging.tablebig.cfg")))
    out.note("leg S2C: table of %d scenarios" % len(table))
    followed_before = stats["s2c_followed"]
    run_cases(table, out, "tab", stats, with_composite=150 if ctx.quick else 1500)
    out.extra["table"] = {"scenarios": len(table), "real_code_equals_table": stats["s2c_followed"] - followed_before}
    out.exhaustive = False
    rnd = random.Random(ctx.seed + 43)
    rc = [{"src": "random", "scn": random_scenario(rnd)} for _ in range(600 if ctx.quick else 8000)]
    items = run_cases(rc, out, "rnd", stats, with_composite=80 if ctx.quick else 800)
    out.sample({"source": "random", "scenario": rc[0]["scn"], "recorded_events": items[0]["events"][:6]})
    stats["l1_reported"] = sorted(stats["l1_reported"])
    out.extra["coverage_of_runs"] = stats
    out.note(
        "leg C2S: %d runs (%d wire requests) validated, %d accepted without any verdict; S2C: %d/%d TLC behaviours / table rows reproduced "
        "exactly; runner.Composite agrees with the direct calls in %d/%d runs; runs with: failed call %d, scroll cleared after an error %d, "
        "failing clear_scroll %d, stale search_after %d, search_after:null %d, refreshed pit id %d, leaked pit %d, lower-bound total %d"
        % (
            stats["runs"],
            stats["requests"],
            out.traces_validated,
            stats["s2c_followed"],
            stats["s2c"],
            stats["composite_agrees"],
            stats["composite_runs"],
            stats["failed_calls"],
            stats["scroll_cleared_after_error"],
            stats["clear_failed"],
            stats["stale_search_after"],
            stats["search_after_null"],
            stats["pit_refreshed"],
            stats["pit_leaked"],
            stats["lower_bound_total"],
        )
    )
    if stats["l1"]:
        out.note("L1 verdicts by clause set: %s" % json.dumps(stats["l1"], sort_keys=True))
    if stats["l2"] and out.violations:
        # the runner's status line shows either L1 or drift; /repo always has the pinned L1 deviations, so drift would be masked
        out.violations.append(Violation("~L2-DRIFT(%d runs are not behaviours of Paging.tla, see drift)" % stats["l2"], {}, signature={"drift": True}, detail=out.drift[0] if out.drift else ""))
    if stats["anomalies"]:
        out.drift.append("requests with an unexpected shape: %s" % json.dumps(stats["anomalies"], sort_keys=True)[:600])
    unexpected_internal = {k: v for k, v in stats["internal_errors"].items() if not k.startswith("TypeError: unsupported operand")}
    if unexpected_internal:
        out.note("unexpected internal errors of the runners: %s" % json.dumps(unexpected_internal, sort_keys=True)[:600])
    for key in ("failed_calls", "scroll_cleared_after_error", "clear_failed", "empty_last_page", "page_limit_hit", "pit_refreshed", "timed_out_reported", "s2c_followed", "composite_agrees"):
        if not stats[key]:
            out.vacuous.append("no executed run exercised: " + key)
