"""Supplier (extra) - how Rally obtains the Elasticsearch / plugin artifacts (esrally/mechanic/supplier.py + esrally/utils/git.py), specs/Supplier.
Specified (Supplier.tla): sequences of supplier invocations (create(cfg, ..)() of a new Rally process) on ONE home directory - the clone, the source
artifact cache and the downloaded distributions persist - in a world of remote git histories with timestamps, a network that may be down, pushes,
uncommitted edits, wiped / exported source trees, republished downloads: which git / build / copy / download operations run in which order and which
binaries map comes back, for latest / current / @timestamp / hash / branch / tag revisions, core and external plugins, cache on / off.  SupplierPlan.tla:
which suppliers create() composes for which --revision value / pipeline / plugins (function-like, every state executed).
Invariants (TLC + L1 on every recorded run of the REAL code): RevisionExact (the binary is a build of the commit the revision denotes), CacheKeyed /
CacheNamed, HitSilent (everything cached under the requested hash: no operation at all), BuildIffMiss, AddedUnderKey (a later identical request finds
it), PruneExact (exactly the artifacts older than cache.days go, never a new one), Offline / NetDown (no remote URL: no network operation, explicit
errors), CorePairedFetched, SucceedsAsIs, ExplicitFailureAsIs, FailClean, DownloadIff / DistExact (download skipped iff <repo>.cache and the file is
there), Frame, Plan{Order,Kinds,Revs,Cached,Refusals}.  /repo does not meet six STRONG forms: each is pinned behind a model switch (FALSE = /repo) with a
self-test cfg and shown as a note: DirtyAware (CacheClean, DirtyExact), CorePluginPaired (CorePaired, Succeeds), TsErrorExplicit / NetErrorExplicit
(ExplicitFailure), PluginTsBranch (Succeeds), CacheKeyEager (CacheKeyChecked).

Leg M   : TLC on Supplier.{quick,time,local,ext,dist}.cfg (code as it is), Supplier.repaired.*.cfg (all switches TRUE, strong clauses too), 7 pinned
          self-tests, SupplierPlan.quick.cfg (thorough: Supplier.thorough{,.time,.repaired}.cfg, SupplierPlan.thorough.cfg).
Leg S2C : TLC -simulate behaviours (Supplier.sim.cfg / simdist.cfg) and ALL states of SupplierPlan (TLC dump) are executed on the REAL classes: real git
          repositories (remote + clone) in a scratch directory, a fake ./gradlew checked in that builds an artifact naming the commit / dirtiness /
          JAVA_HOME it was built from, the real esrally.utils.process / git / net.download on a scripted urllib3 pool, a virtual clock for _prune.
Leg C2S : every execution (S2C, directed, seeded random) is recorded (world read back by the harness itself: .git refs / tracked file, the content
          of every cached file) and validated by TLC against TraceSupplier.tla / TraceSupplierPlan.tla (L1 / L2); runs that are not steps of the model
          of the code as it is are re-validated with one switch flipped, to tell a repaired tree from a broken one.
"""
import contextlib
import copy
import datetime
import glob
import json
import logging
import os
import random
import re
import shutil
import subprocess
import time
import types as pytypes
from unittest import mock

from .. import tlc, tracecheck
from ..core import Violation
from ..tlaparse import parse_simulation_file, to_json

SPEC = "Supplier"
CORE_PLUGIN = "analysis-icu"
EXT_PLUGIN = "myplugin"
NC_MAX = 4  # TraceSupplier.cfg
MAXT = 60
MAXGEN = 6
T0 = datetime.datetime(2024, 1, 1)
DAY = datetime.timedelta(days=1)
BAD_HASH = "deadbeef" * 5
VERSIONS = ("8.0.0", "8.1.0-SNAPSHOT", "0.0.0")
BRANCH = {"es": "main", "pl": "master"}
KIND_OF_ARTIFACT = {"elasticsearch": "es", CORE_PLUGIN: "core", EXT_PLUGIN: "ext"}
URL_BASE = "https://artifacts.example.org/downloads/elasticsearch"
SWITCHES = ("DirtyAware", "CorePluginPaired", "TsErrorExplicit", "PluginTsBranch", "NetErrorExplicit", "CacheKeyEager")
MAX_VIOLATIONS_PER_KIND = 20
# strong L1 clauses which the code as it is does not meet: clause -> (model switch that repairs it, what happens)
PINNED = {
    "CacheClean": ("DirtyAware", "a build of a working copy with uncommitted changes is stored in the artifact cache under the hash of HEAD"),
    "DirtyExact": ("DirtyAware", "uncommitted changes are ignored: `current` on an edited tree is served the cached build of HEAD, a requested hash gets a build that contains them"),
    "CorePaired": ("CorePluginPaired", "Elasticsearch comes out of the cache (no checkout) and the core plugin is built from / looked up for whatever commit the source tree is on"),
    "Succeeds": ("PluginTsBranch / CorePluginPaired", "an external plugin at @timestamp always fails (rev-list origin/main..origin/master); a core plugin fails without a source tree although Elasticsearch is cached"),
    "ExplicitFailure": ("TsErrorExplicit / NetErrorExplicit", "@timestamp before the first commit raises IndexError; an unreachable download server raises urllib3's MaxRetryError"),
    "CacheKeyChecked": ("CacheKeyEager", "a missing <repo>.cache key is only reported once the distribution file exists (second run)"),
}

GRADLEW = r"""#!/bin/sh
# stands in for the gradle wrapper of Elasticsearch: the artifact names what it was built from
case "$1" in
  clean) rm -rf distribution/archives/*/build plugins/*/build ;;
  :distribution:archives:*:assemble)
     t=$(echo "$1" | cut -d: -f4)
     mkdir -p distribution/archives/$t/build/distributions
     printf 'es|%s|%s' "$(cat content)" "$JAVA_HOME" > distribution/archives/$t/build/distributions/elasticsearch-9.9.9-SNAPSHOT-$t.tar.gz ;;
  :plugins:*:assemble)
     n=$(echo "$1" | cut -d: -f3)
     mkdir -p plugins/$n/build/distributions
     printf 'core|%s|%s' "$(cat content)" "$JAVA_HOME" > plugins/$n/build/distributions/$n-9.9.9-SNAPSHOT.zip ;;
  *) echo "unknown task $1" >&2; exit 3 ;;
esac
"""
BUILD_SH = r"""#!/bin/sh
mkdir -p build/distributions
printf 'ext|%s|%s' "$(cat content)" "$JAVA_HOME" > build/distributions/myplugin-1.0.0.zip
"""
CAR_VARS = {
    "clean_command": "./gradlew clean",
    "system.build_command": "./gradlew :distribution:archives:{{OSNAME}}-tar:assemble",
    "system.build_command.arch": "./gradlew :distribution:archives:{{OSNAME}}-{{ARCH}}-tar:assemble",
    "system.artifact_path_pattern": "distribution/archives/{{OSNAME}}-tar/build/distributions/*.tar.gz",
    "system.artifact_path_pattern.arch": "distribution/archives/{{OSNAME}}-{{ARCH}}-tar/build/distributions/*.tar.gz",
    "build.jdk": "17",
    "jdk.unbundled.release_url": URL_BASE + "/elasticsearch-{{VERSION}}-{{OSNAME}}-{{ARCH}}.tar.gz",
    "jdk.bundled.release_url": URL_BASE + "/elasticsearch-{{VERSION}}-{{OSNAME}}-{{ARCH}}.tar.gz",
    "jdk.unbundled.snapshot_url": "https://snapshots.example.org/{{VERSION}}/elasticsearch-{{VERSION}}-{{OSNAME}}-{{ARCH}}.tar.gz",
    "jdk.bundled.snapshot_url": "https://snapshots.example.org/{{VERSION}}/elasticsearch-{{VERSION}}-{{OSNAME}}-{{ARCH}}.tar.gz",
}


def _quiet():
    for name in ("esrally.mechanic.supplier", "esrally.utils.git", "esrally.utils.process", "esrally.utils.net", "esrally.utils.jvm", "esrally.utils.io"):
        lg = logging.getLogger(name)
        lg.addHandler(logging.NullHandler())
        lg.propagate = False
        lg.setLevel(logging.CRITICAL + 1)


_GIT_ENV = {
    "GIT_AUTHOR_NAME": "v", "GIT_AUTHOR_EMAIL": "v@example.org", "GIT_COMMITTER_NAME": "v", "GIT_COMMITTER_EMAIL": "v@example.org",
    "GIT_CONFIG_NOSYSTEM": "1", "GIT_CONFIG_GLOBAL": "/dev/null", "GIT_TERMINAL_PROMPT": "0", "LC_ALL": "C",
}  # fmt: skip


def _git(cwd, *args, date=None, check=True):
    """git as the harness uses it itself (building the remotes, reading the clones back); same recipe as drivers/c15.py, plus commit dates"""
    env = dict(os.environ, **_GIT_ENV)
    if date:
        env["GIT_AUTHOR_DATE"] = env["GIT_COMMITTER_DATE"] = date
    p = subprocess.run(("git", "-C", cwd) + args, stdout=subprocess.PIPE, stderr=subprocess.STDOUT, env=env, check=False)
    if p.returncode != 0:
        if not check:
            return None
        raise tlc.MachineryError("git %s failed in %s: %s" % (" ".join(args), cwd, p.stdout.decode()[-500:]))
    return p.stdout.decode().strip()


def commit_date(tick, seq):
    return (T0 + tick * DAY + datetime.timedelta(hours=6, minutes=seq)).strftime("%Y-%m-%dT%H:%M:%SZ")


def ts_text(tick):
    """@timestamp of the specification: the end (noon is enough) of tick"""
    return (T0 + tick * DAY + datetime.timedelta(hours=12)).strftime("%Y-%m-%dT%H:%M:%SZ")


_TS_TICK = {ts_text(t): t for t in range(-2, MAXT + 2)}


def _write_commit(remote, r, n, tick):
    with open(os.path.join(remote, "content"), "w", encoding="utf-8") as f:
        f.write("c%d\n" % n)
    if r == "es":
        os.makedirs(os.path.join(remote, ".ci"), exist_ok=True)
        with open(os.path.join(remote, ".ci", "java-versions.properties"), "w", encoding="utf-8") as f:
            f.write("ES_RUNTIME_JAVA=openjdk11\nES_BUILD_JAVA=openjdk%d\n" % (16 + n))
        script, text = "gradlew", GRADLEW
    else:
        script, text = "build.sh", BUILD_SH
    with open(os.path.join(remote, script), "w", encoding="utf-8") as f:
        f.write(text)
    os.chmod(os.path.join(remote, script), 0o755)
    _git(remote, "add", "-A")
    _git(remote, "commit", "-q", "-m", "commit %d" % n, date=commit_date(tick, n))
    return _git(remote, "rev-parse", "HEAD")


_TEMPLATE = {}


def _template(scratch):
    """remote repositories with their first commit (tick 0) and the tag v1; copied for every execution"""
    if "dir" not in _TEMPLATE:
        d = os.path.join(scratch, "template")
        shutil.rmtree(d, ignore_errors=True)
        hashes = {}
        for r in ("es", "pl"):
            p = os.path.join(d, "remote", r)
            os.makedirs(p)
            _git(p, "init", "-q", "-b", BRANCH[r])
            hashes[r] = _write_commit(p, r, 1, 0)
            _git(p, "tag", "v1")
        _TEMPLATE.update(dir=d, hashes=hashes)
    return _TEMPLATE


class _Response:
    """what urllib3's PoolManager.request(.., preload_content=False) returns, as far as net._download_http uses it"""

    def __init__(self, status, body):
        self.status = status
        self._body = body

    def __enter__(self):
        return self

    def __exit__(self, *exc):
        return False

    def getheader(self, name, default=None):
        return str(len(self._body)) if name.lower() == "content-length" else default

    def stream(self, chunk_size):
        for i in range(0, len(self._body), 7):
            yield self._body[i : i + 7]


class _Proxy:
    """a module seen through supplier.py's eyes with a few attributes replaced"""

    def __init__(self, real, **over):
        self._real = real
        self._over = over

    def __getattr__(self, name):
        if name in self._over:
            return self._over[name]
        return getattr(self._real, name)


class World:
    """one home directory + the remote repositories + the download server of one execution"""

    def __init__(self, base, scratch, seed):
        self.base = base
        self.rnd = random.Random(seed)
        tpl = _template(scratch)
        shutil.copytree(os.path.join(tpl["dir"], "remote"), os.path.join(base, "remote"), symlinks=True)
        self.now = 0
        self.net = True
        self.hashes = {r: {tpl["hashes"][r]: 1} for r in ("es", "pl")}
        self.rtime = {"es": [0], "pl": [0]}
        self.rgen = {v: (0 if v == "0.0.0" else 1) for v in VERSIONS}
        self.born = {}  # file name in the artifact cache -> (tick it appeared, (inode, ctime_ns))
        self.arch = self.rnd.choice(["x86_64", "x86_64", "aarch64"])
        self.bundled = self.rnd.random() < 0.5
        self.home = os.path.join(base, "home")
        self.root = os.path.join(self.home, "benchmarks")
        self.dist_root = os.path.join(self.root, "distributions")
        self.cache_dir = os.path.join(self.dist_root, "src")
        self.logs = os.path.join(self.home, "logs")
        self.events = []
        self.anomalies = []
        self.checks = 0
        self.probed = {}
        self.junk = []
        self.junk_seen = []
        self._scan_cache()

    # ---- paths
    def remote_dir(self, r):
        return os.path.join(self.base, "remote" if self.net else "remote.down", r)

    def remote_url(self, r):
        return os.path.join(self.base, "remote", r)

    def clone_dir(self, r):
        return os.path.join(self.home, "src", "elasticsearch") if r == "es" else os.path.join(self.home, "plugin-src")

    def commit_no(self, r, h):
        return self.hashes[r].get(h, 0)

    def hash_of(self, r, n):
        for h, k in self.hashes[r].items():
            if k == n:
                return h
        raise tlc.MachineryError("commit %d of %s does not exist yet" % (n, r))

    def es_file(self, version):
        return "elasticsearch-%s-linux-%s.tar.gz" % (version, self.arch)

    # ---- the world, read back by the harness itself
    def _repo_state(self, r):
        d = self.clone_dir(r)
        st = {"rhead": len(self.rtime[r]), "rtime": list(self.rtime[r]), "clone": "absent", "head": 0, "main": 0, "omain": 0, "dirty": False}
        if not os.path.isdir(d):
            return st
        if os.path.exists(os.path.join(d, ".git")):
            st["clone"] = "git"
        elif not os.listdir(d):
            st["clone"] = "empty"
            return st
        else:
            st["clone"] = "plain"
        try:
            with open(os.path.join(d, "content"), encoding="utf-8") as f:
                lines = f.read().split("\n")
            st["head"] = int(lines[0][1:])
            st["dirty"] = lines != ["c%d" % st["head"], ""]  # every commit writes exactly "c<n>\n" into the tracked file
        except (OSError, ValueError, IndexError):
            self.anomalies.append("%s: the tracked file of the working tree is unreadable" % r)
            st["head"] = NC_MAX + 1
        if st["clone"] == "git":
            head, st["main"], st["omain"] = (self.commit_no(r, h) for h in self._refs(d, ("HEAD", "refs/heads/" + BRANCH[r], "refs/remotes/origin/" + BRANCH[r])))
            self.checks += 1
            if self.checks % 16 == 1:  # the cheap reading (.git files, tracked file) against git itself
                out = _git(d, "rev-parse", "HEAD", BRANCH[r], "origin/" + BRANCH[r]).split()
                status = bool(_git(d, "status", "--porcelain", "--untracked-files=no"))
                if [self.commit_no(r, h) for h in out] != [head, st["main"], st["omain"]] or status != st["dirty"]:
                    raise tlc.MachineryError("the harness misreads the clone of %s: %r vs %r" % (r, out, st))
            if head != st["head"]:
                self.anomalies.append("%s: HEAD is commit %d, the tracked file says %d" % (r, head, st["head"]))
                st["head"] = NC_MAX + 1
        return st

    @staticmethod
    def _refs(d, names):
        """the commits HEAD / refs point to, read from the files of the repository (loose refs, packed-refs)"""
        g = os.path.join(d, ".git")
        packed = {}
        try:
            with open(os.path.join(g, "packed-refs"), encoding="utf-8") as f:
                for ln in f:
                    if ln[0] not in "#^" and " " in ln:
                        h, name = ln.strip().split(" ", 1)
                        packed[name] = h
        except OSError:
            pass

        def resolve(name, depth=0):
            try:
                with open(os.path.join(g, name), encoding="utf-8") as f:
                    text = f.read().strip()
            except OSError:
                return packed.get(name, "")
            if text.startswith("ref: ") and depth < 3:
                return resolve(text[5:], depth + 1)
            return text

        return [resolve(n) for n in names]

    @staticmethod
    def _origin(path, kind):
        """(commit, dirty) an artifact says it was built from; commit 0 when it is not an artifact of that kind"""
        try:
            with open(path, encoding="utf-8") as f:
                parts = f.read().split("|")
            lines = parts[1].split("\n")
            if parts[0] != kind or len(parts) != 3:
                return 0, False, ""
            return int(lines[0][1:]), "dirty" in lines, parts[2]
        except (OSError, ValueError, IndexError):
            return 0, False, ""

    def _scan_cache(self):
        seen = {}
        for name in sorted(os.listdir(self.cache_dir)) if os.path.isdir(self.cache_dir) else []:
            p = os.path.join(self.cache_dir, name)
            s = os.lstat(p)
            sig = (s.st_ino, s.st_ctime_ns)
            old = self.born.get(name)
            seen[name] = old if old is not None and old[1] == sig else (self.now, sig)
        self.born = seen

    def _cache_state(self):
        self._scan_cache()
        out = []
        for name, (born, _sig) in sorted(self.born.items()):
            m = re.fullmatch(r"elasticsearch-([0-9a-f]{40})-linux-%s\.tar\.gz" % re.escape(self.arch), name)
            kind, r = "es", "es"
            if not m:
                m = re.fullmatch(r"%s-([0-9a-f]{40})\.zip" % re.escape(CORE_PLUGIN), name)
                kind, r = "core", "es"
            if not m:
                m = re.fullmatch(r"%s-([0-9a-f]{40})\.zip" % re.escape(EXT_PLUGIN), name)
                kind, r = "ext", "pl"
            n = self.commit_no(r, m.group(1)) if m else 0
            if not m or n == 0 or not os.path.isfile(os.path.join(self.cache_dir, name)):
                self.junk.append("distributions/src/" + name)  # not named <artifact>-<hash of an existing commit>: L1 clause CacheNamed
                continue
            c, d, _j = self._origin(os.path.join(self.cache_dir, name), kind)
            out.append({"k": kind, "n": n, "born": born, "c": c, "d": d})
        return out

    def _dist_state(self):
        out = []
        for name in sorted(os.listdir(self.dist_root)) if os.path.isdir(self.dist_root) else []:
            p = os.path.join(self.dist_root, name)
            if os.path.isdir(p):
                if name != "src":
                    self.anomalies.append("unexpected directory %r below distributions" % name)
                continue
            v = next((v for v in VERSIONS if self.es_file(v) == name), None)
            g = 0
            try:
                with open(p, encoding="utf-8") as f:
                    parts = f.read().split("|")
                if parts[0] == "dist" and parts[1] == v:
                    g = int(parts[2][1:])
            except (OSError, ValueError, IndexError):
                pass
            if v is None or g == 0:
                self.junk.append("distributions/" + name)
                continue
            out.append({"v": v, "g": g})
        return out

    def state(self):
        self.junk = []
        st = {
            "now": self.now, "net": self.net, "repos": {r: self._repo_state(r) for r in ("es", "pl")}, "cache": self._cache_state(),
            "dist": self._dist_state(), "rgen": [{"v": v, "g": g} for v, g in sorted(self.rgen.items())],
        }  # fmt: skip
        st["junk"] = len(self.junk)
        self.junk_seen.extend(x for x in self.junk if x not in self.junk_seen)
        return st

    def record(self, a, ret=None):
        a = {k: v for k, v in a.items() if k != "form"}
        self.events.append({"a": a, "st": self.state(), "ret": ret or {"err": "none", "bins": [], "ops": []}})

    # ---- the environment
    def env(self, a):
        op, r = a["op"], a.get("r", "")
        if op == "Tick":
            self.now += 1
        elif op == "Push":
            n = len(self.rtime[r]) + 1
            h = _write_commit(self.remote_dir(r), r, n, self.now)
            self.hashes[r][h] = n
            self.rtime[r].append(self.now)
        elif op == "Net":
            a_, b_ = ("remote", "remote.down") if self.net else ("remote.down", "remote")
            os.rename(os.path.join(self.base, a_), os.path.join(self.base, b_))
            self.net = not self.net
        elif op == "Edit":
            with open(os.path.join(self.clone_dir(r), "content"), "a", encoding="utf-8") as f:
                f.write("dirty\n")
        elif op == "Revert":
            _git(self.clone_dir(r), "checkout", "--", ".")
        elif op == "Wipe":
            shutil.rmtree(self.clone_dir(r))
        elif op == "Ungit":
            shutil.rmtree(os.path.join(self.clone_dir(r), ".git"))
        elif op == "Republish":
            self.rgen[a["v"]] += 1
        else:
            raise tlc.MachineryError("unknown environment action %r" % (a,))
        self.record(a)

    # ---- a supplier invocation
    def rev_text(self, r, rev):
        k = rev["k"]
        if k == "commit":
            return self.hash_of(r, rev["n"])
        if k == "ts":
            return "@" + ts_text(rev["n"])
        return {"latest": "latest", "current": "current", "branch": BRANCH[r], "tag": "v1", "bad": BAD_HASH}[k]

    def _cfg(self, q, form):
        from esrally import config

        cfg = config.Config()
        S = config.Scope.application
        cfg.add(S, "mechanic", "target.os", "linux")
        cfg.add(S, "mechanic", "target.arch", self.arch)
        cfg.add(S, "node", "root.dir", self.root)
        cfg.add(S, "node", "src.root.dir", os.path.join(self.home, "src"))
        cfg.add(S, "source", "distribution.dir", "distributions")
        cfg.add(S, "source", "elasticsearch.src.subdir", "elasticsearch")
        if q["mode"] == "src":
            es_rev = self.rev_text("es", q["rev"])
            if q["plug"] == "ext":
                if form.get("catchall") and q["rev"] == q["prev"] and q["rev"]["k"] in ("latest", "current", "ts"):
                    rev = es_rev  # `--revision=latest` is applied to every plugin too
                else:
                    rev = "elasticsearch:%s,%s:%s" % (es_rev, EXT_PLUGIN, self.rev_text("pl", q["prev"]))
            else:
                rev = ("elasticsearch:" if form.get("qualified") else "") + es_rev
            cfg.add(S, "mechanic", "source.revision", rev)
            cfg.add(S, "source", "remote.repo.url", self.remote_url("es") if q["remote"] else None)
            if q["cache"] is False or form.get("cache_explicit"):
                cfg.add(S, "source", "cache", q["cache"])
            if q["days"] != 7 or form.get("days_explicit"):
                cfg.add(S, "source", "cache.days", str(q["days"]) if form.get("days_str") else q["days"])
            if q["plug"] == "ext":
                if q["premote"]:
                    cfg.add(S, "source", "plugin.%s.remote.repo.url" % EXT_PLUGIN, self.remote_url("pl"))
                cfg.add(S, "source", "plugin.%s.src.dir" % EXT_PLUGIN, self.clone_dir("pl"))
                cfg.add(S, "source", "plugin.%s.build.command" % EXT_PLUGIN, "./build.sh")
                cfg.add(S, "source", "plugin.%s.build.artifact.subdir" % EXT_PLUGIN, "build/distributions")
        else:
            repo = "snapshot" if q["ver"].endswith("-SNAPSHOT") else "release"
            cfg.add(S, "mechanic", "distribution.version", q["ver"])
            cfg.add(S, "mechanic", "distribution.repository", repo)
            if form.get("ini_url"):
                cfg.add(S, "distributions", "%s.url" % repo, CAR_VARS["jdk.unbundled.%s_url" % repo])
            if q["dcache"] != "missing" and form.get("ini_cache"):
                cfg.add(S, "distributions", "%s.cache" % repo, q["dcache"])
            if q["plug"] == "url" and form.get("ini_url"):
                cfg.add(S, "distributions", "plugin.%s.%s.url" % (EXT_PLUGIN, repo), URL_BASE + "-plugins/%s-{{VERSION}}.zip" % EXT_PLUGIN)
        return cfg

    def _car_and_plugins(self, q, form):
        from esrally.mechanic import team

        variables = dict(CAR_VARS)
        variables["runtime.jdk.bundled"] = "true" if self.bundled else "false"
        if q["mode"] == "dist" and form.get("ini_url"):
            for k in list(variables):
                if k.endswith("_url"):
                    variables[k] = "https://wrong.example.org/overridden-by-rally-ini/{{VERSION}}.tar.gz"
        plugins = []
        if q["mode"] == "src":
            if q["plug"] == "core":
                plugins.append(team.PluginDescriptor(CORE_PLUGIN, core_plugin=True))
            elif q["plug"] == "ext":
                plugins.append(team.PluginDescriptor(EXT_PLUGIN, core_plugin=False))
            if form.get("module"):
                plugins.insert(0, team.PluginDescriptor("repository-s3", core_plugin=False))  # moved to a module: no supplier
        else:
            repo = "snapshot" if q["ver"].endswith("-SNAPSHOT") else "release"
            if q["dcache"] != "missing" and not form.get("ini_cache"):
                variables["%s.cache" % repo] = q["dcache"]
            if q["plug"] == "url":
                pv = {} if form.get("ini_url") else {"%s_url" % repo: URL_BASE + "-plugins/%s-{{VERSION}}.zip" % EXT_PLUGIN}
                plugins.append(team.PluginDescriptor(EXT_PLUGIN, core_plugin=False, variables=pv))
            elif q["plug"] == "nourl":
                plugins.append(team.PluginDescriptor(CORE_PLUGIN if form.get("nourl_core") else EXT_PLUGIN, core_plugin=bool(form.get("nourl_core"))))
        return team.Car("default", None, [], variables=variables), plugins

    def _ref(self, r, text):
        """a revision on a git command line -> the name the specification uses"""
        if text in self.hashes[r]:
            return "c%d" % self.hashes[r][text]
        if text == BAD_HASH:
            return "bad"
        if text.startswith("@") and text[1:] in _TS_TICK:
            return "@%d" % _TS_TICK[text[1:]]
        if text in (BRANCH[r], "origin/" + BRANCH[r], "v1", "latest", "current"):
            return text
        if text.startswith("fatal:"):
            return "fatal"
        return "?" + text[:60]

    def _abstract(self, cmd):
        """a command line that reached esrally.utils.process -> operation of the specification (None: the `git --version` probe)"""
        for r in ("es", "pl"):
            d = re.escape(self.clone_dir(r))
            if re.fullmatch(r"git -C %s --version" % d, cmd):
                return None
            if cmd == "git clone %s %s" % (self.remote_url(r), self.clone_dir(r)):
                return {"o": "clone", "r": r, "x": ""}
            if re.fullmatch(r"git -C %s fetch --prune --tags origin" % d, cmd):
                return {"o": "fetch", "r": r, "x": ""}
            m = re.fullmatch(r"git -C %s checkout (.+)" % d, cmd)
            if m:
                return {"o": "checkout", "r": r, "x": self._ref(r, m.group(1))}
            if re.fullmatch(r"git -C %s rebase origin/%s" % (d, BRANCH[r]), cmd):
                return {"o": "rebase", "r": r, "x": ""}
            m = re.fullmatch(r'git -C %s rev-list -n 1 --before="([^"]+)" --date=iso8601 (\S+)' % d, cmd)
            if m:
                x = self._ref(r, "@" + m.group(1))
                return {"o": "revlist", "r": r, "x": x if m.group(2) == "origin/" + BRANCH[r] else "%s:%s" % (x, m.group(2))}
            m = re.fullmatch(r"git -C %s show-ref (\S+)" % d, cmd)
            if m:
                return {"o": "showref", "r": r, "x": self._ref(r, m.group(1))}
            if re.fullmatch(r"git -C %s rev-parse HEAD" % d, cmd):
                return {"o": "head", "r": r, "x": ""}
        es = self.clone_dir("es")
        log = os.path.join(self.logs, "build.log")
        m = re.fullmatch(r"export JAVA_HOME=/jdk/(\w+); cd %s; (.+) >> %s 2>&1" % (re.escape(es), re.escape(log)), cmd)
        if m:
            jdk, what = m.groups()
            tar = "linux-tar" if self.arch == "x86_64" else "linux-%s-tar" % self.arch
            if what == "./gradlew clean":
                return {"o": "clean", "r": "es", "x": jdk}
            if what == "./gradlew :distribution:archives:%s:assemble" % tar:
                return {"o": "build", "r": "es", "x": jdk}
            if what == "./gradlew :plugins:%s:assemble" % CORE_PLUGIN:
                return {"o": "build", "r": "core", "x": jdk}
            if what == "export JAVA_HOME=/jdk/%s; cd %s; ./build.sh" % (jdk, self.clone_dir("pl")):
                return {"o": "build", "r": "ext", "x": jdk}
        return {"o": "?", "r": "", "x": cmd.replace(self.base, "$B")[:120]}

    def _expected_url(self, q, plugin=False):
        repo = "snapshot" if q["ver"].endswith("-SNAPSHOT") else "release"
        if plugin:
            return URL_BASE + "-plugins/%s-%s.zip" % (EXT_PLUGIN, q["ver"])
        base = "https://snapshots.example.org/%s" % q["ver"] if repo == "snapshot" else URL_BASE
        return "%s/%s" % (base, self.es_file(q["ver"]))

    def _request(self, q, oplog):
        import urllib3

        def request(method, url, **kw):
            want = self._expected_url(q) + "?x-elastic-no-kpi=true"
            ok = method == "GET" and url == want and kw.get("preload_content") is False
            oplog.append({"o": "download", "r": "", "x": q["ver"] if ok else "?%s %s" % (method, url[:100])})
            if not self.net:
                raise urllib3.exceptions.MaxRetryError(None, url, reason="Failed to establish a new connection: [Errno 111] Connection refused")
            g = self.rgen.get(q["ver"], 0)
            if g == 0:
                return _Response(404, b"not found")
            return _Response(200, ("dist|%s|g%d" % (q["ver"], g)).encode())

        return request

    def _bins(self, q, binaries):
        out = []
        for name, path in binaries.items():
            if q["mode"] == "dist":
                if name == "elasticsearch":
                    want = os.path.join(self.dist_root, self.es_file(q["ver"]))
                    st = next((x for x in self._dist_state() if x["v"] == q["ver"]), None)
                    out.append({"a": "es", "w": "dist" if path == want else "?" + str(path)[-60:], "c": st["g"] if st and path == want else 0, "d": False})
                else:
                    ok = name == EXT_PLUGIN and path == self._expected_url(q, plugin=True)
                    out.append({"a": "pl" if name == EXT_PLUGIN else "?" + name, "w": "url" if ok else "?" + str(path)[-60:], "c": 0, "d": False})
                continue
            kind = KIND_OF_ARTIFACT.get(name)
            if kind is None or not isinstance(path, str):
                out.append({"a": "?" + str(name), "w": "?", "c": 0, "d": False})
                continue
            if kind != "es":
                if not path.startswith("file://"):
                    out.append({"a": kind, "w": "?no file:// prefix", "c": 0, "d": False})
                    continue
                path = path[len("file://") :]
            tree = self.clone_dir("pl" if kind == "ext" else "es")
            where = "cache" if os.path.dirname(path) == self.cache_dir else "tree" if path.startswith(tree + os.sep) else "?" + path[-60:]
            c, d, _j = self._origin(path, kind)
            out.append({"a": kind, "w": where, "c": c, "d": d})
        return out

    def supply(self, a):
        from esrally.mechanic import supplier
        from esrally.utils import console, jvm, net, process

        q, form = a["q"], a.get("form", {})
        cfg = self._cfg(q, form)
        car, plugins = self._car_and_plugins(q, form)
        oplog = []

        def wrap(name):
            real = getattr(process, name)

            def w(cmd, *args, **kw):
                op = self._abstract(cmd)
                if op is not None:
                    oplog.append(op)
                elif name == "run_subprocess_with_logging" and not args and set(kw) <= {"level"}:
                    # the `git -C <dir> --version` probe in front of every git call: really run once per directory and world, then answered alike
                    d = cmd.split(" ")[2]
                    if os.path.isdir(d) and self.probed.get(d) == 0:
                        return 0
                    rc = real(cmd, *args, **kw)
                    if os.path.isdir(d):
                        self.probed[d] = rc
                    return rc
                return real(cmd, *args, **kw)

            return w

        def lstat(path):
            name = os.path.basename(path)
            if os.path.dirname(path) == self.cache_dir and name in self.born:
                real = os.lstat(path)
                return pytypes.SimpleNamespace(st_ctime=(T0 + self.born[name][0] * DAY + datetime.timedelta(hours=1)).timestamp(), st_mode=real.st_mode)
            return os.lstat(path)

        now = T0 + self.now * DAY
        fake_dt = _Proxy(datetime, datetime=_Proxy(datetime.datetime, now=lambda tz=None: now))
        self._scan_cache()
        err, binaries = "none", {}
        with contextlib.ExitStack() as st:
            for name in ("run_subprocess", "run_subprocess_with_logging", "run_subprocess_with_output", "run_subprocess_with_logging_and_output"):
                st.enter_context(mock.patch.object(process, name, wrap(name)))
            st.enter_context(mock.patch.object(jvm, "resolve_path", lambda major, *args, **kw: (major, "/jdk/%s" % major)))
            st.enter_context(mock.patch("esrally.paths.logs", lambda: self.logs))
            st.enter_context(mock.patch.object(console, "QUIET", True))
            st.enter_context(mock.patch.object(supplier, "datetime", fake_dt))
            st.enter_context(mock.patch.object(supplier, "os", _Proxy(os, lstat=lstat)))
            st.enter_context(mock.patch.object(net, "_request", self._request(q, oplog)))
            st.enter_context(mock.patch("esrally.time.sleep", lambda *_a: None))
            try:
                s = supplier.create(cfg, sources=q["mode"] == "src", distribution=q["mode"] == "dist", car=car, plugins=plugins)
                binaries = s()
            except Exception as ex:  # pylint: disable=broad-except
                err = type(ex).__name__
        bins = self._bins(q, binaries) if err == "none" else []
        self.record(a, {"err": err, "bins": bins, "ops": oplog})


# ---------------------------------------------------------------------------------------------------
# executions
# ---------------------------------------------------------------------------------------------------
_CASE_NO = [0]
_TRASH = []


def _discard(path):
    """removes the directory of a finished execution without waiting for it (thousands of small git files)"""
    _TRASH.append(subprocess.Popen(["rm", "-rf", path], stdout=subprocess.DEVNULL, stderr=subprocess.DEVNULL))
    while len(_TRASH) > 8:
        _TRASH.pop(0).wait()


def rand_form(rnd):
    return {
        k: rnd.random() < p
        for k, p in (("qualified", 0.4), ("catchall", 0.5), ("cache_explicit", 0.5), ("days_explicit", 0.3), ("days_str", 0.5), ("ini_url", 0.3), ("ini_cache", 0.3), ("nourl_core", 0.5), ("module", 0.15))
    }


def execute(case, scratch):
    """runs case["ops"] on a fresh world; ops without a "form" (TLC behaviours) get a seeded one"""
    _CASE_NO[0] += 1
    base = os.path.join(scratch, "case-%d" % _CASE_NO[0])
    os.makedirs(base)
    w = World(base, scratch, int(case.get("seed", 0)))
    try:
        for op in case["ops"]:
            if op["op"] == "Supply":
                if "form" not in op:
                    op["form"] = rand_form(w.rnd)
                w.supply(op)
            else:
                w.env(op)
    finally:
        _discard(base)
    return w.events, w.anomalies


def Q(rev, plug="none", prev=None, cache=True, remote=True, premote=True, days=7):
    return {"op": "Supply", "q": {"mode": "src", "rev": rev, "plug": plug, "prev": prev or CUR, "cache": cache, "remote": remote, "premote": premote if plug == "ext" else False, "days": days, "ver": "", "dcache": ""}}


def D(ver, dcache="true", plug="none"):
    return {"op": "Supply", "q": {"mode": "dist", "rev": CUR, "plug": plug, "prev": CUR, "cache": False, "remote": False, "premote": False, "days": 0, "ver": ver, "dcache": dcache}}


def E(op, r="", v=""):
    return {"op": op, "r": r, "v": v}


LATEST, CUR, BRANCH_REV, TAG, BAD = ({"k": k, "n": 0} for k in ("latest", "current", "branch", "tag", "bad"))


def C(n):
    return {"k": "commit", "n": n}


def TS(n):
    return {"k": "ts", "n": n}


def directed_cases():
    """one small execution per behaviour worth naming (the minimal inputs of the pinned deviations first)"""
    cases = {
        "core-plugin-from-stale-checkout": [Q(C(1)), E("Push", "es"), Q(LATEST), Q(C(1), "core"), Q(C(1), "core"), Q(C(2), "core")],
        "core-plugin-without-source-tree": [Q(C(1)), E("Wipe", "es"), Q(C(1), "core"), Q(LATEST, "core"), Q(C(1), "core")],
        "current-edited-served-from-cache": [Q(CUR), E("Edit", "es"), Q(CUR), Q(CUR, cache=False)],
        "edited-build-cached-under-hash": [Q(CUR, cache=False), E("Edit", "es"), Q(CUR), E("Revert", "es"), Q(C(1)), Q(LATEST)],
        "edited-same-commit-checkout": [Q(LATEST, cache=False), E("Edit", "es"), Q(C(1)), Q(LATEST), Q(BRANCH_REV), E("Push", "es"), Q(BRANCH_REV), Q(TAG), Q(TS(0))],
        "timestamp-before-history": [Q(TS(-1)), Q(TS(0)), Q(TS(-1))],
        "external-plugin-at-timestamp": [Q(C(1), "ext", TS(0)), Q(TS(0), "ext", TS(0)), Q(C(1), "ext", LATEST), Q(C(1), "ext", TS(0))],
        "prune": [Q(C(1), days=1), E("Tick"), Q(C(1), days=1), E("Tick"), Q(C(1), days=2), Q(C(1), days=1), E("Tick"), E("Tick"), Q(LATEST, "core", days=3), E("Tick"), E("Tick"), E("Tick"), Q(CUR, days=2), Q(CUR, cache=False, days=1), Q(CUR, days=1)],
        "prune-one-of-two": [Q(C(1), "core", days=5), E("Tick"), E("Push", "es"), E("Tick"), Q(LATEST, days=5), E("Tick"), E("Tick"), E("Tick"), E("Tick"), Q(LATEST, days=5), Q(C(1), "core", days=5)],
        "no-remote": [Q(CUR, remote=False), Q(LATEST), E("Push", "es"), Q(C(1), remote=False), Q(C(2), remote=False), Q(LATEST, remote=False), Q(TS(0), remote=False), Q(BRANCH_REV, remote=False, cache=False), Q(TAG, remote=False, cache=False), Q(BAD, remote=False), Q(CUR, remote=False), Q(C(1), remote=False, cache=False)],
        "network-down": [Q(LATEST), E("Push", "es"), E("Net"), Q(C(1)), Q(LATEST), Q(C(2)), Q(CUR), Q(TS(0)), Q(BRANCH_REV), Q(C(1), "core"), E("Net"), Q(C(2))],
        "sources-without-git": [Q(LATEST), E("Ungit", "es"), Q(CUR, remote=False), Q(CUR, remote=False), Q(LATEST), Q(C(1), remote=False), Q(C(1), remote=False, cache=False), Q(CUR, "core", remote=False), E("Edit", "es"), Q(CUR, remote=False)],
        "failed-clone-leaves-empty-directory": [E("Net"), Q(LATEST), Q(CUR, remote=False), Q(CUR, "core", remote=False), E("Net"), Q(CUR)],
        "distribution-cache": [D("8.0.0"), D("8.0.0"), E("Republish", v="8.0.0"), D("8.0.0", plug="url"), D("8.0.0", "false", "nourl"), D("8.0.0", "missing"), D("0.0.0"), E("Net"), D("8.0.0", "false"), D("8.0.0"), D("8.1.0-SNAPSHOT", "missing"), E("Net"), D("8.1.0-SNAPSHOT", "missing"), D("8.1.0-SNAPSHOT", "missing"), D("8.1.0-SNAPSHOT", "false", "url")],
        "external-plugin": [Q(C(1), "ext", LATEST), E("Push", "pl"), Q(C(1), "ext", LATEST), Q(C(1), "ext", C(1)), Q(LATEST, "ext", LATEST), Q(CUR, "ext", CUR, premote=False), E("Edit", "pl"), Q(C(1), "ext", CUR), Q(C(1), "ext", C(1)), Q(C(1), "ext", C(2)), Q(C(1), "ext", BRANCH_REV), Q(C(1), "ext", BAD), E("Wipe", "pl"), Q(C(1), "ext", CUR, premote=False), Q(C(1), "ext", TAG)],
        "latest-moves": [Q(LATEST), E("Push", "es"), Q(LATEST), Q(LATEST), E("Tick"), Q(TS(0)), Q(TS(1)), E("Push", "es"), Q(TS(1)), Q(BRANCH_REV), Q(TAG), Q(BAD), Q(CUR)],
        "cache-disabled": [Q(C(1), cache=False), Q(C(1), cache=False), Q(C(1), "core", cache=False), Q(C(1), "core"), Q(C(1), "core", cache=False)],
    }
    return [{"src": "directed:" + k, "seed": i, "ops": copy.deepcopy(v)} for i, (k, v) in enumerate(cases.items())]


def _enabled_env(st, family):
    out = []
    repos = ("es", "pl") if family == "ext" else ("es",)
    if family == "dist":
        out += [E("Net"), E("Tick")] + [E("Republish", v=x["v"]) for x in st["rgen"] if 1 <= x["g"] < MAXGEN - 1]
        return out
    if st["now"] < MAXT - 1:
        out += [E("Tick")] * 2
    out.append(E("Net"))
    for r in repos:
        R = st["repos"][r]
        if R["rhead"] < NC_MAX - 1:
            out += [E("Push", r)] * 2
        if R["clone"] in ("git", "plain") and not R["dirty"]:
            out.append(E("Edit", r))
        if R["clone"] == "git" and R["dirty"]:
            out += [E("Revert", r)] * 2
        if R["clone"] != "absent":
            out.append(E("Wipe", r))
        if R["clone"] == "git":
            out.append(E("Ungit", r))
    return out


def random_case(seed, scratch, n_ops):
    """a seeded random execution: every next step is chosen among the steps enabled in the world as observed so far"""
    rnd = random.Random(seed)
    _CASE_NO[0] += 1
    base = os.path.join(scratch, "case-%d" % _CASE_NO[0])
    os.makedirs(base)
    w = World(base, scratch, seed)
    family = rnd.choice(["core", "core", "time", "local", "ext", "dist"])
    days = rnd.choice([1, 2, 3, 7])
    ops = []
    try:
        st = w.state()
        for _ in range(n_ops):
            p_env = {"core": 0.4, "time": 0.5, "local": 0.4, "ext": 0.4, "dist": 0.35}[family]
            if not w.net and rnd.random() < 0.35:
                op = E("Net")
            elif rnd.random() < p_env:
                op = rnd.choice(_enabled_env(st, family))
            elif family == "dist":
                op = D(rnd.choice(VERSIONS[:2] * 3 + VERSIONS[2:]), rnd.choice(["true", "true", "false", "missing"]), rnd.choice(["none", "url", "nourl"]))
            else:
                def rev(r):
                    n = st["repos"][r]["rhead"]
                    kinds = ["latest", "current", "commit", "commit", "ts", "branch", "tag"] + (["bad"] if rnd.random() < 0.2 else [])
                    k = rnd.choice(kinds)
                    return C(rnd.randint(1, n)) if k == "commit" else TS(rnd.randint(-1, st["now"])) if k == "ts" else {"k": k, "n": 0}

                plug = {"core": rnd.choice(["none", "core", "core"]), "ext": "ext", "time": rnd.choice(["none", "none", "core"]), "local": rnd.choice(["none", "core"])}[family]
                op = Q(
                    rev("es"), plug, rev("pl") if plug == "ext" else None, cache=rnd.random() < 0.85, remote=rnd.random() < (0.5 if family == "local" else 0.9),
                    premote=rnd.random() < 0.8, days=days if family in ("time", "core") else 7,
                )  # fmt: skip
            if op["op"] == "Supply":
                op["form"] = rand_form(rnd)
                w.supply(op)
            else:
                w.env(op)
            ops.append(op)
            st = w.events[-1]["st"]
    finally:
        _discard(base)
    return {"src": "random:" + family, "seed": seed, "ops": ops}, w.events, w.anomalies


def behaviours_from_tlc(ctx, out, res, simdir, cfg):
    rnd = random.Random(ctx.seed + 5)
    cases = []
    for fn in sorted(glob.glob(os.path.join(simdir, "b_*"))):
        states = parse_simulation_file(fn)
        ops = [to_json(st["act"]) for st in states if st["act"]["op"] != "Init"]
        if ops:
            cases.append({"src": "tlc-simulate:" + cfg, "seed": rnd.randrange(10**6), "ops": ops})
    return cases


# ---------------------------------------------------------------------------------------------------
# what create() composes (SupplierPlan.tla)
# ---------------------------------------------------------------------------------------------------
TOKEN = {"latest": "latest", "current": "current", "ts": "@2024-01-01T12:00:00Z", "brts": "feature/x@2024-01-01T12:00:00Z", "hash": "67c2f42a" * 5}
TOKEN_OF = {v: k for k, v in TOKEN.items()}
COMPONENT = {"": "", "elasticsearch": "elasticsearch", "ext": EXT_PLUGIN, "core": CORE_PLUGIN, "other": "some-other-plugin"}
PLUGIN_KIND = {CORE_PLUGIN: "core", EXT_PLUGIN: "ext", "repository-s3": "module"}
DVER = "8.0.0"


class _DockerClient:
    def version(self):
        return {"Version": "verif"}


def plan_of(inp, root):
    """supplier.create() for the input of SupplierPlan.tla; the composed suppliers are read off the objects"""
    from esrally import config
    from esrally.mechanic import supplier, team

    cfg = config.Config()
    S = config.Scope.application
    if inp["items"]:
        cfg.add(S, "mechanic", "source.revision", ",".join((COMPONENT[i["c"]] + ":" if i["c"] else "") + TOKEN[i["r"]] for i in inp["items"]))
    if inp["dver"]:
        cfg.add(S, "mechanic", "distribution.version", DVER)
    cfg.add(S, "mechanic", "distribution.repository", "release")
    cfg.add(S, "mechanic", "target.os", "linux")
    cfg.add(S, "mechanic", "target.arch", "x86_64")
    if inp["method"] != "default":
        cfg.add(S, "mechanic", "source.build.method", inp["method"])
    cfg.add(S, "node", "root.dir", os.path.join(root, "benchmarks"))
    cfg.add(S, "node", "src.root.dir", os.path.join(root, "src"))
    cfg.add(S, "source", "distribution.dir", "distributions")
    cfg.add(S, "source", "elasticsearch.src.subdir", "elasticsearch")
    cfg.add(S, "source", "remote.repo.url", "https://git.example.org/elasticsearch.git")
    if not inp["caching"]:
        cfg.add(S, "source", "cache", False)
    if inp["days"] != 7:
        cfg.add(S, "source", "cache.days", inp["days"])
    if inp["extcfg"] in ("dir", "both"):
        cfg.add(S, "source", "plugin.%s.src.dir" % EXT_PLUGIN, os.path.join(root, "plugin-src"))
    if inp["extcfg"] in ("subdir", "both"):
        cfg.add(S, "source", "plugin.%s.src.subdir" % EXT_PLUGIN, "elasticsearch-extra/" + EXT_PLUGIN)
    car = team.Car("default", None, [], variables=dict(CAR_VARS, **{"build.jdk": "17" if inp["jdk"] == "ok" else "seventeen", "release.cache": "true"}))
    names = {"core": CORE_PLUGIN, "ext": EXT_PLUGIN, "module": "repository-s3"}
    plugins = [team.PluginDescriptor(names[p], core_plugin=p == "core") for p in inp["plugins"]]
    made = []

    class RecBuilder(supplier.Builder):
        def __init__(self, *args, **kw):
            made.append("Builder" if kw.get("build_jdk") is not None else "PluginBuilder")
            super().__init__(*args, **kw)

    class RecDockerBuilder(supplier.DockerBuilder):
        def __init__(self, *args, **kw):
            made.append("DockerBuilder")
            super().__init__(*args, **kw)

    kinds = {"RecBuilder": "Builder", "RecDockerBuilder": "DockerBuilder", "NoneType": "none"}
    with contextlib.ExitStack() as st:
        st.enter_context(mock.patch.object(supplier, "Builder", RecBuilder))
        st.enter_context(mock.patch.object(supplier, "DockerBuilder", RecDockerBuilder))
        st.enter_context(mock.patch("docker.from_env", _DockerClient))
        st.enter_context(mock.patch("esrally.paths.logs", lambda: os.path.join(root, "logs")))
        try:
            comp = supplier.create(cfg, sources=inp["sources"], distribution=not inp["sources"], car=car, plugins=plugins)
        except Exception as ex:  # pylint: disable=broad-except
            return {"err": type(ex).__name__, "builder": "none", "sup": []}
    sup = []
    for x in comp.suppliers:
        cached = isinstance(x, supplier.CachedSourceSupplier)
        inner = x.source_supplier if cached else x
        t = type(inner).__name__
        rec = {"t": "?" + t, "name": "?", "rev": "", "cached": cached, "b": "none"}
        if t == "ElasticsearchSourceSupplier":
            rec.update(t="EsSrc", name="elasticsearch", rev=TOKEN_OF.get(inner.revision, "?" + str(inner.revision)), b=kinds.get(type(inner.builder).__name__, "?"))
            if cached and not (isinstance(x.file_resolver, supplier.ElasticsearchFileNameResolver) and x.file_resolver.revision == inner.revision):
                rec["t"] = "?resolver"
        elif t == "ElasticsearchDistributionSupplier":
            rec.update(t="EsDist", name="elasticsearch", rev="dver" if inner.version == DVER else "?" + str(inner.version))
        elif t == "CorePluginSourceSupplier":
            rec.update(t="CoreSrc", name=PLUGIN_KIND.get(inner.plugin.name, "?"), b=kinds.get(type(inner.builder).__name__, "?"))
            if cached and not (isinstance(x.file_resolver, supplier.PluginFileNameResolver) and x.file_resolver.plugin_name == inner.plugin.name):
                rec["t"] = "?resolver"
        elif t == "ExternalPluginSourceSupplier":
            rec.update(t="ExtSrc", name=PLUGIN_KIND.get(inner.plugin.name, "?"), rev=TOKEN_OF.get(inner.revision, "?" + str(inner.revision)), b=kinds.get(type(inner.builder).__name__, "?"))
            if cached and not (isinstance(x.file_resolver, supplier.PluginFileNameResolver) and x.file_resolver.plugin_name == inner.plugin.name and x.file_resolver.revision == inner.revision):
                rec["t"] = "?resolver"
        elif t == "PluginDistributionSupplier":
            rec.update(t="PlDist", name=PLUGIN_KIND.get(inner.plugin.name, "?"))
        sup.append(rec)
    return {"err": "none", "builder": "DockerBuilder" if "DockerBuilder" in made else "Builder" if "Builder" in made else "none", "sup": sup}


def plan_leg(ctx, out, scratch):
    cfg = "SupplierPlan.quick.cfg" if ctx.quick else "SupplierPlan.thorough.cfg"
    res = _tlc(ctx, cfg)
    wd = res.wd
    dump = os.path.join(wd, "states")
    if not res.ok:
        raise tlc.MachineryError("model violates PlanOK in %s: %s" % (cfg, res.out[-1500:]))
    out.add_tlc(res)
    from ..tlaparse import parse_dump

    inputs = sorted((to_json(st["inp"]) for st in parse_dump(dump + ".dump" if os.path.exists(dump + ".dump") else dump) if st["done"]), key=lambda i: json.dumps(i, sort_keys=True))
    shutil.rmtree(wd, ignore_errors=True)
    root = os.path.join(scratch, "plan-home")
    items = []
    outcomes = {}
    for n, inp in enumerate(inputs):
        plan = plan_of(inp, root)
        items.append({"id": "plan-%d" % n, "inp": inp, "plan": plan})
        out.add_case(inp, nontrivial=plan["err"] == "none" and len(plan["sup"]) >= 2)
        key = plan["err"] if plan["err"] != "none" else "+".join(x["t"] + ("*" if x["cached"] else "") for x in plan["sup"])
        outcomes[key] = outcomes.get(key, 0) + 1
    v = tracecheck.validate(SPEC, "TraceSupplierPlan", "TraceSupplierPlan.cfg", items, name="xsupplier-plantrace", chunk=4000, timeout=600)
    out.states += v.n_events
    out.transitions += v.n_events
    out.traces_validated += v.accepted(len(items))
    by_id = {it["id"]: it for it in items}
    for tid, fails in sorted(v.l1.items())[:MAX_VIOLATIONS_PER_KIND]:
        clauses = sorted({c for _, cl in fails for c in cl})
        out.violations.append(Violation(",".join(clauses), {"src": "plan", "inp": by_id[tid]["inp"]}, signature={"clauses": clauses}, detail="create() for %s composed %s" % (json.dumps(by_id[tid]["inp"]), json.dumps(by_id[tid]["plan"])[:300])))
    for tid in sorted(v.l2)[:5]:
        out.drift.append("plan %s: create() for %s composed %s, which is not Plan(inp) of SupplierPlan.tla" % (tid, json.dumps(by_id[tid]["inp"]), json.dumps(by_id[tid]["plan"])[:300]))
    if len(v.l2) > 5:
        out.drift.append("plan: %d more inputs whose composition differs from SupplierPlan.tla" % (len(v.l2) - 5))
    out.extra["plan_outcomes"] = dict(sorted(outcomes.items(), key=lambda kv: -kv[1]))
    out.note("plan leg: all %d states of %s executed on the real create(): %d compositions / refusals agree with SupplierPlan.tla (%d kinds of outcome), %d L1, %d L2" % (len(items), cfg, v.accepted(len(items)), len(outcomes), len(v.l1), len(v.l2)))
    pick = next((it for it in items if len(it["plan"]["sup"]) == 3 and it["plan"]["sup"][2]["t"] == "ExtSrc"), items[0])
    out.sample({"source": "tlc-dump:" + cfg, "input": pick["inp"], "composed": pick["plan"]})
    # binding self-test
    muts = []
    for k, it in enumerate(x for x in items if x["plan"]["err"] == "none" and len(x["plan"]["sup"]) >= 2 and x["plan"]["sup"][0]["cached"]):
        m = copy.deepcopy(it)
        m["id"] = "bind-plan-%d" % k
        if k == 0:
            m["plan"]["sup"].reverse()
        elif k == 1:
            m["plan"]["sup"][0]["cached"] = False
        else:
            break
        muts.append(m)
    vb = tracecheck.validate(SPEC, "TraceSupplierPlan", "TraceSupplierPlan.cfg", muts, name="xsupplier-planbind")
    if len(muts) != 2 or any(m["id"] not in vb.l1 for m in muts):
        raise tlc.MachineryError("binding self-test of the plan leg failed: %s" % sorted(vb.l1))


# ---------------------------------------------------------------------------------------------------
# verdicts
# ---------------------------------------------------------------------------------------------------
def canned_recording():
    """latest, push, latest - as Supplier.tla says it goes (written down by hand: independent of the tree under test)"""
    def repo(rhead, clone, at):
        return {"rhead": rhead, "rtime": [0] * rhead, "clone": clone, "head": at, "main": at, "omain": at, "dirty": False}

    def st(rhead, at, cache):
        return {
            "now": 0, "net": True, "repos": {"es": repo(rhead, "git", at), "pl": repo(1, "absent", 0)}, "cache": [{"k": "es", "n": n, "born": 0, "c": n, "d": False} for n in cache],
            "dist": [], "rgen": [{"v": v, "g": 0 if v == "0.0.0" else 1} for v in sorted(VERSIONS)], "junk": 0,
        }  # fmt: skip

    def ops(names, jdk):
        return [{"o": o, "r": "es", "x": "main" if o == "checkout" else jdk if o in ("clean", "build") else ""} for o in names]

    pull = ["fetch", "checkout", "rebase", "head", "clean", "build"]
    return [
        {"a": Q(LATEST), "st": st(1, 1, [1]), "ret": {"err": "none", "bins": [{"a": "es", "w": "cache", "c": 1, "d": False}], "ops": ops(["clone"] + pull, "17")}},
        {"a": E("Push", "es"), "st": st(2, 1, [1]), "ret": {"err": "none", "bins": [], "ops": []}},
        {"a": Q(LATEST), "st": st(2, 2, [1, 2]), "ret": {"err": "none", "bins": [{"a": "es", "w": "cache", "c": 2, "d": False}], "ops": ops(pull, "18")}},
    ]


def _trace_cfg_text(flip):
    with open(os.path.join(tlc.SPECS, SPEC, "TraceSupplier.cfg"), encoding="utf-8") as f:
        text = f.read()
    for s in flip:
        text, n = re.subn(r"^  %s = FALSE$" % re.escape(s), "  %s = TRUE" % s, text, flags=re.M)
        if n != 1:
            raise tlc.MachineryError("unknown switch %r" % s)
    return text


def _short(a):
    if a["op"] != "Supply":
        return "%s %s%s" % (a["op"], a.get("r", ""), a.get("v", ""))
    q = a["q"]

    def rv(x):
        return x["k"] + (str(x["n"]) if x["k"] in ("commit", "ts") else "")

    if q["mode"] == "dist":
        return "dist %s cache=%s plugin=%s" % (q["ver"], q["dcache"], q["plug"])
    return "src %s%s%s%s%s" % (rv(q["rev"]), " +" + q["plug"] if q["plug"] != "none" else "", ":" + rv(q["prev"]) if q["plug"] == "ext" else "", "" if q["cache"] else " nocache", "" if q["remote"] else " noremote")


def judge(out, stats, items, index, verdicts, label):
    out.states += verdicts.n_events
    out.transitions += verdicts.n_events
    bad_l2 = []
    accepted = 0
    for it in items:
        tid = it["id"]
        case, events = index[tid]
        fails = verdicts.l1.get(tid, [])
        clauses = sorted({c for _, cl in fails for c in cl})
        fresh = [c for c in clauses if c not in PINNED]
        for c in clauses:
            stats["l1"][c] = stats["l1"].get(c, 0) + 1
        if fresh:
            key = ",".join(fresh)
            stats["l1_new"][key] = stats["l1_new"].get(key, 0) + 1
            ln = min(ln for ln, cl in fails if set(cl) & set(fresh))
            if stats["l1_new"][key] <= MAX_VIOLATIONS_PER_KIND:
                out.violations.append(
                    Violation(key, case, signature={"clauses": clauses, "step": _short(events[ln - 1]["a"])}, detail="run %s (%s) event %d (%s): %s fail; returned %s" % (tid, case["src"], ln, _short(events[ln - 1]["a"]), key, json.dumps(events[ln - 1]["ret"])[:300]))
                )  # fmt: skip
        else:
            for c in clauses:
                rec = out.extra.setdefault("pinned_behaviour_observed", {}).setdefault(c, {"switch": PINNED[c][0], "what": PINNED[c][1], "runs": 0, "example": None, "size": None})
                rec["runs"] += 1
                ln = min(ln for ln, cl in fails if c in cl)
                size = ln
                if rec["example"] is None or size < rec["size"]:
                    rec["example"] = {"run": tid, "source": case["src"], "steps": [_short(e["a"]) for e in events[:ln]], "returned": events[ln - 1]["ret"]}
                    rec["size"] = size
        if tid in verdicts.l2:
            bad_l2.append(it)
            ln = verdicts.l2[tid][0]
            ev = events[ln - 1] if 1 <= ln <= len(events) else {"a": {"op": "?"}, "ret": {}}
            out.drift.append("run %s (%s): event %d (%s) is not the step of Supplier.tla (code as it is): returned %s" % (tid, case["src"], ln, _short(ev["a"]) if ev["a"].get("op") != "?" else "?", json.dumps(ev["ret"])[:400]))
        elif not fresh:
            accepted += 1
    stats["runs"] += len(items)
    stats["accepted"] += accepted
    out.traces_validated += accepted  # no L2 rejection and no failing clause other than the pinned strong forms
    return bad_l2


def explain_drift(out, bad, label):
    """recorded runs that are not behaviours of the model of the code as it is: do they all fit the model with one switch flipped (i.e. has a pinned
    behaviour been repaired in the tree under test)?"""
    if not bad:
        return
    for s in SWITCHES:
        v = tracecheck.validate(SPEC, "TraceSupplier", "TraceSupplier.cfg", copy.deepcopy(bad[:150]), name="xsupplier-variant", cfg_text=_trace_cfg_text([s]), timeout=300)
        if not v.l2:
            out.drift.insert(0, "%s: the %d runs that are not steps of the model of the code as it is are all accepted with %s = TRUE: this behaviour seems to have been repaired; switch the cfgs of specs/Supplier over" % (label, len(bad), s))
            return


def run_cases(executions, out, stats, label, chunk=150):
    """executions: [(case, events, anomalies)]"""
    items, index = [], {}
    for ci, (case, events, anomalies) in enumerate(executions):
        tid = "%s-%d" % (label, ci)
        items.append({"id": tid, "events": events})
        index[tid] = (case, events)
        n_supply = sum(1 for e in events if e["a"]["op"] == "Supply")
        out.add_case([{k: v for k, v in o.items() if k != "form"} for o in case["ops"]], nontrivial=n_supply >= 2)
        stats["invocations"] += n_supply
        stats["events"] += len(events)
        for e in events:
            if e["a"]["op"] == "Supply":
                stats["outcomes"][e["ret"]["err"]] = stats["outcomes"].get(e["ret"]["err"], 0) + 1
                for op in e["ret"]["ops"]:
                    stats["ops"][op["o"]] = stats["ops"].get(op["o"], 0) + 1
        for s in anomalies[:2]:
            out.drift.append("run %s (%s): %s" % (tid, case["src"], s))
    if not items:
        raise tlc.MachineryError("no executions for %s" % label)
    t0 = time.time()
    verdicts = tracecheck.validate(SPEC, "TraceSupplier", "TraceSupplier.cfg", items, name="xsupplier-trace", chunk=chunk, timeout=600)
    bad = judge(out, stats, items, index, verdicts, label)
    explain_drift(out, bad, label)
    stats["wall_validate_s"] = round(stats["wall_validate_s"] + time.time() - t0, 1)
    return index


# ---------------------------------------------------------------------------------------------------
# TLC jobs that do not depend on an execution of the real code (run four at a time)
# ---------------------------------------------------------------------------------------------------
AS_IS = ("quick", "time", "local", "ext", "dist")
REPAIRED = ("repaired.core", "repaired.time", "repaired.ext", "repaired.dist")
THOROUGH = ("thorough", "thorough.time", "thorough.repaired")
SELFTESTS = {
    "pinned.dirty": ("PropDirtyExact", "DirtyAware=FALSE: `current` on an edited tree is served the cached build of HEAD"),
    "pinned.dirtycache": ("CacheClean", "DirtyAware=FALSE: the build of an edited tree is cached under the hash of HEAD"),
    "pinned.core": ("PropCorePaired", "CorePluginPaired=FALSE: Elasticsearch from the cache, the core plugin built from the commit the tree happens to be on"),
    "pinned.ts": ("PropExplicitFailure", "TsErrorExplicit=FALSE: @timestamp before the first commit raises IndexError"),
    "pinned.plts": ("PropSucceeds", "PluginTsBranch=FALSE: an external plugin at @timestamp fails (rev-list origin/main..origin/master)"),
    "pinned.net": ("PropExplicitFailure", "NetErrorExplicit=FALSE: a download without network raises MaxRetryError"),
    "pinned.key": ("PropCacheKeyChecked", "CacheKeyEager=FALSE: a missing <repo>.cache key goes unnoticed on the first run"),
}
_PREFETCHED = {}


def _job_table(ctx):
    q = ctx.quick
    t = {}
    for c in AS_IS + REPAIRED:
        t["Supplier.%s.cfg" % c] = {"timeout": 200, "allow_violation": True, "workers": 1}
    for c in SELFTESTS:
        t["Supplier.%s.cfg" % c] = {"timeout": 200, "allow_violation": True, "workers": 1}
    if not q:
        for c in THOROUGH:
            t["Supplier.%s.cfg" % c] = {"timeout": 1500, "allow_violation": True, "workers": 6 if c == "thorough.time" else 3}
    t["SupplierPlan.quick.cfg" if q else "SupplierPlan.thorough.cfg"] = {"timeout": 600, "workers": 2, "module": "MC_SupplierPlan", "dump": True}
    t["Supplier.sim.cfg"] = {"timeout": 300, "workers": 1, "sim": (32 if q else 300, 10), "seed": ctx.seed + 11}
    t["Supplier.simdist.cfg"] = {"timeout": 300, "workers": 1, "sim": (6 if q else 50, 10), "seed": ctx.seed + 12}
    return t


def _run_job(cfg, kw):
    kw = dict(kw)
    wd = tlc.prepare_workdir(SPEC, "xsupplier")
    sim = kw.pop("sim", None)
    if sim:
        simdir = os.path.join(wd, "sim")
        os.makedirs(simdir)
        kw["simulate"] = {"num": sim[0], "file": os.path.join(simdir, "b")}
        kw["depth"] = sim[1]
    if kw.pop("dump", False):
        kw["dump"] = os.path.join(wd, "states")
    res = tlc.run_tlc(wd, kw.pop("module", "MC_Supplier"), cfg, **kw)
    res.wd = wd
    return res


def _prefetch(ctx, par=5):
    from concurrent.futures import ThreadPoolExecutor

    tlc.scratch_root()
    jobs = sorted(_job_table(ctx).items(), key=lambda kv: (0 if "thorough" in kv[0] else 1 if "Plan" in kv[0] or "sim" in kv[0] else 2, kv[0]))

    def one(job):
        try:
            return _run_job(*job)
        except Exception as ex:  # pylint: disable=broad-except
            return ex

    with ThreadPoolExecutor(par) as ex:
        for (key, _kw), res in zip(jobs, ex.map(one, jobs)):
            _PREFETCHED[key] = res


def _tlc(ctx, cfg):
    res = _PREFETCHED.pop(cfg, None)
    if res is None:
        res = _run_job(cfg, _job_table(ctx)[cfg])
    if isinstance(res, Exception):
        raise res
    return res


@contextlib.contextmanager
def _git_environment(scratch):
    """the git processes of the code under test must not read the configuration of whoever runs the check"""
    keep = {k: os.environ.get(k) for k in list(_GIT_ENV) + ["HOME"]}
    os.environ.update(_GIT_ENV)
    os.environ["HOME"] = scratch
    try:
        yield
    finally:
        for k, v in keep.items():
            if v is None:
                os.environ.pop(k, None)
            else:
                os.environ[k] = v


def new_stats():
    return {"runs": 0, "accepted": 0, "invocations": 0, "events": 0, "l1": {}, "l1_new": {}, "outcomes": {}, "ops": {}, "wall_exec_s": 0.0, "wall_validate_s": 0.0}


def run(ctx, out):
    _quiet()
    quick = ctx.quick
    scratch = ctx.scratch("xsupplier")
    out.rule = (
        "case = a sequence of supplier invocations (from sources: revision latest / current / @timestamp / hash / branch / tag / unknown hash, no / core / external plugin with its own "
        "revision, source.cache on / off, cache.days, with / without remote URL; from a distribution: version, <repo>.cache true / false / missing, plugin with / without URL) and "
        "environment actions (tick, push, network down / up, edit / revert / wipe / un-git a source tree, republish a download) on one home directory; distinct by hash; "
        "non-trivial = at least 2 invocations. Sources: TLC -simulate behaviours of Supplier.tla, directed executions, seeded random executions."
    )
    out.assumptions = [
        "the `git -C <dir> --version` probe in front of every git call is really run once per directory and execution, afterwards answered with the same exit code",
        "git is the real git (2.x) on real repositories: the remote is a directory (network down = it is moved away), every commit rewrites one tracked file, so a checkout of another "
        "commit fails on an edited tree and `git rebase` refuses it; histories are linear on the default branch (no local commits, no diverging branches, tag v1 = first commit)",
        "the build is the real shell command line of Builder.run through the real esrally.utils.process; ./gradlew and ./build.sh are scripts checked into the repositories that write an artifact "
        "naming the commit, the dirtiness and JAVA_HOME; jvm.resolve_path is replaced by (major, /jdk/<major>); DockerBuilder is not run",
        "downloads go through the real net.download / _download_http on a scripted urllib3 request function (200 with the current generation, 404, or MaxRetryError when the network is down)",
        "the clock of _prune is virtual: datetime.now() = start of the current tick (day), st_ctime of a cached file = one hour into the tick in which the harness saw it appear (inode / ctime change)",
        "the world is observed by the harness itself (git rev-parse / status, content of every file below distributions/), not through the code under test",
        "one invocation = supplier.create(cfg, sources, distribution, car, plugins)() under a fresh Config, as a new Rally process would do; invocations do not overlap",
    ]
    with _git_environment(scratch):
        _template(scratch)
        t0 = time.time()
        _prefetch(ctx)
        out.extra["wall_tlc_jobs_s"] = round(time.time() - t0, 1)
        try:
            _legs(ctx, out, quick, scratch)
        finally:
            while _TRASH:
                _TRASH.pop().wait()


def _legs(ctx, out, quick, scratch):
    # ---- Leg M
    for c in AS_IS + REPAIRED + (() if quick else THOROUGH):
        res = _tlc(ctx, "Supplier.%s.cfg" % c)
        out.add_tlc(res)
        shutil.rmtree(res.wd, ignore_errors=True)
        if not res.ok:
            raise tlc.MachineryError("model violates %s in Supplier.%s.cfg: %s" % (res.invariant_violated or res.property_violated or res.error, c, res.out[-1500:]))
        out.note("leg M Supplier.%s.cfg: %d distinct states, %d transitions, depth %d, %.1fs" % (c, res.distinct, res.generated, res.depth, res.wall_s))
    for c, (expect, text) in SELFTESTS.items():
        res = _tlc(ctx, "Supplier.%s.cfg" % c)
        out.add_tlc(res)
        shutil.rmtree(res.wd, ignore_errors=True)
        got = res.property_violated or res.invariant_violated
        if got != expect:
            raise tlc.MachineryError("self-test failed: Supplier.%s.cfg should violate %s, got %s" % (c, expect, got or res.error or "no violation"))
        out.extra.setdefault("model_selftests", []).append("Supplier.%s.cfg violates %s in the model, as expected: %s" % (c, expect, text))
    out.note("leg M: %d self-tests: each pinned behaviour of the code violates its strong clause in the model; with all switches TRUE every clause holds" % len(SELFTESTS))
    out.exhaustive = False
    # ---- what create() composes: every state of SupplierPlan on the real code
    plan_leg(ctx, out, scratch)
    # ---- Leg S2C + C2S
    stats = new_stats()
    sims = []
    for cfg in ("Supplier.sim.cfg", "Supplier.simdist.cfg"):
        res = _tlc(ctx, cfg)
        out.add_tlc(res)
        sims += behaviours_from_tlc(ctx, out, res, os.path.join(res.wd, "sim"), cfg)
        shutil.rmtree(res.wd, ignore_errors=True)
    execs = []
    t0 = time.time()
    for case in sims:
        events, anomalies = execute(case, scratch)
        execs.append((case, events, anomalies))
    stats["wall_exec_s"] += time.time() - t0
    out.note("leg S2C: %d TLC behaviours executed on the real suppliers (%d invocations)" % (len(sims), sum(1 for c in sims for o in c["ops"] if o["op"] == "Supply")))
    run_cases(execs, out, stats, "sim")
    pick = max(sims, key=lambda c: sum(1 for o in c["ops"] if o["op"] == "Supply"))
    out.sample({"source": pick["src"], "steps": [_short(o) for o in pick["ops"]]})
    directed = directed_cases()
    t0 = time.time()
    execs = [(case,) + execute(case, scratch) for case in directed]
    stats["wall_exec_s"] += time.time() - t0
    run_cases(execs, out, stats, "dir")
    for case, events, _an in execs[:3]:
        out.sample({"source": case["src"], "steps": [_short(e["a"]) + " -> " + (e["ret"]["err"] if e["ret"]["err"] != "none" else ",".join("%s=%s:c%d%s" % (b["a"], b["w"], b["c"], "+edit" if b["d"] else "") for b in e["ret"]["bins"])) for e in events]})
    n_rnd = 26 if quick else 300
    execs = []
    t0 = time.time()
    for i in range(n_rnd):
        case, events, anomalies = random_case(ctx.seed * 100003 + i, scratch, 9 if quick else 12)
        execs.append((case, events, anomalies))
    stats["wall_exec_s"] = round(stats["wall_exec_s"] + time.time() - t0, 1)
    run_cases(execs, out, stats, "rnd")
    out.extra["supplier_runs"] = {k: stats[k] for k in ("runs", "accepted", "invocations", "events", "outcomes", "ops", "l1", "wall_exec_s", "wall_validate_s")}
    out.note("leg C2S: %d executions (%d invocations, %d events) validated by TLC, %d accepted, outcomes %s; TLC jobs %.1fs, executing %.1fs, validating %.1fs" % (stats["runs"], stats["invocations"], stats["events"], stats["accepted"], stats["outcomes"], out.extra.get("wall_tlc_jobs_s", 0), stats["wall_exec_s"], stats["wall_validate_s"]))
    # ---- binding self-test: a canned recording (not produced by the tree under test) is accepted, corrupted copies of it are rejected
    canned = canned_recording()
    muts = [{"id": "bind-ok", "events": canned}]
    m1 = {"id": "bind-commit", "events": copy.deepcopy(canned)}
    m1["events"][2]["ret"]["bins"][0]["c"] = 1
    muts.append(m1)
    m2 = {"id": "bind-build", "events": copy.deepcopy(canned)}
    m2["events"][2]["ret"]["ops"] = [o for o in m2["events"][2]["ret"]["ops"] if o["o"] != "build"]
    muts.append(m2)
    m3 = {"id": "bind-drop", "events": copy.deepcopy(canned)}
    del m3["events"][1]
    muts.append(m3)
    m4 = {"id": "bind-cache", "events": copy.deepcopy(canned)}
    m4["events"][2]["st"]["cache"] = m4["events"][2]["st"]["cache"][1:]
    muts.append(m4)
    v = tracecheck.validate(SPEC, "TraceSupplier", "TraceSupplier.cfg", muts, name="xsupplier-bind")
    missed = [m["id"] for m in muts[1:] if m["id"] not in v.l1 and m["id"] not in v.l2]
    if missed or "bind-ok" in v.l1 or "bind-ok" in v.l2 or "bind-commit" not in v.l1 or "bind-build" not in v.l1 or "bind-cache" not in v.l1:
        raise tlc.MachineryError("binding self-test failed: corrupted recordings accepted or not judged by L1: missed=%s l1=%s l2=%s" % (missed, sorted(v.l1), sorted(v.l2)))
    out.extra["binding_selftest"] = "a canned recording is accepted; copies with a changed commit of the returned binary, a dropped build operation, a vanished cache entry (L1) and a removed event (L2) are rejected by TLC"
    # ---- the pinned behaviour of /repo, one note per strong clause
    for c, rec in sorted(out.extra.get("pinned_behaviour_observed", {}).items()):
        rec.pop("size", None)
        out.note("pinned behaviour of /repo (strong clause %s fails in %d runs; model switch %s = FALSE): %s; smallest example %s" % (c, rec["runs"], rec["switch"], rec["what"], json.dumps(rec["example"])[:500]))
    missing = [c for c in PINNED if c not in out.extra.get("pinned_behaviour_observed", {})]
    if missing and not out.drift:
        out.drift.append("the pinned behaviour behind %s was not observed in any execution although the directed cases provoke it: it seems to have been repaired; switch the cfgs of specs/Supplier over" % ", ".join(missing))
    out.violations.sort(key=lambda x: (x.clause, len(x.case.get("ops", [])), repr(x.case)))
    out.drift.sort(key=lambda d: 0 if "seems to have been repaired" in d else 1)
    if out.drift:
        out.note("MODEL-DRIFT in %d places, first: %s" % (len(out.drift), out.drift[0][:600]))


def replay(ctx, case):
    from ..core import Outcome

    _quiet()
    out = Outcome(ctx.pid)
    scratch = ctx.scratch("xsupplier")
    with _git_environment(scratch):
        events, anomalies = execute(copy.deepcopy(case), scratch)
        for e in events:
            print("  %-40s -> %s" % (_short(e["a"]), json.dumps(e["ret"])[:300]))
        run_cases([(case, events, anomalies)], out, new_stats(), "replay")
    for v in out.violations:
        print("L1 clause=%s %s" % (v.clause, v.detail))
    for c, rec in sorted(out.extra.get("pinned_behaviour_observed", {}).items()):
        print("PINNED clause=%s (%s)" % (c, rec["what"]))
    for d in out.drift:
        print("MODEL-DRIFT %s" % d)
    return 0
