"""Extra module Tracker: `esrally create-track` (esrally/tracker/tracker.py, index.py, corpus.py, resources/*.j2), specs/Tracker.
A fake cluster (indices some hidden, a data stream with backing indices, 0 / 1 / 999 / 1000 / 1001 ... documents, settings with ephemeral
keys; documents indexed / deleted while the tracker runs; one scripted 503) x options (--indices patterns | --data-streams, --batch-size)
x a track directory that survives from run to run (empty / complete earlier run / interrupted run / garbage), and the tracker as the
sequence of requests (get data stream, get index, count, search + scroll + clear_scroll of helpers.scan) and file operations.
Invariants (TLC + L1 after every recorded run): SelectionSound / SelectionComplete (exactly the requested indices; hidden ones are skipped
only for * / _all), BodiesFiltered (ephemeral settings removed, shards / replicas parameterised with the original as default, ShardsParam:
the loader renders them back / overrides them), EmptySkipped (empty indices keep their index entry, get no corpus), InOrderOnce / Complete /
OneK / NeverMoreThanCounted (every document once, in scan order; -1k = the first min(1000, n)), BytesOnDisk, Untouched, FailedKeepsTrack,
ScrollsCleared, ErrorSurfaces, LoaderAgrees / DefaultChallenge / TestModePass (the REAL loader on the result, plain and in test mode).
Every file is opened with "w": nothing of an earlier run is ever trusted.  Deviations of /repo (switch FALSE = code, pinned, reported as notes):
CountDumped - document-count is what _count said, documents deleted before the scan make the loader reject the corpus (CountOnDisk,
CorporaPass); DedupIndices - overlapping --indices patterns list an index twice, the loader rejects the track (SelectionOnce, Loads);
LoadableNoCorpus - only empty indices: "corpora": [] is rejected by the loader (Loads); DsNoMatchOk - a --data-streams wildcard without
match dies with KeyError (NoSpuriousError).

Leg M   : TLC on Tracker.{quick,dirs,tworuns,churn}.cfg (code as it is), Tracker.intended{,.churn}.cfg (all switches TRUE: ALL invariants
          hold), 6 pinned self-tests (one switch FALSE -> the named invariant is violated in the model).
Leg S2C : TLC -simulate behaviours (cluster, earlier directory, options, failing request, churn, a second run after a reshaped cluster)
          are executed on the REAL code: rally.create_arg_parser + dispatch_sub_command -> tracker.create_track -> EsClientFactory /
          RallySyncElasticsearch / helpers.scan, with elastic_transport.Transport.perform_request replaced by a wire-level fake cluster,
          a real scratch directory, and the real loader (load_track, DocumentSetPreparator, TestModeTrackProcessor) on the result.
Leg C2S : every run (S2C ones, directed ones, seeded random ones) is recorded request by request (directory projected by the harness
          itself at every request) and validated by TLC against TraceTracker.tla (L1 / L2).
"""
import bz2
import copy
import glob
import hashlib
import json
import logging
import os
import random
import re
import shutil
import sys
import urllib.parse
from unittest import mock

from .. import tlc, tracecheck
from ..core import Violation
from ..tlaparse import parse_state, parse_value, to_json

SPEC = "Tracker"
TEST_DOCS = 1000
MAXN = 2600  # documents per index for which the expected corpus text is kept
EPHEMERAL = ("uuid", "creation_date", "version", "provided_name", "store")
STD_OPS = ["delete-index", "create-index", "cluster-health", "bulk"]
PARAM_SH, PARAM_RP = 7, 5  # track parameters number_of_shards / number_of_replicas of the second load
U5 = [
    {"nm": "a", "dot": False, "grp": "a", "ds": "", "dgrp": ""},
    {"nm": "ab", "dot": False, "grp": "a", "ds": "", "dgrp": ""},
    {"nm": ".h", "dot": True, "grp": ".", "ds": "", "dgrp": ""},
    {"nm": ".ds-logs-2026.01.01-000001", "dot": True, "grp": ".", "ds": "logs", "dgrp": "l"},
    {"nm": ".ds-logs-2026.01.02-000002", "dot": True, "grp": ".", "ds": "logs", "dgrp": "l"},
]
UDOC = [  # the names of docs/adding_tracks.rst
    {"nm": "products", "dot": False, "grp": "p", "ds": "", "dgrp": ""},
    {"nm": "companies", "dot": False, "grp": "c", "ds": "", "dgrp": ""},
    {"nm": "people-2026", "dot": False, "grp": "p", "ds": "", "dgrp": ""},
    {"nm": ".security-7", "dot": True, "grp": ".", "ds": "", "dgrp": ""},
    {"nm": ".ds-metrics-system.cpu-default-2026.01.01-000001", "dot": True, "grp": ".", "ds": "metrics-system.cpu-default", "dgrp": "m"},
    {"nm": ".ds-logs-aws.vpcflow-default-2026.01.01-000001", "dot": True, "grp": ".", "ds": "logs-aws.vpcflow-default", "dgrp": "l"},
]
K_STD = ["creation_date", "number_of_replicas", "number_of_shards", "provided_name", "uuid", "version"]
K_RICH = ["creation_date", "hidden", "number_of_shards", "provided_name", "refresh_interval", "routing", "store", "uuid", "version"]
K_MIN = ["number_of_replicas", "provided_name", "uuid"]
KEYSETS = [K_STD, K_RICH, [], K_MIN]
OFF = {"ex": False, "n": 0, "keys": [], "sh": 0, "rp": 0, "mv": 0}
NO_PAT = {"k": "", "v": ""}
NO_RESP = {"st": 0, "ixs": [], "det": [], "names": [], "nokey": False, "cnt": 0, "from": 0, "hits": 0, "sid": 0}
ABSENT = {"k": "absent", "n": 0, "sz": 0}
NO_BODY = {"k": "absent", "keys": [], "sh": -1, "rp": -1, "mv": 0}
NO_TRACK = {"k": "absent", "ixs": [], "corp": [], "ok": True}
NO_CHAL = {"k": "absent", "hix": []}
NO_LD = {"load": "none", "ixs": [], "corp": [], "ops": [], "hix": []}
# strong L1 clauses the code as it is does not meet: clause -> (model switch that repairs it, what happens)
PINNED = {
    "SelectionOnce": ("DedupIndices", "an index matched by two --indices patterns is extracted twice and listed twice in track.json"),
    "Loads": ("DedupIndices / LoadableNoCorpus / CountDumped", "create-track reports success but the real loader rejects the track (indices not unique / \"corpora\": [] is too short / uncompressed-bytes 0 after all documents were deleted)"),
    "EmptySkipped": ("CountDumped", "an index whose documents were all deleted between _count and the scan gets a corpus of 0 lines"),
    "NoSpuriousError": ("DsNoMatchOk", "a --data-streams wildcard that matches nothing raises KeyError('data_streams') and kills the run"),
    "CountOnDisk": ("CountDumped", "document-count in track.json is the answer of _count; documents deleted before the scan are missing from the corpus"),
    "CorporaPass": ("CountDumped", "the loader rejects the corpus: fewer lines than document-count"),
}
SWITCHES = ("CountDumped", "DedupIndices", "LoadableNoCorpus", "DsNoMatchOk")


def _repo():
    return os.environ.get("VERIF_REPO", "/repo")


class Divergence(Exception):
    """the real code did something the harness has no vocabulary for (reported as drift, never guessed)"""


# ---------------------------------------------------------------------------------------------------
# concrete contents: documents, settings, mappings
# ---------------------------------------------------------------------------------------------------
def source(nm, j):
    return {"ix": nm, "seq": "%07d" % j, "text": "doc %07d of index" % j}


def doc_line(nm, j):
    return (json.dumps(source(nm, j), separators=(",", ":")) + "\n").encode("utf-8")


_BIG = {}


def big(nm):
    """the documents 1..MAXN of index nm as the corpus text (fixed line width)"""
    if nm not in _BIG:
        lines = [doc_line(nm, j) for j in range(1, MAXN + 1)]
        lb = len(lines[0])
        if any(len(x) != lb for x in lines):
            raise tlc.MachineryError("document lines of %s differ in width" % nm)
        _BIG[nm] = (b"".join(lines), lb)
    return _BIG[nm]


def mapping(mv):
    return {"dynamic": "strict", "_meta": {"mv": mv}, "properties": {"ix": {"type": "keyword"}, "seq": {"type": "keyword"}, "text": {"type": "text"}, "f%d" % mv: {"type": "long"}}}


def setting_value(key, nm, sh, rp):
    return {
        "uuid": "uuid-of-" + nm, "creation_date": "1767225600000", "version": {"created": "8110099"}, "provided_name": nm, "store": {"type": "fs"},
        "number_of_shards": str(sh), "number_of_replicas": str(rp), "hidden": "true", "refresh_interval": "5s",
        "routing": {"allocation": {"include": {"_tier_preference": "data_content"}}},
    }[key]  # fmt: skip


_PARAM = re.compile(r"^\{\{(number_of_shards|number_of_replicas) \| default\((-?\d+)\)\}\}$")


# ---------------------------------------------------------------------------------------------------
# the track directory <-> its abstract state
# ---------------------------------------------------------------------------------------------------
def files_of(nm):
    return {"body": nm + ".json", "full": nm + "-documents.json", "fullz": nm + "-documents.json.bz2", "onek": nm + "-documents-1k.json", "onekz": nm + "-documents-1k.json.bz2"}


_PROJ = {}


def _read(path):
    try:
        with open(path, "rb") as f:
            return f.read()
    except (FileNotFoundError, NotADirectoryError):
        return None


def _text_state(nm, data):
    text, lb = big(nm)
    if len(data) % lb == 0 and len(data) <= len(text) and data == text[: len(data)]:
        return {"k": "prefix", "n": len(data) // lb, "sz": len(data)}
    return {"k": "other", "n": 0, "sz": len(data)}


def project_corpus(nm, data, archive):
    if data is None:
        return dict(ABSENT)
    key = (nm, archive, len(data), hashlib.md5(data).digest())
    if key not in _PROJ:
        if not archive:
            st = _text_state(nm, data)
        elif not data:
            st = {"k": "part", "n": 0, "sz": 0}
        else:
            try:
                st = dict(_text_state(nm, bz2.decompress(data)), sz=len(data))
            except ValueError:  # the stream ends before its end-of-stream marker
                st = {"k": "part", "n": 0, "sz": len(data)}
            except OSError:
                st = {"k": "other", "n": 0, "sz": len(data)}
        _PROJ[key] = st
    return dict(_PROJ[key])


def project_body(nm, data):
    if data is None:
        return dict(NO_BODY)
    other = {"k": "other", "keys": [], "sh": -1, "rp": -1, "mv": 0}
    try:
        o = json.loads(data.decode("utf-8"))
    except ValueError:
        return other
    if not isinstance(o, dict) or sorted(o) != ["mappings", "settings"] or not isinstance(o["settings"], dict) or list(o["settings"]) != ["index"]:
        return other
    mv = o["mappings"].get("_meta", {}).get("mv", -1) if isinstance(o["mappings"], dict) else -1
    if not isinstance(mv, int) or o["mappings"] != mapping(mv):
        return other
    st = o["settings"]["index"]
    if not isinstance(st, dict):
        return other
    res = {"k": "json", "keys": sorted(st), "sh": -1, "rp": -1, "mv": mv}
    for key, val in st.items():
        if key in ("number_of_shards", "number_of_replicas"):
            m = _PARAM.match(val) if isinstance(val, str) else None
            if not m or m.group(1) != key:
                return other
            res["sh" if key == "number_of_shards" else "rp"] = int(m.group(2))
        else:
            try:
                if val != setting_value(key, nm, 0, 0):
                    return other
            except KeyError:
                return other
    return res


_COLLECT = re.compile(r"\{\{\s*rally\.collect\(parts=\"(operations|challenges)/\*\.json\"\)\s*\}\}")
_HEALTH_IX = re.compile(r"\"operation-type\":\s*\"cluster-health\",\s*\"index\":\s*(\"(?:[^\"\\]|\\.)*\")")


def project_track(data, tn, pos):
    if data is None:
        return dict(NO_TRACK)
    other = {"k": "other", "ixs": [], "corp": [], "ok": False}
    try:
        text = data.decode("utf-8")
        first, _, rest = text.partition("\n")
        if first.strip() != '{% import "rally.helpers" as rally with context %}' or len(_COLLECT.findall(rest)) != 2:
            return other
        o = json.loads(_COLLECT.sub("", rest))
    except ValueError:
        return other
    try:
        o.setdefault("corpora", [])  # a tracker that leaves the key out when there is no corpus is understood
        ok = sorted(o) == ["challenges", "corpora", "description", "indices", "operations", "version"] and o["version"] == 2 and o["operations"] == [] and o["challenges"] == []
        ok = ok and o["description"] == "Tracker-generated track for " + tn
        ixs, corp = [], []
        for e in o["indices"]:
            ok = ok and sorted(e) == ["body", "name"] and e["body"] == e["name"] + ".json" and e["name"] in pos
            ixs.append(pos.get(e["name"], 0))
        for c in o["corpora"]:
            ok = ok and sorted(c) == ["documents", "name"] and len(c["documents"]) == 1 and c["name"] in pos
            d = c["documents"][0]
            ok = ok and sorted(d) == ["compressed-bytes", "document-count", "source-file", "target-index", "uncompressed-bytes"]
            ok = ok and d["target-index"] == c["name"] and d["source-file"] == c["name"] + "-documents.json.bz2"
            nums = [d["document-count"], d["uncompressed-bytes"], d["compressed-bytes"]]
            if any(isinstance(x, bool) or not isinstance(x, int) or not 0 <= x < 2**31 for x in nums):
                return other
            corp.append({"ix": pos.get(c["name"], 0), "dc": nums[0], "ub": nums[1], "cb": nums[2]})
    except (KeyError, TypeError, AttributeError):
        return other
    return {"k": "json", "ixs": ixs, "corp": corp, "ok": bool(ok)}


def project_chal(data, pos):
    if data is None:
        return dict(NO_CHAL)
    text = data.decode("utf-8", "replace")
    m = _HEALTH_IX.search(text)
    if not m or '"name": "my-challenge"' not in text or '"default": true' not in text:
        return {"k": "other", "hix": []}
    names = json.loads(m.group(1)).split(",")
    return {"k": "file", "hix": [pos.get(x, 0) for x in names]}


_templates = {}


def _render(name, **kw):
    import jinja2

    root = os.path.join(_repo(), "esrally", "resources")
    if root not in _templates:
        _templates[root] = jinja2.Environment(loader=jinja2.FileSystemLoader(root))
    return _templates[root].get_template(name).render(**kw)


def project_ops(data):
    if data is None:
        return "absent"
    return "std" if data.decode("utf-8", "replace") == _render("operations.json.j2") else "other"


def project_dir(path, u, tn):
    """(abstract directory, names of files the specification does not know)"""
    pos = {x["nm"]: i + 1 for i, x in enumerate(u)}
    known = {"track.json", "challenges", "operations"}
    ix = []
    for x in u:
        fn = files_of(x["nm"])
        known.update(fn.values())
        rec = {"body": project_body(x["nm"], _read(os.path.join(path, fn["body"])))}
        for f in ("full", "fullz", "onek", "onekz"):
            rec[f] = project_corpus(x["nm"], _read(os.path.join(path, fn[f])), f.endswith("z"))
        ix.append(rec)
    d = {
        "ix": ix, "track": project_track(_read(os.path.join(path, "track.json")), tn, pos),
        "chal": project_chal(_read(os.path.join(path, "challenges", "default.json")), pos), "ops": project_ops(_read(os.path.join(path, "operations", "default.json"))),
    }  # fmt: skip
    junk = []
    if os.path.isdir(path):
        junk = sorted(n for n in os.listdir(path) if n not in known)
        for sub in ("challenges", "operations"):
            p = os.path.join(path, sub)
            if os.path.isdir(p):
                junk += sorted(sub + "/" + n for n in os.listdir(p) if n != "default.json")
    return d, junk


def empty_dir(n):
    return {"ix": [{"body": dict(NO_BODY), "full": dict(ABSENT), "fullz": dict(ABSENT), "onek": dict(ABSENT), "onekz": dict(ABSENT)} for _ in range(n)], "track": dict(NO_TRACK), "chal": dict(NO_CHAL), "ops": "absent"}


def materialize(path, d, u, tn):
    """real files for an abstract directory state (what an earlier run / an interrupted run / somebody else left behind)"""
    if d == empty_dir(len(u)):
        return  # not even the directory exists
    os.makedirs(path, exist_ok=True)

    def put(rel, data):
        p = os.path.join(path, rel)
        os.makedirs(os.path.dirname(p), exist_ok=True)
        with open(p, "wb") as f:
            f.write(data)

    for x, rec in zip(u, d["ix"]):
        nm = x["nm"]
        fn = files_of(nm)
        b = rec["body"]
        if b["k"] == "json":
            st = {}
            for key in b["keys"]:
                if key == "number_of_shards":
                    st[key] = "{{number_of_shards | default(%d)}}" % b["sh"]
                elif key == "number_of_replicas":
                    st[key] = "{{number_of_replicas | default(%d)}}" % b["rp"]
                else:
                    st[key] = setting_value(key, nm, 0, 0)
            put(fn["body"], (json.dumps({"mappings": mapping(b["mv"]), "settings": {"index": st}}, indent=4, sort_keys=True) + "\n").encode("utf-8"))
        elif b["k"] == "other":
            put(fn["body"], b"{ this is not json\n")
        for f in ("full", "fullz", "onek", "onekz"):
            c = rec[f]
            if c["k"] == "absent":
                continue
            text, lb = big(nm)
            if c["k"] == "prefix":
                data = text[: c["n"] * lb]
                put(fn[f], bz2.compress(data) if f.endswith("z") else data)
            elif c["k"] == "part":
                put(fn[f], b"")
            else:
                put(fn[f], b"garbage")
    t = d["track"]
    if t["k"] == "json":
        indices = [{"name": u[i - 1]["nm"], "filename": u[i - 1]["nm"] + ".json"} for i in t["ixs"]]
        corpora = [{"index_name": u[c["ix"] - 1]["nm"], "filename": u[c["ix"] - 1]["nm"] + "-documents.json.bz2", "doc_count": c["dc"], "uncompressed_bytes": c["ub"], "compressed_bytes": c["cb"]} for c in t["corp"]]
        put("track.json", _render("track.json.j2", track_name=tn, indices=indices, corpora=corpora).encode("utf-8"))
    elif t["k"] == "other":
        put("track.json", b"{}\n")
    if d["chal"]["k"] == "file":
        put("challenges/default.json", _render("challenges.json.j2", track_name=tn, indices=[{"name": u[i - 1]["nm"]} for i in d["chal"]["hix"]], corpora=[]).encode("utf-8"))
    elif d["chal"]["k"] == "other":
        put("challenges/default.json", b"[]\n")
    if d["ops"] == "std":
        put("operations/default.json", _render("operations.json.j2").encode("utf-8"))
    elif d["ops"] == "other":
        put("operations/default.json", b"[]\n")


def settle_sizes(path, d, u, tn):
    """the abstract state of the materialised directory carries the real byte sizes"""
    real, _ = project_dir(path, u, tn)
    strip = lambda x: json.loads(re.sub(r'"(sz|ub|cb)": \d+', r'"\1": 0', json.dumps(x)))
    if strip(real) != strip(d):
        raise tlc.MachineryError("materialised directory projects to another state: %s vs %s" % (json.dumps(strip(real))[:600], json.dumps(strip(d))[:600]))
    return real


# ---------------------------------------------------------------------------------------------------
# the fake cluster underneath elastic_transport.Transport.perform_request (Python twin of Serve in Tracker.tla)
# ---------------------------------------------------------------------------------------------------
def pat_text(p):
    return p["v"] + "*" if p["k"] == "pre" else p["v"]


def pat_abs(text):
    if text in ("*", "_all"):
        return {"k": "all", "v": text}
    if "*" not in text and "?" not in text and "," not in text:
        return {"k": "name", "v": text}
    if text.endswith("*") and "*" not in text[:-1] and "?" not in text and "," not in text and len(text) == 2:
        return {"k": "pre", "v": text[:-1]}
    return {"k": "?", "v": text}


def _wild(text, name):
    if text in ("*", "_all"):
        return True
    if text.endswith("*"):
        return name.startswith(text[:-1])
    return name == text


class FakeCluster:
    def __init__(self, u, cl):
        self.u = u
        self.cl = copy.deepcopy(cl)
        self.pos = {x["nm"]: i + 1 for i, x in enumerate(u)}
        self.es = None
        self.new_run(0)
        self.unmodelled = 0

    def new_run(self, fail):
        self.es = {"nreq": 0, "fail": fail, "hit": "", "scrolls": [], "obs": []}

    def det(self, i):
        c = self.cl[i - 1]
        return {"keys": list(c["keys"]), "sh": c["sh"], "rp": c["rp"], "mv": c["mv"]}

    def resolve(self, text):
        return [i + 1 for i, (x, c) in enumerate(zip(self.u, self.cl)) if c["ex"] and (_wild(text, x["nm"]) or (x["ds"] and _wild(text, x["ds"])))]

    def ds_resolve(self, text):
        res, seen = [], set()
        for i, (x, c) in enumerate(zip(self.u, self.cl)):
            if c["ex"] and x["ds"] and x["ds"] not in seen:
                seen.add(x["ds"])
                if _wild(text, x["ds"]):
                    res.append(i + 1)
        return res

    def serve(self, q):
        """abstract response; the books move as in Tracker.tla"""
        e = self.es
        e["nreq"] += 1
        r = dict(NO_RESP, ixs=[], det=[], names=[])
        if e["fail"] == e["nreq"]:
            e["hit"] = q["op"]
            r["st"] = 503
            return r
        r["st"] = 200
        op = q["op"]
        if op == "ds":
            m = self.ds_resolve(pat_text(q["pat"]))
            if not m:
                if q["pat"]["k"] == "name":
                    r["st"] = 404
                else:
                    r["nokey"] = True
            else:
                r["names"] = [self.u[i - 1]["ds"] for i in m]
        elif op == "get":
            m = self.resolve(pat_text(q["pat"]))
            if not m and q["pat"]["k"] == "name":
                r["st"] = 404
            else:
                r["ixs"] = m
                r["det"] = [self.det(i) for i in m]
        elif op == "count":
            n = self.cl[q["ix"] - 1]["n"]
            r["cnt"] = n
            e["obs"].append({"ix": q["ix"], "c": n, "n1": -1, "n2": -1})
        elif op == "search":
            snap = self.cl[q["ix"] - 1]["n"]
            cnt = min(q["size"], snap)
            e["scrolls"].append({"ix": q["ix"], "snap": snap, "pos": cnt, "size": q["size"], "open": True})
            r.update({"from": 1, "hits": cnt, "sid": len(e["scrolls"])})
            o = e["obs"][-1]
            o["n1" if o["n1"] < 0 else "n2"] = snap
        elif op == "scroll":
            x = e["scrolls"][q["sid"] - 1]
            cnt = min(x["size"], x["snap"] - x["pos"])
            r.update({"from": x["pos"] + 1, "hits": cnt, "sid": q["sid"]})
            x["pos"] += cnt
        elif op == "clear":
            e["scrolls"][q["sid"] - 1]["open"] = False
        return r

    # ---- the wire
    def render(self, q, r):
        """(status, JSON body) of the abstract response"""
        if r["st"] == 503:
            return 503, {"error": {"type": "verif_unavailable_exception", "reason": "scripted"}, "status": 503}
        if r["st"] == 404:
            return 404, {"error": {"type": "index_not_found_exception", "reason": "no such index [%s]" % pat_text(q["pat"])}, "status": 404}
        op = q["op"]
        if op == "ds":
            return 200, ({} if r["nokey"] else {"data_streams": [{"name": n} for n in r["names"]]})  # filter_path=data_streams.name drops an empty array
        if op == "get":
            body = {}
            for i in r["ixs"]:
                x, c = self.u[i - 1], self.cl[i - 1]
                ent = {"aliases": {}, "mappings": mapping(c["mv"])}
                if c["keys"]:
                    ent["settings"] = {"index": {k: setting_value(k, x["nm"], c["sh"], c["rp"]) for k in c["keys"]}}
                elif c["mv"] % 2 == 0:
                    ent["settings"] = {}
                body[x["nm"]] = ent
            return 200, body
        shards = {"total": 2, "successful": 2, "skipped": 0, "failed": 0}
        if op == "count":
            return 200, {"count": r["cnt"], "_shards": shards}
        if op in ("search", "scroll"):
            x = self.es["scrolls"][r["sid"] - 1]
            nm = self.u[x["ix"] - 1]["nm"]
            hits = [{"_index": nm, "_id": "id-%d" % j, "_score": None, "_source": source(nm, j), "sort": [j]} for j in range(r["from"], r["from"] + r["hits"])]
            return 200, {"_scroll_id": "scr-%d" % r["sid"], "took": 1, "timed_out": False, "_shards": shards, "hits": {"total": {"value": x["snap"], "relation": "eq"}, "max_score": None, "hits": hits}}
        return 200, {"succeeded": True, "num_freed": 1}

    def parse(self, method, target, body, anomalies):
        """the request as the record of the specification; None = outside the model (info, health)"""
        path, _, query = target.partition("?")
        params = dict(urllib.parse.parse_qsl(query, keep_blank_values=True))
        seg = [urllib.parse.unquote(s) for s in path.split("/") if s]
        q = {"op": "", "pat": dict(NO_PAT), "ix": 0, "size": 0, "sid": 0}

        def sid_of(v):
            m = re.match(r"^scr-(\d+)$", v) if isinstance(v, str) else None
            if not m or not 1 <= int(m.group(1)) <= len(self.es["scrolls"]):
                raise Divergence("scroll id %r was never handed out" % (v,))
            return int(m.group(1))

        if not seg or seg == ["_cluster", "health"]:
            return None
        if seg[0] == "_data_stream" and len(seg) == 2 and method == "GET":
            if params != {"expand_wildcards": "all", "filter_path": "data_streams.name"}:
                anomalies.append("get data stream with params %r" % (params,))
            q.update(op="ds", pat=pat_abs(seg[1]))
        elif len(seg) == 1 and method == "GET" and (not seg[0].startswith("_") or seg[0] == "_all"):
            if params != {"expand_wildcards": "all"}:
                anomalies.append("get index with params %r" % (params,))
            q.update(op="get", pat=pat_abs(seg[0]))
        elif len(seg) == 2 and seg[1] == "_count":
            if body not in (None, {}) or params:
                anomalies.append("count with body %r params %r" % (body, params))
            q.update(op="count", ix=self.pos.get(seg[0], 0))
        elif len(seg) == 2 and seg[1] == "_search" and method == "POST":
            body = body or {}
            size = body.get("size", params.get("size"))
            if body.get("query") != {"match_all": {}} or body.get("sort", params.get("sort")) != "_doc" or "scroll" not in params or any(k not in ("query", "sort", "size") for k in body):
                anomalies.append("search with body %r params %r" % (body, params))
            if isinstance(size, str) and size.isdigit():
                size = int(size)
            if isinstance(size, bool) or not isinstance(size, int) or size < 1:
                raise Divergence("search with size %r" % (size,))
            q.update(op="search", ix=self.pos.get(seg[0], 0), size=size)
        elif seg == ["_search", "scroll"] and method == "POST":
            q.update(op="scroll", sid=sid_of((body or {}).get("scroll_id")))
        elif seg == ["_search", "scroll"] and method == "DELETE":
            v = (body or {}).get("scroll_id")
            q.update(op="clear", sid=sid_of(v[0] if isinstance(v, list) and len(v) == 1 else v))
        else:
            raise Divergence("request %s %s is not one create-track is known to send" % (method, target))
        if q["pat"]["k"] == "?":
            raise Divergence("pattern %r is outside the alphabet" % q["pat"]["v"])
        if q["op"] in ("count", "search") and (q["ix"] == 0 or not self.cl[q["ix"] - 1]["ex"]):
            raise Divergence("%s on unknown index %r" % (q["op"], seg[0]))
        return q


def _meta(status):
    import elastic_transport

    return elastic_transport.ApiResponseMeta(
        status=status, http_version="1.1", headers=elastic_transport.HttpHeaders({"x-elastic-product": "Elasticsearch", "content-type": "application/json"}),
        duration=0.0, node=elastic_transport.NodeConfig("http", "127.0.0.1", 9200),
    )  # fmt: skip


# ---------------------------------------------------------------------------------------------------
# one case = a cluster, a directory and one or two runs of the real command
# ---------------------------------------------------------------------------------------------------
_parser = []


def _setup():
    from esrally import rally
    from esrally.utils import console

    console.init(quiet=True)
    for name in ("esrally", "elastic_transport", "elasticsearch"):
        lg = logging.getLogger(name)
        lg.addHandler(logging.NullHandler())
        lg.propagate = False
        lg.setLevel(logging.CRITICAL + 1)
    if not _parser:
        from .. import trackgen

        trackgen._prepare()  # pylint: disable=protected-access  (the self-check of the constant track schema is done once, not per load)
        _parser.append(rally.create_arg_parser())
    return rally, _parser[0]


class Session:
    def __init__(self, case, scratch):
        self.case = case
        self.u = case["u"]
        self.tn = case.get("tn", "acme")
        self.out = os.path.join(scratch, "tracks")
        self.path = os.path.join(self.out, self.tn)
        self.fake = FakeCluster(self.u, case["cl"])
        self.events = []
        self.anomalies = []
        self.stats = {"requests": 0, "swallowed": 0, "loader_errors": []}
        self.churn = {}
        self.req_no = 0

    def observe(self):
        d, junk = project_dir(self.path, self.u, self.tn)
        if junk:
            self.anomalies.append("files the specification does not know: %s" % junk[:4])
        return d

    # ---- Transport.perform_request
    def perform_request(self, _transport, method, target, *, body=None, headers=None, **_kw):
        from elastic_transport._transport import TransportApiResponse

        q = self.fake.parse(method, target, body, self.anomalies)
        if q is None:
            self.fake.unmodelled += 1
            if target.startswith("/_cluster/health"):
                return TransportApiResponse(_meta(200), {"cluster_name": "verif", "status": "green", "number_of_nodes": 1, "relocating_shards": 0})
            return TransportApiResponse(_meta(200), {"name": "verif-node", "cluster_name": "verif", "version": {"number": "8.11.0", "build_flavor": "default", "build_hash": "abcdef"}, "tagline": "You Know, for Search"})
        self.apply_churn(self.req_no)
        self.req_no += 1
        if self.req_no > 400:
            raise tlc.MachineryError("runaway run: more than 400 requests")
        d = self.observe()
        r = self.fake.serve(q)
        self.events.append({"a": "Q", "req": q, "resp": r, "es": copy.deepcopy(self.fake.es), "dir": d})
        self.stats["requests"] += 1
        status, payload = self.fake.render(q, r)
        return TransportApiResponse(_meta(status), payload)

    def apply_churn(self, k):
        for i, n in self.churn.pop(k, []):
            if self.fake.cl[i - 1]["ex"] and self.fake.cl[i - 1]["n"] != n:
                self.fake.cl[i - 1]["n"] = n
                self.events.append({"a": "C", "i": i, "n": n})

    # ---- the command
    def run(self, opt, fail, churn, via="cli"):
        import elastic_transport

        rally, parser = _setup()
        from esrally import config, exceptions
        from esrally.tracker import tracker

        self.fake.new_run(fail)
        self.churn = {int(k): v for k, v in churn.items()}
        self.req_no = 0
        self.events.append({"a": "B", "opt": opt, "fail": fail})
        pats = ",".join(pat_text(p) for p in opt["pats"])
        argv = ["create-track", "--track=" + self.tn, "--target-hosts=127.0.0.1:9200", "--output-path=" + self.out, ("--data-streams=" if opt["mode"] == "ds" else "--indices=") + pats]
        if opt["b"] != 1000 or self.case.get("seed", 0) % 2:
            argv.append("--batch-size=%d" % opt["b"])
        args = parser.parse_args(argv)
        cfg = config.Config()
        cfg.add(config.Scope.application, "node", "rally.root", os.path.join(_repo(), "esrally"))
        cfg.add(config.Scope.application, "node", "rally.cwd", os.getcwd())
        caught = []
        real = tracker.create_track

        def spy(c):
            try:
                return real(c)
            except BaseException as ex:  # pylint: disable=broad-except
                caught.append(ex)
                raise

        swallowed = []
        old_hook = sys.unraisablehook
        sys.unraisablehook = lambda u: swallowed.append(u.exc_value)
        try:
            with mock.patch.object(elastic_transport.Transport, "perform_request", lambda t, method, target, **kw: self.perform_request(t, method, target, **kw)), mock.patch.object(
                rally.tracker, "create_track", spy
            ), mock.patch.object(rally, "print_help_on_errors", lambda: None), mock.patch.object(rally.console, "error", lambda *a, **k: None):
                status = rally.dispatch_sub_command(parser, args, cfg)
        finally:
            sys.unraisablehook = old_hook
        self.stats["swallowed"] += len(swallowed)
        for ex in caught:
            if isinstance(ex, (Divergence, tlc.MachineryError)):
                raise ex
        ok = status == rally.ExitStatus.SUCCESSFUL
        if ok == bool(caught):
            self.anomalies.append("exit status %s with exceptions %r" % (status, caught))
        why = ""
        if not ok:
            ex = caught[-1] if caught else None
            import elasticsearch

            if isinstance(ex, elasticsearch.ApiError) and ex.status_code == 503 and self.fake.es["hit"]:
                why = self.fake.es["hit"]
            elif isinstance(ex, RuntimeError) and "Failed to extract any indices" in str(ex):
                why = "noindices"
            else:
                why = type(ex).__name__
        if self.stats["requests"]:
            for k in sorted(self.churn):  # what was scheduled behind the last request of the run
                self.apply_churn(k)
        d = self.observe()
        ld = self.load() if ok else dict(NO_LD)
        self.events.append({"a": "F", "dir": d, "res": {"st": "ok" if ok else "err", "why": why, "ld": ld}})

    def reshape(self, cl):
        self.fake.cl = copy.deepcopy(cl)
        self.events.append({"a": "R", "cl": copy.deepcopy(cl)})

    # ---- the real loader on what the run left behind
    def _load(self, test_mode, params):
        from esrally import config
        from esrally.track import loader

        cfg = config.Config()
        S = config.Scope.application
        cfg.add(S, "node", "rally.root", os.path.join(_repo(), "esrally"))
        cfg.add(S, "system", "offline.mode", True)
        cfg.add(S, "track", "params", params)
        cfg.add(S, "track", "track.path", self.path)
        cfg.add(S, "track", "test.mode.enabled", test_mode)
        cfg.add(S, "benchmarks", "local.dataset.cache", os.path.join(os.path.dirname(self.out), "data-cache"))
        return cfg, loader.load_track(cfg)

    def _prepare(self, t, test_mode):
        from esrally import exceptions
        from esrally.track import loader

        prep = loader.DocumentSetPreparator(t.name, loader.Downloader(offline=True, test_mode=test_mode), loader.Decompressor())
        res = []
        for c in t.corpora:
            for ds in c.documents:
                try:
                    got = prep.prepare_bundled_document_set(ds, self.path)
                    res.append("ok" if got else "missing")
                except exceptions.DataError as ex:
                    msg = str(ex.message)
                    res.append("size" if "does not have the expected size" in msg else "lines" if "lines but got" in msg else "DataError")
                except Exception as ex:  # pylint: disable=broad-except
                    res.append(type(ex).__name__)
        return res

    def load(self):
        from esrally.track import loader

        pos = self.fake.pos
        try:
            _, t = self._load(False, {})
            # a track parameter that no template uses is an error of its own: pass only those that some index body refers to
            bodies = b"".join(_read(os.path.join(self.path, ix.name + ".json")) or b"" for ix in t.indices)
            params = {k: v for k, v in (("number_of_shards", PARAM_SH), ("number_of_replicas", PARAM_RP)) if ("{{%s |" % k).encode() in bodies}
            # the second load doubles as the track for test mode: with track parameters when a body uses them, through load_track
            # with test.mode.enabled (processor registry) for every other case, else the real TestModeTrackProcessor applied by hand
            via_registry = self.case.get("seed", 0) % 2 == 1
            cfg_t, tp = self._load(via_registry, params)
            tt = tp
            if not via_registry:
                cfg_t.add(config_scope(), "track", "test.mode.enabled", True)
                loader.TestModeTrackProcessor(cfg_t).on_after_load_track(tt)
        except Exception as ex:  # pylint: disable=broad-except
            m = re.search(r"has non-unique elements|is too short|is less than the minimum of 1", str(ex))
            self.stats["loader_errors"].append("%s: %s" % (type(ex).__name__, m.group(0) if m else str(ex)[:200].replace("\n", " ")))
            return dict(NO_LD, load="rejected")
        finally:
            self._clean_tmp()

        def setting(ix, key):
            try:
                v = ix.body["settings"]["index"][key]
                return int(v)
            except (KeyError, TypeError, ValueError):
                return -1

        try:
            ld = {"load": "ok", "ixs": [], "corp": [], "ops": [], "hix": []}
            for ix, ixp in zip(t.indices, tp.indices):
                ld["ixs"].append({"ix": pos.get(ix.name, 0), "sh": setting(ix, "number_of_shards"), "rp": setting(ix, "number_of_replicas"), "shp": setting(ixp, "number_of_shards"), "rpp": setting(ixp, "number_of_replicas")})
            prep = self._prepare(t, False)
            prep_t = self._prepare(tt, True)
            k = 0
            for c in t.corpora:
                for ds in c.documents:
                    same = c.name == ds.target_index and ds.document_archive == c.name + "-documents.json.bz2" and ds.document_file == c.name + "-documents.json"
                    ld["corp"].append({"ix": pos.get(c.name, 0) if same else 0, "dc": ds.number_of_documents, "prep": prep[k], "prepT": prep_t[k] if k < len(prep_t) else "absent"})
                    k += 1
            ch = t.default_challenge
            if ch is not None and ch.name == "my-challenge" and len(t.challenges) == 1:
                for task in ch.schedule:
                    for leaf in task:
                        ld["ops"].append(str(leaf.operation.type))
                        if leaf.operation.type == "cluster-health":
                            ld["hix"] = [pos.get(x, 0) for x in str(leaf.operation.params.get("index", "")).split(",")]
                bulk = [leaf.operation for task in ch.schedule for leaf in task if leaf.operation.type == "bulk"]
                if [(o.params.get("bulk-size"), o.params.get("ingest-percentage")) for o in bulk] != [(5000, 100)]:
                    self.anomalies.append("bulk operation of the default challenge: %r" % [o.params for o in bulk])
        finally:
            for fn in os.listdir(self.path):
                if fn.endswith(".offset"):
                    os.remove(os.path.join(self.path, fn))
        return ld

    @staticmethod
    def _clean_tmp():
        import tempfile

        d = tempfile.tempdir
        if d and os.path.isdir(d):
            for fn in os.listdir(d):
                if fn.endswith(".json"):
                    try:
                        os.unlink(os.path.join(d, fn))
                    except OSError:
                        pass


def config_scope():
    from esrally import config

    return config.Scope.application


_CASE_NO = [0]


def execute(case, scratch):
    """runs the case on the real code; returns (trace item without id, info)"""
    import tempfile

    _CASE_NO[0] += 1
    base = os.path.join(scratch, "case-%d" % _CASE_NO[0])
    os.makedirs(base)
    tempfile.tempdir = os.path.join(scratch, "tmp")
    os.makedirs(tempfile.tempdir, exist_ok=True)
    s = Session(case, base)
    try:
        materialize(s.path, case["dir0"], s.u, s.tn)
        dir0 = settle_sizes(s.path, case["dir0"], s.u, s.tn)
        for run in case["runs"]:
            if run.get("reshape") is not None:
                s.reshape(run["reshape"])
            s.run(run["opt"], run["fail"], run.get("churn", {}))
    finally:
        shutil.rmtree(base, ignore_errors=True)
    item = {"u": s.u, "cl": case["cl"], "dir": dir0, "skip": [], "events": s.events}
    return item, {"anomalies": s.anomalies, "stats": s.stats}


# ---------------------------------------------------------------------------------------------------
# case sources
# ---------------------------------------------------------------------------------------------------
_RE_SIM_STATE = re.compile(r"^STATE_\d+ ==\s*$", re.M)
_RE_VAR = re.compile(r"^/\\ ([a-z]+) = ", re.M)


def _vars_of(body, names):
    """the values of the named variables of one printed state"""
    ms = list(_RE_VAR.finditer(body))
    res = {}
    for i, m in enumerate(ms):
        if m.group(1) in names:
            end = ms[i + 1].start() if i + 1 < len(ms) else len(body)
            res[m.group(1)] = to_json(parse_value(body[m.end() : end]))
    return res


def _behaviour(path):
    with open(path, "r", encoding="utf-8") as f:
        text = f.read()
    cuts = [m.start() for m in _RE_SIM_STATE.finditer(text)] + [len(text)]
    states = []
    for i in range(len(cuts) - 1):
        body = "\n".join(ln for ln in text[cuts[i] : cuts[i + 1]].split("\n", 1)[1].splitlines() if not ln.startswith("\\*") and not ln.startswith("===="))
        if i == 0:
            states.append(_vars_of(body, ("u", "cl", "dir", "act")))
        else:
            st = _vars_of(body, ("act",))
            if st["act"]["op"] == "Finish":
                st.update(_vars_of(body, ("dir", "res")))
            states.append(st)
    return states


def _fix_seqs(o):
    """TLA prints the empty sequence and the empty set alike; every collection of the vocabulary is a sequence"""
    if isinstance(o, dict):
        return {k: _fix_seqs(v) for k, v in o.items()}
    if isinstance(o, (list, tuple, set, frozenset)):
        return [_fix_seqs(v) for v in o]
    return o


def behaviours_from_tlc(ctx, out, num, depth):
    wd = tlc.prepare_workdir(SPEC, "xtrsim")
    simdir = os.path.join(wd, "sim")
    os.makedirs(simdir)
    res = tlc.run_tlc(wd, "MC_Tracker", "Tracker.sim.cfg", workers=1, simulate={"num": num, "file": os.path.join(simdir, "b")}, depth=depth, seed=ctx.seed + 11, timeout=280)
    if not res.ok:
        raise tlc.MachineryError("simulation reported a model violation: %s" % res.out[-2000:])
    out.add_tlc(res)
    cases = []
    for fn in sorted(glob.glob(os.path.join(simdir, "b_*"))):
        states = _fix_seqs(_behaviour(fn))
        first = states[0]
        runs, model = [], []
        pending_reshape = None
        for st in states[1:]:
            a = st["act"]
            if a["op"] == "Begin":
                runs.append({"opt": a["opt"], "fail": a["fail"], "churn": {}, "reshape": pending_reshape, "sends": 0})
                pending_reshape = None
                model.append(None)
            elif a["op"] == "Send":
                runs[-1]["sends"] += 1
            elif a["op"] == "Churn":
                runs[-1]["churn"].setdefault(str(runs[-1]["sends"]), []).append([a["i"], a["n"]])
            elif a["op"] == "Reshape":
                pending_reshape = a["cl"]
            elif a["op"] == "Finish":
                model[-1] = {"dir": st["dir"], "res": st["res"]}
        if not runs:
            continue
        for r in runs:
            del r["sends"]
        cases.append({"src": "tlc-simulate", "seed": len(cases), "u": first["u"], "tn": "acme" if len(cases) % 3 else "my-track_1", "cl": first["cl"], "dir0": first["dir"], "runs": runs, "model": model})
    shutil.rmtree(wd, ignore_errors=True)
    return cases


def P(k, v):
    return {"k": k, "v": v}


def opt(mode, pats, b):
    return {"mode": mode, "pats": pats, "b": b}


def on(n, keys=None, sh=1, rp=0, mv=1):
    return {"ex": True, "n": n, "keys": list(K_STD if keys is None else keys), "sh": sh, "rp": rp, "mv": mv}


def cluster5(a=-1, ab=-1, h=-1, d1=-1, d2=-1):
    mk = lambda n, keys, sh, rp, mv: dict(OFF) if n < 0 else on(n, keys, sh, rp, mv)
    return [mk(a, K_STD, 3, 1, 1), mk(ab, K_RICH, 1, 0, 2), mk(h, [], 0, 0, 3), mk(d1, K_RICH, 2, 0, 4), mk(d2, K_RICH, 2, 0, 4)]


def earlier(u, ix, n, k=TEST_DOCS):
    """the directory a complete earlier run left when index ix held n documents (sizes are settled when the files exist)"""
    d = empty_dir(len(u))
    d["ix"][ix - 1] = {
        "body": {"k": "json", "keys": ["number_of_shards", "refresh_interval"], "sh": 9, "rp": -1, "mv": 7},
        "full": {"k": "prefix", "n": n, "sz": 0}, "fullz": {"k": "prefix", "n": n, "sz": 0},
        "onek": {"k": "prefix", "n": min(n, k), "sz": 0}, "onekz": {"k": "prefix", "n": min(n, k), "sz": 0},
    }  # fmt: skip
    d["track"] = {"k": "json", "ixs": [ix], "corp": [{"ix": ix, "dc": n, "ub": 0, "cb": 0}], "ok": True}
    d["chal"] = {"k": "file", "hix": [ix]}
    d["ops"] = "std"
    return d


def run_of(o, fail=0, churn=None, reshape=None):
    return {"opt": o, "fail": fail, "churn": churn or {}, "reshape": reshape}


def directed_cases():
    """one small execution per behaviour worth naming (the minimal inputs of the deviations first)"""
    e5 = empty_dir(5)
    stale = earlier(U5, 1, 3)
    stale["ix"][0]["full"] = {"k": "prefix", "n": 1, "sz": 0}
    stale["ix"][0]["fullz"] = {"k": "part", "n": 0, "sz": 0}
    cases = {
        "overlapping-patterns": (cluster5(a=2), e5, [run_of(opt("idx", [P("name", "a"), P("pre", "a")], 1000))]),
        "only-empty-indices": (cluster5(a=0), e5, [run_of(opt("idx", [P("name", "a")], 1000))]),
        "data-stream-wildcard-without-match": (cluster5(d1=2, d2=1), e5, [run_of(opt("ds", [P("pre", "l"), P("pre", "m")], 1000))]),
        "documents-deleted-after-count": (cluster5(a=5), e5, [run_of(opt("idx", [P("name", "a")], 2), churn={"2": [[1, 3]]})]),
        "documents-added-after-count": (cluster5(a=3), e5, [run_of(opt("idx", [P("name", "a")], 2), churn={"2": [[1, 7]]})]),
        "the-documented-example": (cluster5(a=1001, ab=999, h=2), e5, [run_of(opt("idx", [P("name", "a"), P("name", "ab")], 1000))]),
        "all-skips-hidden": (cluster5(a=1000, ab=0, h=2, d1=3, d2=1), e5, [run_of(opt("idx", [P("all", "*")], 1000)), run_of(opt("idx", [P("all", "_all")], 500))]),
        "hidden-by-name-and-pattern": (cluster5(a=1, h=2, d1=3), e5, [run_of(opt("idx", [P("name", ".h")], 2)), run_of(opt("idx", [P("pre", ".")], 2))]),
        "data-stream": (cluster5(a=1, d1=3, d2=1), e5, [run_of(opt("ds", [P("name", "logs")], 2)), run_of(opt("idx", [P("pre", "l")], 1000))]),
        "not-found": (cluster5(a=1), e5, [run_of(opt("idx", [P("name", "zz")], 2)), run_of(opt("idx", [P("name", "zz"), P("name", "a")], 2)), run_of(opt("ds", [P("name", "nope")], 2))]),
        "stale-interrupted-run-is-overwritten": (cluster5(a=2), stale, [run_of(opt("idx", [P("name", "a")], 1000))]),
        "earlier-run-was-longer": (cluster5(a=2, ab=1), earlier(U5, 1, 5), [run_of(opt("idx", [P("name", "a")], 2)), run_of(opt("idx", [P("name", "ab")], 2))]),
        "index-emptied-between-runs": (cluster5(a=3), e5, [run_of(opt("idx", [P("name", "a")], 2)), run_of(opt("idx", [P("pre", "a")], 2), reshape=cluster5(a=0, ab=1))]),
        "failing-requests": (cluster5(a=3, ab=1), e5, [run_of(opt("idx", [P("pre", "a")], 2), fail=f) for f in range(1, 14)]),
        "failing-clear-after-break": (cluster5(a=1001), e5, [run_of(opt("idx", [P("name", "a")], 1000), fail=5), run_of(opt("idx", [P("name", "a")], 1000), fail=9)]),
    }
    return [{"src": "directed:" + k, "seed": i, "u": U5, "tn": "acme", "cl": cl, "dir0": d0, "runs": runs} for i, (k, (cl, d0, runs)) in enumerate(cases.items())]


def random_cases(seed, n):
    rnd = random.Random(seed)
    cases = []
    for ci in range(n):
        u = U5 if rnd.random() < 0.6 else UDOC
        big_case = rnd.random() < 0.3
        counts = [0, 1, 2, 3, 5, 7] + ([999, 1000, 1001, 1500, 2001] if big_case else [])

        def rand_cluster():
            cl = []
            for x in u:
                if rnd.random() < (0.3 if not x["dot"] else 0.5):
                    cl.append(dict(OFF))
                else:
                    cl.append(on(rnd.choice(counts), rnd.choice(KEYSETS), rnd.randint(1, 6), rnd.randint(0, 2), rnd.randint(0, 5)))
            return cl

        cl = rand_cluster()
        names = [x["nm"] for x in u]
        dss = sorted({x["ds"] for x in u if x["ds"]})
        grps = sorted({x["grp"] for x in u} | {"z"})
        dgrps = sorted({x["dgrp"] for x in u if x["dgrp"]} | {"z"})

        def rand_opt(cur):
            top = max([c["n"] for c in cur if c["ex"]] + [0])
            bs = [b for b in (1, 2, 3, 4, 400, 500, 1000, 1000, 2000, 5000) if top <= 6 * b]
            live_ds = sorted({x["ds"] for x, c in zip(u, cur) if x["ds"] and c["ex"]})
            if rnd.random() < (0.3 if live_ds else 0.06):
                pats = []
                for _ in range(rnd.choice([1, 1, 2])):
                    y = rnd.random()
                    if live_ds and y < 0.55:
                        pats.append(P("name", rnd.choice(live_ds)))
                    elif live_ds and y < 0.8:
                        pats.append(P("pre", rnd.choice(live_ds)[0]))
                    elif y < 0.88:
                        pats.append(P("all", "*"))
                    else:
                        pats.append(rnd.choice([P("name", "nope"), P("pre", "z")]))
                return opt("ds", pats, rnd.choice(bs))
            pats = []
            for _ in range(rnd.choice([1, 1, 2, 2, 3])):
                x = rnd.random()
                pats.append(P("all", rnd.choice(["*", "_all"])) if x < 0.15 else P("pre", rnd.choice(grps)) if x < 0.4 else P("name", rnd.choice(names + dss + ["zz"])))
            return opt("idx", pats, rnd.choice(bs))

        x = rnd.random()
        if x < 0.5:
            dir0 = empty_dir(len(u))
        else:
            ix = rnd.randint(1, 3)
            dir0 = earlier(u, ix, rnd.choice([1, 2, 5, 1001] if big_case else [1, 2, 5]))
            f = dir0["ix"][ix - 1]
            y = rnd.random()
            if y < 0.25:  # interrupted in the full dump
                f["full"] = {"k": "prefix", "n": min(1, f["full"]["n"]), "sz": 0}
                f["fullz"] = {"k": "part", "n": 0, "sz": 0}
            elif y < 0.4:  # only the -1k files
                f["full"], f["fullz"] = dict(ABSENT), dict(ABSENT)
                dir0["track"], dir0["chal"], dir0["ops"] = dict(NO_TRACK), dict(NO_CHAL), "absent"
            elif y < 0.5:
                f["full"] = {"k": "other", "n": 0, "sz": 0}
                f["onekz"] = {"k": "other", "n": 0, "sz": 0}
                f["body"] = {"k": "other", "keys": [], "sh": -1, "rp": -1, "mv": 0}
                dir0["track"] = {"k": "other", "ixs": [], "corp": [], "ok": False}
        runs = []
        cur = cl
        for ri in range(rnd.choice([1, 2, 2, 3])):
            reshape = None
            if ri and rnd.random() < 0.5:
                reshape = rand_cluster()
                if reshape == cur:
                    reshape = None
                else:
                    cur = reshape
            o = rand_opt(cur)
            churn = {}
            if rnd.random() < 0.3:
                for _ in range(rnd.randint(1, 2)):
                    alive = [i + 1 for i, c in enumerate(cur) if c["ex"]]
                    if alive:
                        i = rnd.choice(alive)
                        churn.setdefault(str(rnd.randint(1, 12)), []).append([i, rnd.choice([c for c in counts if c <= 6 * o["b"]] or [0])])
            runs.append(run_of(o, fail=rnd.randint(1, 30) if rnd.random() < 0.25 else 0, churn=churn, reshape=reshape))
        cases.append({"src": "random", "seed": seed * 1000 + ci, "u": u, "tn": rnd.choice(["acme", "my-track_1", "t"]), "cl": cl, "dir0": dir0, "runs": runs})
    return cases


# ---------------------------------------------------------------------------------------------------
# verdicts
# ---------------------------------------------------------------------------------------------------
def _strip_sizes(o):
    if isinstance(o, dict):
        return {k: _strip_sizes(v) for k, v in o.items() if k not in ("sz", "ub", "cb")}
    if isinstance(o, list):
        return [_strip_sizes(v) for v in o]
    return o


def _explained(clause, events, line):
    """is the L1 failure at this F event the known deviation behind the pinned clause (and not something new)?"""
    if any(sw in _fixed() for sw in PINNED[clause][0].split(" / ")):
        return False  # validated as a tree in which the deviation is repaired
    ev = events[line - 1]
    begin = max(j for j in range(line) if events[j]["a"] == "B")
    opt_ = events[begin]["opt"]
    qs = [e for e in events[begin:line] if e["a"] == "Q"]
    obs = qs[-1]["es"]["obs"] if qs else []
    t = ev["dir"]["track"]
    if clause == "SelectionOnce":
        return len(set(t["ixs"])) < len(t["ixs"]) and len(opt_["pats"]) >= 2
    if clause == "Loads":
        return len(set(t["ixs"])) < len(t["ixs"]) or not t["corp"] or any(c["ub"] < 1 and 0 == o["n2"] < o["c"] for c in t["corp"] for o in obs if o["ix"] == c["ix"])
    if clause == "EmptySkipped":
        return any(0 == o["n2"] < o["c"] for o in obs)
    if clause == "NoSpuriousError":
        return ev["res"]["why"] == "KeyError" and opt_["mode"] == "ds" and any(e["req"]["op"] == "ds" and e["resp"]["nokey"] for e in qs)
    if clause in ("CountOnDisk", "CorporaPass"):
        return any(0 <= o["n2"] < o["c"] for o in obs)
    return False


def _signature(clauses, case, events, line):
    begin = max(j for j in range(line) if events[j]["a"] == "B")
    o = events[begin]["opt"]
    return {
        "clauses": sorted(clauses), "mode": o["mode"], "patterns": len(o["pats"]), "scripted_failure": events[begin]["fail"] != 0,
        "churn": any(e["a"] == "C" for e in events[begin:line]), "run": sum(1 for e in events[:line] if e["a"] == "B"),
        "pinned": sorted({PINNED[c][0] for c in clauses if c in PINNED}),
    }  # fmt: skip


def _cfg_with(switches):
    with open(os.path.join(tlc.SPECS, SPEC, "TraceTracker.cfg"), "r", encoding="utf-8") as f:
        text = f.read()
    for s in switches:
        text, n = re.subn(r"^  %s = FALSE$" % s, "  %s = TRUE" % s, text, flags=re.M)
        if n != 1:
            raise tlc.MachineryError("TraceTracker.cfg has no switch %s" % s)
    return text


def exec_cases(cases, out, label, scratch, stats):
    """runs the cases on the real code: (trace items, index id -> (case, item))"""
    import time

    t0 = time.time()
    items, index = [], {}
    for ci, case in enumerate(cases):
        tid = "%s-%d" % (label, ci)
        try:
            item, info = execute(case, scratch)
        except Divergence as ex:
            out.drift.append("%s (%s): %s" % (tid, case["src"], ex))
            continue
        item["id"] = tid
        items.append(item)
        index[tid] = (case, item)
        evs = item["events"]
        fin = [e for e in evs if e["a"] == "F"]
        out.add_case({k: case[k] for k in ("u", "cl", "dir0", "runs", "tn")}, nontrivial=any(e["a"] == "Q" and e["req"]["op"] == "search" for e in evs))
        stats["cases"] += 1
        stats["runs"] += len(fin)
        stats["requests"] += info["stats"]["requests"]
        stats["runs_ok"] += sum(1 for e in fin if e["res"]["st"] == "ok")
        stats["runs_failed"] += sum(1 for e in fin if e["res"]["st"] == "err")
        stats["loader_rejects"] += sum(1 for e in fin if e["res"]["ld"]["load"] == "rejected")
        stats["second_runs"] += max(0, len(fin) - 1)
        stats["churn_events"] += sum(1 for e in evs if e["a"] == "C")
        stats["swallowed_clear_errors"] += info["stats"]["swallowed"]
        stats["big_corpora"] += sum(1 for e in fin for c in e["dir"]["track"]["corp"] if c["dc"] > TEST_DOCS)
        stats["nonempty_dir0"] += case["dir0"] != empty_dir(len(case["u"]))
        stats["corpus_rejected_by_loader"] += sum(1 for e in fin for c in e["res"]["ld"]["corp"] if c["prep"] != "ok")
        for msg in info["stats"]["loader_errors"]:
            key = re.sub(r"'[^']*'", "..", msg)[:160]
            stats["loader_errors"][key] = stats["loader_errors"].get(key, 0) + 1
        for a in info["anomalies"]:
            stats["anomalies"][a[:200]] = stats["anomalies"].get(a[:200], 0) + 1
        if case.get("model"):
            mine = [{"dir": _strip_sizes(e["dir"]), "res": _strip_sizes(e["res"])} for e in fin]
            for k, m in enumerate(case["model"]):
                if m is not None and k < len(mine):
                    stats["s2c"] += 1
                    mm = _strip_sizes(m)
                    for x in mm["res"]["ld"].get("ixs", []):
                        x.setdefault("shp", 0)
                    same = mine[k]["dir"] == mm["dir"] and mine[k]["res"]["st"] == mm["res"]["st"] and mine[k]["res"]["why"] == mm["res"]["why"] and mine[k]["res"]["ld"]["load"] == mm["res"]["ld"]["load"]
                    stats["s2c_followed"] += same
                    if not same and len(stats.setdefault("s2c_diff", [])) < 3:
                        stats["s2c_diff"].append({"case": tid, "run": k, "model": mm["res"], "real": mine[k]["res"], "dir_same": mine[k]["dir"] == mm["dir"]})
    if not items:
        raise tlc.MachineryError("no executions for %s" % label)
    stats["exec_s"] = round(stats.get("exec_s", 0) + time.time() - t0, 1)
    return items, index


def _fixed():
    """VERIF_TRACKER_FIXED=Switch,... validates against the specification with these switches TRUE (for a tree in which the deviation has
    been repaired) without editing TraceTracker.cfg"""
    fixed = [x for x in os.environ.get("VERIF_TRACKER_FIXED", "").split(",") if x]
    for x in fixed:
        if x not in SWITCHES:
            raise tlc.MachineryError("VERIF_TRACKER_FIXED: unknown switch %r" % x)
    return fixed


def validate_items(items, chunk=150):
    fixed = _fixed()
    return tracecheck.validate(SPEC, "TraceTracker", "TraceTracker.cfg", items, name="xtrtrace", chunk=chunk, timeout=600, skip_field="skip", cfg_text=_cfg_with(fixed) if fixed else None)


def judge(out, stats, label, items, index, verdicts):
    out.states += verdicts.n_events
    out.transitions += verdicts.n_events
    bad = set(verdicts.l2)
    for tid, fails in sorted(verdicts.l1.items()):
        case, item = index[tid]
        for line, clauses in fails:
            fresh = [c for c in clauses if c not in PINNED or not _explained(c, item["events"], line)]
            for c in clauses:
                stats["l1"][c] = stats["l1"].get(c, 0) + 1
            if fresh:
                bad.add(tid)
                key = ",".join(c + ("[pinned clause, but NOT the known deviation]" if c in PINNED else "") for c in fresh)
                stats["l1_new"][key] = stats["l1_new"].get(key, 0) + 1
                if stats["l1_new"][key] <= 10:
                    replay = {k: case[k] for k in ("u", "tn", "cl", "dir0", "runs", "seed")}
                    out.violations.append(Violation(key, replay, signature=_signature(clauses, case, item["events"], line), detail="run %s (%s), F event %d: %s" % (tid, case["src"], line, json.dumps(item["events"][line - 1]["res"])[:300])))
            for c in clauses:
                if c in fresh:
                    continue
                rec = out.extra.setdefault("pinned_behaviour_observed", {}).setdefault(c, {"switch": PINNED[c][0], "what": PINNED[c][1], "runs": 0, "example": None, "size": None})
                rec["runs"] += 1
                size = len(json.dumps(case["runs"])) + sum(c2["n"] for c2 in case["cl"])
                if rec["example"] is None or size < rec["size"]:
                    rec["example"] = {"run": tid, "event": line, "src": case["src"], "cl": [[x["nm"], c2["n"]] for x, c2 in zip(case["u"], case["cl"]) if c2["ex"]], "runs": case["runs"]}
                    rec["size"] = size
    out.traces_validated += len(items) - len(bad)
    rejected = [index[tid][1] for tid in sorted(verdicts.l2)]
    if rejected and not _fixed():
        for sw in SWITCHES:
            v = tracecheck.validate(SPEC, "TraceTracker", "TraceTracker.cfg", copy.deepcopy(rejected[:100]), name="xtrvariant", cfg_text=_cfg_with([sw]), timeout=300, skip_field="skip")
            if not v.l2:
                out.drift.append("%s: the %d runs that are not steps of the model of the code as it is are all accepted with %s = TRUE: this deviation seems to have been repaired; switch the cfgs of specs/Tracker over" % (label, len(rejected), sw))
                break
    for tid, lines in sorted(verdicts.l2.items()):
        case, item = index[tid]
        ln = lines[0]
        stats["l2"] += 1
        if len(out.drift) < 12:
            ev = item["events"][ln - 1] if 1 <= ln <= len(item["events"]) else {"a": "end of run"}
            what = {k: v for k, v in ev.items() if k in ("a", "req", "resp", "res", "i", "n")}
            out.drift.append("run %s (%s): event %d %s is not a step of Tracker.tla; runs %s" % (tid, case["src"], ln, json.dumps(what, sort_keys=True)[:400], json.dumps(case["runs"])[:300]))
    return index


def run_cases(cases, out, label, scratch, stats):
    items, index = exec_cases(cases, out, label, scratch, stats)
    return judge(out, stats, label, items, index, validate_items(items))


STAT_KEYS = "cases runs requests runs_ok runs_failed loader_rejects second_runs churn_events swallowed_clear_errors big_corpora nonempty_dir0 corpus_rejected_by_loader s2c s2c_followed l2".split()


class Outcome_like:  # pylint: disable=invalid-name
    """collects the TLC results of a job that runs beside the main thread"""

    def __init__(self):
        self.tlc = []

    def add_tlc(self, res):
        self.tlc.append(res)


LEG_M = [
    # cfg, invariant expected to be violated (None = must hold), what the self-test shows
    ("Tracker.quick.cfg", None, ""),
    ("Tracker.dirs.cfg", None, ""),
    ("Tracker.tworuns.cfg", None, ""),
    ("Tracker.churn.cfg", None, ""),
    ("Tracker.intended.cfg", None, ""),
    ("Tracker.intended.churn.cfg", None, ""),
    ("Tracker.pinned.count.cfg", "CountOnDisk", "CountDumped=FALSE (code): documents deleted between _count and the scan: document-count is not what is on disk"),
    ("Tracker.pinned.countempty.cfg", "EmptySkipped", "CountDumped=FALSE (code): ... all deleted: a corpus without documents"),
    ("Tracker.pinned.countload.cfg", "CorporaPass", "CountDumped=FALSE (code): ... and the loader rejects the corpus (lines)"),
    ("Tracker.pinned.dedup.cfg", "SelectionOnce", "DedupIndices=FALSE (code): overlapping patterns list an index twice"),
    ("Tracker.pinned.dedupload.cfg", "Loads", "DedupIndices=FALSE (code): ... and the loader rejects the track"),
    ("Tracker.pinned.nocorpus.cfg", "Loads", "LoadableNoCorpus=FALSE (code): only empty indices: the loader rejects \"corpora\": []"),
    ("Tracker.pinned.dsnomatch.cfg", "NoSpuriousError", "DsNoMatchOk=FALSE (code): a data stream wildcard without match kills the run with KeyError"),
]


def _mc_job(ctx, job):
    cfg, expect, _ = job
    try:
        wd = tlc.prepare_workdir(SPEC, "xtrmc")
        res = tlc.run_tlc(wd, "MC_Tracker", cfg, workers=1 if expect else (2 if ctx.quick else 6), timeout=280 if ctx.quick else 1500, allow_violation=True)
        shutil.rmtree(wd, ignore_errors=True)
        return res
    except Exception as ex:  # pylint: disable=broad-except
        return ex


def _leg_m_collect(out, todo, results):
    for (cfg, expect, text), res in zip(todo, results):
        if isinstance(res, Exception):
            raise res
        out.add_tlc(res)
        if expect is None:
            if not res.ok:
                raise tlc.MachineryError("model violates %s in %s: %s" % (res.invariant_violated or res.property_violated or res.error, cfg, res.out[-1500:]))
            out.note("leg M %s: %d distinct states, depth %d, %.1fs" % (cfg, res.distinct, res.depth, res.wall_s))
        else:
            if res.invariant_violated != expect:
                raise tlc.MachineryError("self-test failed: %s should violate %s, got %s" % (cfg, expect, res.invariant_violated or res.error or "no violation"))
            out.extra.setdefault("model_selftests", []).append("%s violates %s in the model, as expected: %s" % (cfg, expect, text))


def run(ctx, out):
    quick = ctx.quick
    scratch = ctx.scratch("xtracker")
    out.rule = (
        "case = a cluster (which indices of the universe exist, documents, settings keys, shards / replicas, mapping), the track directory before the first run, and 1-3 runs of "
        "`esrally create-track` (--indices patterns or --data-streams, --batch-size, one scripted failing request, documents indexed / deleted before given requests, the cluster "
        "reshaped between runs); distinct by hash; non-trivial = at least one scan. Sources: TLC -simulate behaviours of Tracker.tla, directed executions, seeded random executions."
    )
    out.assumptions = [
        "the fake cluster is the Python twin of Serve in Tracker.tla (L2 compares them on every request): document j of an index is the j-th hit of the sort:_doc scan, deletions remove "
        "from the tail, a scroll sees the index as of its search request, get index / get data stream answer in the order of the universe, expand_wildcards=all includes hidden indices and "
        "the backing indices of matching data streams, an unknown name gives 404, filter_path=data_streams.name drops an empty array (a wildcard without match answers {})",
        "the command is run from the REAL argument parser through rally.dispatch_sub_command; only elastic_transport.Transport.perform_request is replaced (no retries of the transport), "
        "so EsClientFactory, RallySyncElasticsearch, the product check and elasticsearch.helpers.scan are the real ones; GET / and GET /_cluster/health are answered but not part of the model",
        "the directory is observed by the harness itself at every request: a corpus file is `prefix n` iff its bytes are exactly the serialised documents 1..n of its index (archives: after "
        "bz2 decompression), documents have a fixed width so that uncompressed-bytes is checked exactly; corpora are far smaller than a bz2 block, an archive is empty until the final flush",
        "the loader verdict is the real loader.load_track (plain, with track parameters number_of_shards / number_of_replicas, in test mode) followed by "
        "DocumentSetPreparator.prepare_bundled_document_set for every corpus (size and line-count checks, offset table); the .offset files it writes are removed again",
        "progress output, TLS / authentication options, --target-hosts variants, a track name that needs JSON escaping, mappings / settings that contain Jinja syntax, "
        "closed indices, aliases and corpora bigger than one bz2 block are not modelled",
    ]
    # every TLC run that does not depend on an execution of the real code starts now (subprocesses; the harness itself stays single-threaded
    # and judges all results in a fixed order)
    from concurrent.futures import ThreadPoolExecutor

    def guarded(fn, *a):
        try:
            return fn(*a)
        except Exception as ex:  # pylint: disable=broad-except
            return ex

    def result(fut):
        r = fut.result()
        if isinstance(r, Exception):
            raise r
        return r

    tlc.scratch_root()
    todo = list(LEG_M) + ([] if quick else [("Tracker.thorough.cfg", None, "")])
    out.exhaustive = False
    stats = {k: 0 for k in STAT_KEYS}
    stats.update(l1={}, l1_new={}, anomalies={}, loader_errors={})
    sim_out = Outcome_like()
    with ThreadPoolExecutor(5) as pool:
        f_sim = pool.submit(guarded, behaviours_from_tlc, ctx, sim_out, 230 if quick else 2000, 100)
        f_mc = [pool.submit(_mc_job, ctx, job) for job in todo]
        directed = directed_cases()
        items_d, idx = exec_cases(directed, out, "dir", scratch, stats)
        f_vd = pool.submit(guarded, validate_items, items_d)
        rnd = random_cases(ctx.seed + 3, 200 if quick else 3000)
        items_r, idx_r = exec_cases(rnd, out, "rnd", scratch, stats)
        f_vr = pool.submit(guarded, validate_items, items_r)
        sims = result(f_sim)
        items_s, idx_s = exec_cases(sims, out, "sim", scratch, stats)
        f_vs = pool.submit(guarded, validate_items, items_s)
        _leg_m_collect(out, todo, [f.result() for f in f_mc])
        for res in sim_out.tlc:
            out.add_tlc(res)
        out.note("leg S2C: %d TLC -simulate behaviours" % len(sims))
        judge(out, stats, "sim", items_s, idx_s, result(f_vs))
        judge(out, stats, "dir", items_d, idx, result(f_vd))
        judge(out, stats, "rnd", items_r, idx_r, result(f_vr))
    pick = next((c for c in sims if len(c["runs"]) >= 2), sims[0])
    out.sample({"source": "tlc-simulate", "cluster": [[x["nm"], c["n"]] for x, c in zip(pick["u"], pick["cl"]) if c["ex"]], "runs": pick["runs"]})
    out.extra["directed"] = {}
    for tid, (case, item) in sorted(idx.items()):
        fin = [e["res"] for e in item["events"] if e["a"] == "F"]
        out.extra["directed"][case["src"]] = ["%s%s%s" % (r["st"], ":" + r["why"] if r["why"] else "", "" if r["st"] != "ok" else " loader:" + r["ld"]["load"] + "".join(" corpus:" + c["prep"] for c in r["ld"]["corp"])) for r in fin]
    out.note("directed executions: %s" % json.dumps(out.extra["directed"]))
    out.sample({"source": "random", "cluster": [[x["nm"], c["n"]] for x, c in zip(rnd[0]["u"], rnd[0]["cl"]) if c["ex"]], "runs": rnd[0]["runs"]})
    # ---- binding self-test: corrupted recordings must be rejected
    tid, (case, item) = next((t, ci) for t, ci in sorted(idx.items()) if ci[0]["src"] == "directed:the-documented-example")
    muts = []
    m1 = copy.deepcopy(item)
    m1["id"] = "bind-lines"
    m1["events"][-1]["dir"]["ix"][0]["full"]["n"] -= 1
    muts.append(m1)
    m2 = copy.deepcopy(item)
    m2["id"] = "bind-ephemeral"
    m2["events"][-1]["dir"]["ix"][0]["body"]["keys"].append("uuid")
    muts.append(m2)
    m3 = copy.deepcopy(item)
    m3["id"] = "bind-drop"
    del m3["events"][3]
    muts.append(m3)
    m4 = copy.deepcopy(item)
    m4["id"] = "bind-bytes"
    m4["events"][-1]["dir"]["track"]["corp"][0]["cb"] += 1
    muts.append(m4)
    v = tracecheck.validate(SPEC, "TraceTracker", "TraceTracker.cfg", muts, name="xtrbind", skip_field="skip")
    missed = [m["id"] for m in muts if m["id"] not in v.l1 and m["id"] not in v.l2]
    if missed or any(m not in v.l1 for m in ("bind-lines", "bind-ephemeral", "bind-bytes")):
        raise tlc.MachineryError("binding self-test failed: corrupted recordings accepted or not judged by L1: missed=%s l1=%s" % (missed, sorted(v.l1)))
    out.extra["binding_selftest"] = "recordings with a corpus one line short (L1 Complete / CountOnDisk), an ephemeral setting left in <index>.json (L1 BodiesFiltered), compressed-bytes off by one (L1 BytesOnDisk) and a dropped request (L2) are rejected by TLC"
    out.extra["coverage_of_runs"] = stats
    out.note(
        "leg C2S: %d cases, %d runs of create-track (%d requests): %d succeeded, %d failed; loader rejected %d tracks and %d corpora; %d runs on a directory left by an earlier run, "
        "%d cases with a pre-existing directory, %d churn events, %d corpora > 1000 documents, %d clear_scroll errors swallowed; S2C: %d/%d complete TLC runs reproduced exactly; "
        "%d executions accepted without any unexplained verdict; the real code took %.0fs"
        % (stats["cases"], stats["runs"], stats["requests"], stats["runs_ok"], stats["runs_failed"], stats["loader_rejects"], stats["corpus_rejected_by_loader"], stats["second_runs"],
           stats["nonempty_dir0"], stats["churn_events"], stats["big_corpora"], stats["swallowed_clear_errors"], stats["s2c_followed"], stats["s2c"], out.traces_validated, stats.get("exec_s", 0))
    )  # fmt: skip
    for c, rec in sorted(out.extra.get("pinned_behaviour_observed", {}).items()):
        out.note("pinned deviation of /repo (%s=FALSE): L1 %s fails in %d runs: %s; smallest: %s" % (rec["switch"], c, rec["runs"], rec["what"], json.dumps(rec["example"])[:500]))
    if stats["l1_new"]:
        out.note("UNEXPLAINED L1 verdicts: %s" % json.dumps(stats["l1_new"], sort_keys=True))
    if stats["anomalies"]:
        out.drift.append("requests / files with an unexpected shape: %s" % json.dumps(stats["anomalies"], sort_keys=True)[:600])
    if stats["loader_errors"]:
        out.note("loader messages for rejected tracks: %s" % json.dumps(stats["loader_errors"], sort_keys=True)[:700])
    for key in ("runs_failed", "loader_rejects", "second_runs", "churn_events", "big_corpora", "nonempty_dir0", "corpus_rejected_by_loader", "swallowed_clear_errors", "s2c_followed"):
        if not stats[key]:
            out.vacuous.append("no executed run exercised: " + key)
    for c in PINNED:
        if _fixed():
            break
        if c not in out.extra.get("pinned_behaviour_observed", {}) and not any(c in v.clause for v in out.violations):
            out.drift.append("the pinned deviation behind %s (%s = FALSE) was not observed in any run: repaired? switch the cfgs of specs/Tracker over" % (c, PINNED[c][0]))


def replay(ctx, case):
    from ..core import Outcome

    out = Outcome(ctx.pid)
    stats = {k: 0 for k in STAT_KEYS}
    stats.update(l1={}, l1_new={}, anomalies={}, loader_errors={})
    run_cases([dict(case, src="replay")], out, "replay", ctx.scratch("xtracker"), stats)
    for v in out.violations:
        print("L1 clause=%s %s" % (v.clause, v.detail))
    for d in out.drift:
        print("MODEL-DRIFT %s" % d)
    print(json.dumps({k: v for k, v in stats.items() if v}, sort_keys=True))
    return 0
