"""Extra module ActorBase: the actor base-class protocol helpers of esrally/actor.py that the mechanic and driver actors build on.

Part 1 (specs/ActorBase/ActorBase.tla): a parent RallyActor with children [None]*k + [c1..cn] runs two phases with the REAL
send_to_children_and_transition / transition_when_all_children_responded / is_current_status_expected inside handlers wrapped in the
REAL no_retry; children answer in any order, twice, late (after the phase is over), with a BenchmarkFailure; a self-addressed wake-up fails.
Invariants (TLC + L1 on every recorded run): TransitionOncePerPhase, NeverBeforeCount (the callback runs when, and only when, the
len(children)-th counted response arrives), NeverOnWrongPhase (triggered by an answer of that phase in that phase's status),
MismatchReported (a Go / an answer in an unexpected status changes nothing and a BenchmarkFailure goes to its sender), BroadcastReachesAll,
NoEscape (nothing escapes a no_retry handler, so Thespian never retries / poisons), FailureNotCounted, SelfFailureInline, CountBelowExpected,
CallbackFailureReported.  /repo does not meet the strong forms AllChildrenAnswered (every child has answered for THIS phase when the
callback runs) and CountedBelongToPhase: responses are counted as messages, not per child (a duplicate completes the phase), and
send_to_children_and_transition keeps received_responses (answers of an unfinished phase count for the next one, e.g. StopEngine while
starting): pinned behind DistinctSenders / ResetOnBroadcast (FALSE = /repo); AllChildrenAnsweredIfWellBehaved holds.
Part 2 (ActorBoot.tla): decision table of bootstrap_actor_system / use_offline_actor_system / actor_system_already_running.
Part 3 (Rallyd.tla): start / stop / status / restart of esrally/rallyd.py as call sequences against scripted fakes.

Leg M: TLC on the quick/repaired cfgs + self-tests; leg S2C: TLC -simulate behaviours (part 1) and TLC state dumps (parts 2, 3) executed
on the real code; leg C2S: every recorded run (S2C + seeded random ones) judged by TLC against the Trace* modules.
"""
import copy
import glob
import os
import random

from .. import tlc, tracecheck
from ..core import Violation
from ..tlaparse import parse_simulation_file, to_json

SPEC = "ActorBase"
PINNED = {
    "AllChildrenAnswered": (
        "DistinctSenders / ResetOnBroadcast",
        "transition_when_all_children_responded counts messages (len(received_responses) == len(children)), not children, and "
        "send_to_children_and_transition does not clear received_responses: the callback runs although a child has not answered for this phase",
    ),
    "CountedBelongToPhase": (
        "ResetOnBroadcast",
        "send_to_children_and_transition with an any-status guard ([] / None, as in MechanicActor.receiveMsg_StopEngine) keeps the responses "
        "counted for the unfinished previous phase: they are counted for the new phase",
    ),
}
GO2 = ("str", "list", "empty", "none")
_CLS = {}


def _classes():
    """The coordinator actor: a real RallyActor subclass; built lazily because esrally is imported from $VERIF_REPO."""
    if _CLS:
        return _CLS
    import functools
    import logging

    # esrally needs RALLY_HOME with a logging configuration before actors are created
    os.environ["RALLY_HOME"] = tlc.scratch("rally_home")
    from esrally import log

    log.install_default_log_config()
    logging.disable(logging.CRITICAL)

    import thespian.actors as ta
    from esrally import actor, exceptions

    class Go:
        def __init__(self, p):
            self.p = p

    class Work:
        def __init__(self, p):
            self.p = p

    class Done:
        def __init__(self, c, p):
            self.c = c
            self.p = p

    class AllDone:
        def __init__(self, p):
            self.p = p

    class Coordinator(actor.RallyActor):
        def configure(self, user, children, go2, cb):
            self.user = user
            self.children = children
            self.go2 = go2
            self.cb = cb
            self.fired = [0, 0]
            self.status = "idle"

        def go_expected(self, p):
            if p == 1:
                return "idle"
            return {"str": "done1", "list": ["idle", "done1"], "empty": [], "none": None}[self.go2]

        @actor.no_retry("coordinator")  # pylint: disable=no-value-for-parameter
        def receiveMsg_Go(self, msg, sender):
            self.send_to_children_and_transition(sender, Work(msg.p), self.go_expected(msg.p), "run%d" % msg.p)

        @actor.no_retry("coordinator")  # pylint: disable=no-value-for-parameter
        def receiveMsg_Done(self, msg, sender):
            self.transition_when_all_children_responded(sender, msg, "run%d" % msg.p, "done%d" % msg.p, functools.partial(self.on_done, msg.p))

        def on_done(self, p):
            self.fired[p - 1] += 1
            if self.cb[p - 1]:
                # no_retry guards against BaseException: phase 1 fails with an Exception, phase 2 with a KeyboardInterrupt
                raise RuntimeError("verif: callback of phase %d fails" % p) if p == 1 else KeyboardInterrupt()
            self.send(self.user, AllDone(p))

        def receiveMsg_BenchmarkFailure(self, msg, sender):
            self.send(self.user, msg)

        @actor.no_retry("coordinator")  # pylint: disable=no-value-for-parameter
        def receiveMsg_WakeupMessage(self, msg, sender):
            raise exceptions.RallyAssertionError("Unknown wakeup reason [%s]" % msg.payload)

    _CLS.update(ta=ta, actor=actor, Go=Go, Work=Work, Done=Done, AllDone=AllDone, Coordinator=Coordinator)
    return _CLS


class _Ref:
    """Replacement for thespian's ActorRef (installed as actor._myRef): records what the actor sends."""

    def __init__(self, address):
        self.address = address
        self.globalName = None
        self.sent = []

    def actor_send(self, target, msg):
        self.sent.append((target, msg))

    def wakeupAfter(self, period, payload=None):
        self.sent.append(("timer", payload))


class World:
    def __init__(self, scn):
        k = _classes()
        ta = k["ta"]
        self.k = k
        self.scn = scn
        self.addr = {"user": ta.ActorAddress("user"), "self": ta.ActorAddress("coordinator")}
        for i in range(1, scn["n"] + 1):
            self.addr["c%d" % i] = ta.ActorAddress("c%d" % i)
        self.inst = k["Coordinator"]()
        self.ref = _Ref(self.addr["self"])
        self.inst._myRef = self.ref  # pylint: disable=protected-access
        children = [None] * scn["nnone"] + [self.addr["c%d" % i] for i in range(1, scn["n"] + 1)]
        self.inst.configure(self.addr["user"], children, scn["go2"], list(scn["cb"]))
        self.esc = False

    def name_of(self, a):
        if isinstance(a, str):
            return a
        for n, x in self.addr.items():
            if x == a:
                return n
        return "unknown"

    def obs(self):
        k = self.k
        outs = []
        for target, msg in self.ref.sent:
            if isinstance(msg, k["Work"]):
                kind, p = "work", msg.p
            elif isinstance(msg, k["AllDone"]):
                kind, p = "alldone", msg.p
            elif isinstance(msg, k["actor"].BenchmarkFailure):
                kind, p = "failure", 0
            else:
                kind, p = "other:" + type(msg).__name__, 0
            outs.append({"to": self.name_of(target), "k": kind, "p": p})
        rr = [{"c": getattr(m, "c", 0), "p": getattr(m, "p", 0)} for m in self.inst.received_responses]
        return {"status": str(self.inst.status), "rr": rr, "fired": list(self.inst.fired), "outs": outs, "esc": self.esc}

    def deliver(self, a, c, p):
        k = self.k
        self.ref.sent = []
        self.esc = False
        if a == "go":
            msg, sender = k["Go"](p), self.addr["user"]
        elif a == "ans":
            msg, sender = k["Done"](c, p), self.addr["c%d" % c]
        elif a == "cfail":
            msg, sender = k["actor"].BenchmarkFailure("verif: child %d failed" % c), self.addr["c%d" % c]
        elif a == "wake":
            msg, sender = k["ta"].WakeupMessage(1, "boom"), self.addr["self"]
        else:
            raise ValueError(a)
        try:
            self.inst.receiveMessage(msg, sender)
        except BaseException:  # pylint: disable=broad-except
            self.esc = True


def execute(case):
    w = World(case["scn"])
    item = {"kind": "proto", "scn": case["scn"], "init": w.obs(), "events": []}
    for a, c, p in case["events"]:
        w.deliver(a, c, p)
        item["events"].append({"a": a, "c": c, "p": p, "st": w.obs()})
    return item


OBS_KEYS = ("status", "rr", "fired", "outs", "esc")


def cases_from_tlc(ctx, out, num, seed):
    wd = tlc.prepare_workdir(SPEC, "xabsim")
    os.makedirs(os.path.join(wd, "sim"))
    res = tlc.run_tlc(wd, "MC_ActorBase", "ActorBase.sim.cfg", workers=1, timeout=280, simulate={"num": num, "file": "sim/b"}, depth=16, seed=seed)
    if not res.ok:
        raise tlc.MachineryError("simulation reported a model violation: %s" % res.out[-2000:])
    out.add_tlc(res)
    cases = []
    for fn in sorted(glob.glob(os.path.join(wd, "sim", "b_*"))):
        states = [to_json(st) for st in parse_simulation_file(fn)]
        if len(states) < 2:
            continue
        scn = states[0]["scn"]
        evs = [[st["act"]["a"], st["act"]["c"], st["act"]["p"]] for st in states[1:]]
        model = [{k: st["s"][k] for k in OBS_KEYS} for st in states[1:]]
        cases.append({"src": "tlc-simulate", "scn": scn, "events": evs, "model": model})
    return cases


def random_case(rnd):
    """A seeded random run that is not derived from TLC: the harness only keeps causality (a child answers a broadcast it has received)
    and the budgets of the model (every Go once, at most two deliveries per answer, one child failure, one wake-up)."""
    scn = {"n": rnd.randint(1, 3), "nnone": rnd.choice([0, 0, 1]), "go2": rnd.choice(GO2), "cb": [rnd.random() < 0.2, rnd.random() < 0.2]}
    w = World(scn)
    gos, bc, used, nfail, nwake = set(), set(), {}, 0, 0
    evs = []
    for _ in range(rnd.randint(3, 14)):
        en = [("go", 0, p) for p in (1, 2) if p not in gos]
        en += [("ans", c, p) for c in range(1, scn["n"] + 1) for p in sorted(bc) if used.get((c, p), 0) < 2] * 3
        if nfail == 0 and bc:
            en += [("cfail", c, 0) for c in range(1, scn["n"] + 1)]
        if nwake == 0:
            en.append(("wake", 0, 0))
        if not en:
            break
        a, c, p = rnd.choice(en)
        w.deliver(a, c, p)
        evs.append([a, c, p])
        if a == "go":
            gos.add(p)
            if any(o["k"] == "work" for o in w.obs()["outs"]):
                bc.add(p)
        elif a == "ans":
            used[(c, p)] = used.get((c, p), 0) + 1
        elif a == "cfail":
            nfail += 1
        else:
            nwake += 1
    return {"src": "random", "scn": scn, "events": evs}


def ise_items():
    """is_current_status_expected as a table: status x expected form."""
    k = _classes()
    inst = k["Coordinator"]()
    forms = [("none", None, []), ("emptystr", "", []), ("emptylist", [], []), ("emptytuple", (), [])]
    for a in ("idle", "run1"):
        forms.append(("str", a, [a]))
        forms.append(("tuple", (a,), [a]))
        for b in ("run1", "done1"):
            forms.append(("list", [a, b], [a, b]))
        forms.append(("list", [a], [a]))
    items = []
    for status in ("idle", "run1", "done1"):
        for kind, val, vals in forms:
            inst.status = status
            r = inst.is_current_status_expected(val)
            items.append({"id": "ise-%d" % len(items), "kind": "ise", "status": status, "x": {"kind": kind, "vals": vals}, "r": bool(r)})
    return items


def run_proto(ctx, out, stats):
    q = ctx.quick
    wd = tlc.prepare_workdir(SPEC, "xabmc")
    for cfg in ["ActorBase.quick.cfg", "ActorBase.repaired.cfg"] if q else ["ActorBase.thorough.cfg", "ActorBase.repaired.cfg"]:
        res = tlc.run_tlc(wd, "MC_ActorBase", cfg, workers=4, timeout=280 if q else 900)
        out.add_tlc(res)
        if not res.ok:
            raise tlc.MachineryError("model violates %s in %s: %s" % (res.invariant_violated, cfg, res.out[-1500:]))
        out.note("leg M %s: %d distinct states, depth %d, %.1fs" % (cfg, res.distinct, res.depth, res.wall_s))
    for cfg, clause in (("ActorBase.selftest.dup.cfg", "AllChildrenAnswered"), ("ActorBase.selftest.carry.cfg", "AllChildrenAnswered"), ("ActorBase.selftest.phase.cfg", "CountedBelongToPhase")):
        res = tlc.run_tlc(wd, "MC_ActorBase", cfg, workers=1, timeout=120, allow_violation=True)
        if res.invariant_violated != clause:
            raise tlc.MachineryError("self-test failed: %s no longer violates %s" % (cfg, clause))
        out.extra.setdefault("model_selftests", []).append("%s violates %s in the model, as expected" % (cfg, clause))
    cases = cases_from_tlc(ctx, out, 300 if q else 3000, ctx.seed + 1)
    nsim = len(cases)
    rnd = random.Random(ctx.seed + 11)
    cases += [random_case(rnd) for _ in range(300 if q else 4000)]
    items, index = [], {}
    for ci, case in enumerate(cases):
        item = execute(case)
        item["id"] = "p-%d" % ci
        items.append(item)
        index[item["id"]] = (case, item)
        replay = {"scn": case["scn"], "events": case["events"]}
        out.add_case(replay, nontrivial=len(case["events"]) >= 2)
        stats["runs"] += 1
        stats["events"] += len(item["events"])
        fin = item["events"][-1]["st"] if item["events"] else item["init"]
        stats["fired"] += sum(fin["fired"])
        stats["mismatch_failures"] += sum(1 for e in item["events"] if e["a"] in ("go", "ans") and [o["k"] for o in e["st"]["outs"]] == ["failure"])
        if case.get("model") is not None:
            mine = [e["st"] for e in item["events"]]
            if mine == case["model"]:
                stats["s2c_followed"] += 1
            else:
                n = next((i for i, (a, b) in enumerate(zip(mine, case["model"])) if a != b), 0)
                out.drift.append("S2C %s: the real actor leaves the TLC behaviour at event %d %s: model %s, code %s; scn %s" % (item["id"], n + 1, case["events"][n], case["model"][n], mine[n], case["scn"]))
    ise = ise_items()
    for it in ise:
        out.add_case({"ise": [it["status"], it["x"]]})
    stats["ise"] = len(ise)
    stats["s2c"] = nsim
    all_items = items + ise
    verdicts = tracecheck.validate(SPEC, "TraceActorBase", "TraceActorBase.cfg", all_items, name="xabtrace", chunk=2500, timeout=280)
    out.states += verdicts.n_events
    out.transitions += verdicts.n_events
    bad = set(verdicts.l2) | {tid for tid, fails in verdicts.l1.items() if any(c not in PINNED for _, cl in fails for c in cl)}
    out.traces_validated += len(all_items) - len(bad)
    for tid, fails in sorted(verdicts.l1.items()):
        case, item = index[tid]
        clauses = sorted({c for _, cl in fails for c in cl})
        size = len(item["events"])
        for c in clauses:
            if c in PINNED:
                rec = out.extra.setdefault("pinned_behaviour_observed", {}).setdefault(c, {"runs": 0, "switch": PINNED[c][0], "what": PINNED[c][1], "size": 10**9, "example": None})
                rec["runs"] += 1
                line = min(ln for ln, cl in fails if c in cl)
                if line < rec["size"]:
                    rec["size"], rec["example"] = line, {"scn": case["scn"], "events": case["events"][:line]}
        new = [c for c in clauses if c not in PINNED]
        if new:
            line = fails[0][0]
            ev = item["events"][line - 1] if 1 <= line <= size else {}
            if len(out.violations) < 10:
                out.violations.append(
                    Violation("+".join(new), {"scn": case["scn"], "events": case["events"]}, {"module": "ActorBase", "clauses": new},
                              "run %s, event %d (%s): recorded %s; events %s" % (tid, line, [ev.get("a"), ev.get("c"), ev.get("p")], ev.get("st"), case["events"][: line + 1]))
                )  # fmt: skip
    if verdicts.l2:
        bad_items = [index[tid][1] for tid in sorted(verdicts.l2) if tid in index]
        if bad_items:
            v2 = tracecheck.validate(SPEC, "TraceActorBase", "TraceActorBase.repaired.cfg", copy.deepcopy(bad_items[:300]), name="xabvariant", timeout=280)
            if not v2.l2:
                out.drift.append("the %d runs that are not steps of the model of the code as it is are all accepted with DistinctSenders = ResetOnBroadcast = TRUE: this behaviour seems to have been repaired; switch the cfgs of specs/ActorBase over" % len(bad_items))
    for tid, lines in sorted(verdicts.l2.items())[:15]:
        if tid in index:
            case, item = index[tid]
            ln = lines[0]
            what = item["events"][ln - 1] if 1 <= ln <= len(item["events"]) else "initial state"
            out.drift.append("run %s: event %d (%s) is not a step of ActorBase.tla (code as it is); scn %s, events %s" % (tid, ln, what, case["scn"], case["events"][:ln]))
        else:
            it = next(x for x in ise if x["id"] == tid)
            out.drift.append("is_current_status_expected(status=%s, expected=%s) = %s is not what ActorBase.tla says" % (it["status"], it["x"], it["r"]))
    stats["l2_rejected"] += len(verdicts.l2)
    if items:
        longest = max(items[:nsim] or items, key=lambda it: len(it["events"]))
        out.sample({"source": "tlc-simulate", "scn": longest["scn"], "events": [[e["a"], e["c"], e["p"], e["st"]["status"], [o["to"] + ":" + o["k"] for o in e["st"]["outs"]]] for e in longest["events"]]})


# ---------------------------------------------------------------------------------------------------
# part 2: bootstrap_actor_system / use_offline_actor_system / actor_system_already_running
IPVAL = {"none": None, "empty": "", "A": "10.0.0.1", "B": "10.0.0.2", "nameA": "host-a.example.org"}
BASEVAL = {"tcp": "multiprocTCPBase", "queue": "multiprocQueueBase", "udp": "multiprocUDPBase", "simple": "simpleSystemBase"}
BOOT_PINNED = {
    "ProbeSocketClosed": ("CloseOnFailure", "actor_system_already_running() does not close its socket when connect() fails (s.close() is only on the success path)"),
}


def _tok(v):
    if v is None:
        return "absent"
    if v == "127.0.0.1":
        return "loop"
    for k2, x in IPVAL.items():
        if x == v and k2 not in ("none", "empty"):
            return k2
    return "other:%s" % v


def execute_boot(a):
    from unittest import mock

    import thespian.actors

    k = _classes()
    actor = k["actor"]
    from esrally import exceptions
    from esrally.utils import net

    rec = {"probed": False, "resolved": [], "ctor": {"called": False, "base": "", "logdefs": False, "coord": "absent", "ip": "absent", "conv": "absent"}, "logged": False}
    logdefs = {"verif": "logdefs"}

    def probe(*args, **kw):
        rec["probed"] = True
        return a["running"]

    def resolve(name, *args, **kw):
        rec["resolved"].append(next((t2 for t2, v in IPVAL.items() if v == name and t2 not in ("none", "empty")), "other:%s" % name))
        return IPVAL["A"] if name == IPVAL["nameA"] else name

    def ctor(systemBase=None, capabilities=None, logDefs=None, transientUnique=False):
        caps = capabilities or {}
        c = caps.get("coordinator")
        conv = caps.get("Convention Address.IPv4")
        if conv is not None:
            conv = conv[: -len(":1900")] if conv.endswith(":1900") else "noport:" + conv
        extra = sorted(set(caps) - {"coordinator", "ip", "Convention Address.IPv4"})
        base = next((t2 for t2, v in BASEVAL.items() if v == systemBase), "other:%s" % systemBase)
        rec["ctor"] = {
            "called": True, "base": base + ("+" + ",".join(extra) if extra else ""), "logdefs": logDefs is logdefs,
            "coord": "absent" if c is None else ("T" if c is True else "F" if c is False else "other"),
            "ip": _tok(caps.get("ip")), "conv": _tok(conv),
        }  # fmt: skip
        if a["ase"]:
            raise thespian.actors.ActorSystemException("verif: cannot start")
        return "SYSTEM"

    def logged(*args, **kw):
        rec["logged"] = True

    setattr(actor, "__SYSTEM_BASE", BASEVAL["tcp"])
    if a["base"] == "queue":
        actor.use_offline_actor_system()
    elif a["base"] != "tcp":
        setattr(actor, "__SYSTEM_BASE", BASEVAL[a["base"]])
    import logging

    try:
        with mock.patch.object(actor, "actor_system_already_running", probe), mock.patch.object(net, "resolve", resolve), mock.patch.object(
            thespian.actors, "ActorSystem", ctor
        ), mock.patch.object(actor.log, "load_configuration", lambda: logdefs), mock.patch.object(logging.getLogger(actor.__name__), "exception", logged):
            try:
                r = actor.bootstrap_actor_system(try_join=a["tj"], prefer_local_only=a["plo"], local_ip=IPVAL[a["lip"]], coordinator_ip=IPVAL[a["cip"]])
                out = "system" if r == "SYSTEM" else "other:%r" % (r,)
            except thespian.actors.ActorSystemException:
                out = "ase"
            except exceptions.SystemSetupError as ex:
                msg = ex.message if hasattr(ex, "message") else str(ex)
                out = "err:coordinator" if msg == "coordinator IP is required" else "err:local" if msg == "local IP is required" else "err:base" if "network-capable system base" in msg else "err:other:" + msg
            except BaseException as ex:  # pylint: disable=broad-except
                out = "raised:%s" % type(ex).__name__
    finally:
        setattr(actor, "__SYSTEM_BASE", BASEVAL["tcp"])
    return {"out": out, "probed": rec["probed"], "resolved": rec["resolved"], "ctor": rec["ctor"], "logged": rec["logged"]}


def execute_probe(a):
    import socket as real_socket
    import types
    from unittest import mock

    actor = _classes()["actor"]
    rec = {"target": None, "closed": False, "made": 0}

    class FakeSocket:
        def __init__(self, *args, **kw):
            rec["made"] += 1

        def connect(self, target):
            rec["target"] = target
            if a["conn"] == "refused":
                raise ConnectionRefusedError(111, "Connection refused")
            if a["conn"] == "timeout":
                raise real_socket.timeout("timed out")
            if a["conn"] == "exc":
                raise RuntimeError("verif")
            if a["conn"] == "KI":
                raise KeyboardInterrupt()

        def close(self):
            rec["closed"] = True

    with mock.patch.object(actor, "socket", types.SimpleNamespace(socket=FakeSocket)):
        try:
            r = actor.actor_system_already_running() if a["ip"] == "default" else actor.actor_system_already_running(ip=IPVAL[a["ip"]])
            r = "T" if r is True else "F" if r is False else "other"
        except KeyboardInterrupt:
            r = "KI"
        except BaseException as ex:  # pylint: disable=broad-except
            r = "raised:%s" % type(ex).__name__
    ip, port = rec["target"] if isinstance(rec["target"], tuple) and len(rec["target"]) == 2 else ("?", -1)
    return {"r": r, "ip": _tok(ip), "port": port, "closed": rec["closed"]}


def run_boot(ctx, out, stats):
    from ..tlaparse import parse_dump

    wd = tlc.prepare_workdir(SPEC, "xabboot")
    dump = os.path.join(wd, "boot.dump")
    res = tlc.run_tlc(wd, "MC_ActorBoot", "ActorBoot.quick.cfg", workers=2, timeout=200, dump=dump)
    out.add_tlc(res)
    if not res.ok:
        raise tlc.MachineryError("model violates %s in ActorBoot.quick.cfg: %s" % (res.invariant_violated, res.out[-1500:]))
    res2 = tlc.run_tlc(wd, "MC_ActorBoot", "ActorBoot.repaired.cfg", workers=2, timeout=200)
    out.add_tlc(res2)
    if not res2.ok:
        raise tlc.MachineryError("model violates %s in ActorBoot.repaired.cfg" % res2.invariant_violated)
    res3 = tlc.run_tlc(wd, "MC_ActorBoot", "ActorBoot.selftest.close.cfg", workers=1, timeout=120, allow_violation=True)
    if res3.invariant_violated != "StrongHold":
        raise tlc.MachineryError("self-test failed: ActorBoot.selftest.close.cfg no longer violates StrongHold")
    out.note("leg M ActorBoot.quick.cfg: %d distinct states (the whole decision table), %.1fs" % (res.distinct, res.wall_s))
    items, index = [], {}
    rows = []
    for st in parse_dump(dump + ".dump" if os.path.exists(dump + ".dump") else dump):
        st = to_json(st)
        if st["done"]:
            rows.append((st["in"], st["res"]))
    if not rows:
        raise tlc.MachineryError("no rows in the state dump of ActorBoot")
    rows.sort(key=lambda r: sorted(r[0].items(), key=str).__repr__())
    for a, model in rows:
        r = execute_boot(a) if a["kind"] == "boot" else execute_probe(a)
        it = {"id": "b-%d" % len(items), "a": a, "r": r}
        items.append(it)
        index[it["id"]] = it
        out.add_case(a, nontrivial=True)
        stats["boot_rows"] += 1
        stats["boot_out"][r.get("out", "probe:" + str(r.get("r")))] = stats["boot_out"].get(r.get("out", "probe:" + str(r.get("r"))), 0) + 1
        if r == model:
            stats["boot_s2c_equal"] += 1
        else:
            out.drift.append("S2C ActorBoot: input %s: model %s, code %s" % (a, model, r))
    v = tracecheck.validate(SPEC, "TraceActorBoot", "TraceActorBoot.cfg", items, name="xabboottrace", timeout=280)
    out.states += v.n_events
    out.transitions += v.n_events
    bad = set(v.l2) | {tid for tid, fails in v.l1.items() if any(c not in BOOT_PINNED for _, cl in fails for c in cl)}
    out.traces_validated += len(items) - len(bad)
    for tid, fails in sorted(v.l1.items()):
        it = index[tid]
        clauses = sorted({c for _, cl in fails for c in cl})
        for c in clauses:
            if c in BOOT_PINNED:
                rec = out.extra.setdefault("pinned_behaviour_observed", {}).setdefault(c, {"runs": 0, "switch": BOOT_PINNED[c][0], "what": BOOT_PINNED[c][1], "size": 0, "example": it["a"]})
                rec["runs"] += 1
        new = [c for c in clauses if c not in BOOT_PINNED]
        if new and len(out.violations) < 20:
            out.violations.append(Violation("+".join(new), it["a"], {"module": "ActorBoot", "clauses": new}, "input %s -> %s" % (it["a"], it["r"])))
    for tid in sorted(v.l2)[:15]:
        it = index[tid]
        out.drift.append("ActorBoot: input %s -> %s is not what ActorBoot.tla says (code as it is)" % (it["a"], it["r"]))
    stats["l2_rejected"] += len(v.l2)
    out.sample({"source": "decision table", "input": items[len(items) // 2]["a"], "result": items[len(items) // 2]["r"]})


# ---------------------------------------------------------------------------------------------------
# part 3: esrally/rallyd.py
ROBS0 = {
    "nprobe": 0, "firstprobe": "none", "lastprobe": "none", "njoin": 0, "joinok": False, "nshut": 0, "shutok": False, "nsleep": 0, "ndots": 0,
    "shutting": 0, "okmsg": 0, "okprobe": "none", "couldnot": 0, "notrunning": 0, "startprobe": "none", "nnet": 0, "netok": False, "started": 0,
    "pid": 0, "allterm": 0, "nwait": 0, "lastwait": "none", "printed": "none", "result": "none",
}  # fmt: skip
NODE_IP, COORD_IP = "10.0.0.1", "10.0.0.2"
ENV_CALLS = {"probe": ("T", "F"), "boot:join": ("ok", "exc", "KI"), "boot:net": ("ok", "sse", "exc", "KI"), "shutdown": ("ok", "exc", "KI"), "sleep": ("ok", "KI"), "wait": ("T", "F")}


class _Divergence(Exception):
    pass


def execute_rallyd(case):
    """Runs the real rallyd.main() for case = {scn: {cmd, docker}, script: [[call, outcome], ...] | None, seed}; every call of the process
    against its environment is answered from the script (or, script None, by a seeded random choice) and recorded as one event."""
    import sys
    import types
    from unittest import mock

    _classes()
    from esrally import exceptions, rallyd
    from esrally.utils import console

    scn = case["scn"]
    script = list(case["script"]) if case.get("script") is not None else None
    rnd = random.Random(case.get("seed", 0))
    st = dict(ROBS0)
    events, used = [], []

    def emit(a, r, x=""):
        events.append({"a": a, "r": r, "x": x, "st": dict(st)})

    def answer(call):
        if script is not None:
            if not script:
                raise _Divergence("the code calls %s but the script is used up" % call)
            c, r = script.pop(0)
            if c != call.split(":")[0]:
                raise _Divergence("the code calls %s where the model expects %s" % (call, c))
        else:
            opts = ENV_CALLS[call]
            if call == "probe" and st["ndots"] >= 4:
                opts = ("F",)
            if call == "wait" and st["nwait"] >= 3:
                opts = ("F",)
            r = rnd.choice(opts)
        used.append([call.split(":")[0], r])
        return r

    def throw(r):
        if r == "KI":
            raise KeyboardInterrupt()
        if r == "exc":
            raise RuntimeError("verif: scripted failure")
        if r == "sse":
            raise exceptions.SystemSetupError("coordinator IP is required")

    class System:
        def shutdown(self):
            r = answer("shutdown")
            st["nshut"] += 1
            st["shutok"] = st["shutok"] or r == "ok"
            emit("shutdown", r)
            throw(r)

    def probe(*args, **kw):
        caller = sys._getframe(1).f_code.co_name  # pylint: disable=protected-access
        r = answer("probe")
        st["nprobe"] += 1
        st["lastprobe"] = r
        if st["firstprobe"] == "none":
            st["firstprobe"] = r
        if caller == "start":
            st["startprobe"] = r
        emit("probe", r if not args and not kw else "args")
        return r == "T"

    def bootstrap(*args, **kw):
        x = "join" if not args and kw == {"try_join": True} else "net" if not args and kw == {"local_ip": NODE_IP, "coordinator_ip": COORD_IP} else "other:%s%s" % (args, kw)
        r = answer("boot:" + ("join" if x == "join" else "net"))
        if x == "join":
            st["njoin"] += 1
            st["joinok"] = st["joinok"] or r == "ok"
        else:
            st["nnet"] += 1
            st["netok"] = st["netok"] or r == "ok"
        emit("boot", r, x)
        throw(r)
        return System()

    def sleep(secs):
        r = answer("sleep")
        st["nsleep"] += 1
        emit("sleep", r if secs == 1 else "secs:%s" % secs)
        throw(r)

    def wait(callback=None, list_callback=None):
        r = answer("wait")
        st["nwait"] += 1
        st["lastwait"] = r
        emit("wait", r if callable(callback) and callable(list_callback) else "nocallbacks")
        return r == "T"

    def info(msg, *args, **kw):
        m = str(msg)
        if m == "Shutting down actor system." and kw == {"end": "", "flush": True}:
            k2 = "shutting"
        elif m == "Successfully started actor system on node [%s] with coordinator node IP [%s]." % (NODE_IP, COORD_IP):
            k2 = "started"
        elif m.startswith("Running with PID: "):
            k2 = "pid"
        elif m == "All actors terminated, exiting.":
            k2 = "allterm"
        else:
            k2 = "other"
        if k2 in st:
            st[k2] += 1
        emit("info", k2 if k2 != "other" else "other:" + m[:60])

    def println(msg, *args, **kw):
        m = str(msg)
        k2 = {".": "dot", " [OK]": "ok", "Running": "Running", "Stopped": "Stopped"}.get(m, "other:" + m[:60])
        if k2 == "dot":
            st["ndots"] += 1
        elif k2 == "ok":
            st["okmsg"] += 1
            st["okprobe"] = st["lastprobe"]
        elif k2 in ("Running", "Stopped"):
            st["printed"] = k2
        emit("println", k2)

    def error(msg, *args, **kw):
        m = str(msg)
        k2 = {"Could not shut down actor system.": "couldnot", "Could not shut down actor system: Actor system is not running.": "notrunning"}.get(m, "other:" + m[:60])
        if k2 in st:
            st[k2] += 1
        emit("error", k2)

    argv = ["esrallyd", scn["cmd"]] + (["--node-ip", NODE_IP, "--coordinator-ip", COORD_IP] if scn["cmd"] in ("start", "restart") else [])
    fake_actor = types.SimpleNamespace(actor_system_already_running=probe, bootstrap_actor_system=bootstrap)
    fake_log = types.SimpleNamespace(install_default_log_config=lambda: None, configure_logging=lambda: None)
    fake_logging = types.SimpleNamespace(basicConfig=lambda **kw: None, ERROR=40)
    init = {"init": dict(st)}
    with mock.patch.object(rallyd, "actor", fake_actor), mock.patch.object(rallyd, "log", fake_log), mock.patch.object(rallyd, "logging", fake_logging), mock.patch.object(
        rallyd, "time", types.SimpleNamespace(sleep=sleep)
    ), mock.patch.object(rallyd, "process", types.SimpleNamespace(wait_for_child_processes=wait)), mock.patch.object(rallyd, "check_python_version", lambda: None), mock.patch.object(
        rallyd, "version", types.SimpleNamespace(version=lambda: "0.0.0-verif")
    ), mock.patch.object(console, "info", info), mock.patch.object(console, "println", println), mock.patch.object(console, "error", error), mock.patch.object(
        console, "init", lambda **kw: None
    ), mock.patch.object(console, "RALLY_RUNNING_IN_DOCKER", scn["docker"]), mock.patch.object(sys, "argv", argv):
        try:
            rallyd.main()
            res = "ret"
        except _Divergence:
            raise
        except SystemExit as ex:
            res = "exit:%s" % (ex.code,)
        except KeyboardInterrupt:
            res = "raise:KI"
        except exceptions.SystemSetupError:
            res = "raise:sse"
        except exceptions.RallyError as ex:
            res = "raise:RallyError" if type(ex) is exceptions.RallyError and "already running" in str(ex.message if hasattr(ex, "message") else ex) else "raise:RallyError?"
        except Exception:  # pylint: disable=broad-except
            res = "raise:exc"
    st["result"] = res
    emit("end", res)
    if script:
        raise _Divergence("the run ended (%s) with %s left in the script" % (res, script))
    return {"scn": scn, "init": init["init"], "events": events}, used


def rallyd_cases_from_tlc(ctx, out, num, seed):
    wd = tlc.prepare_workdir(SPEC, "xabrdsim")
    os.makedirs(os.path.join(wd, "sim"))
    res = tlc.run_tlc(wd, "MC_Rallyd", "Rallyd.sim.cfg", workers=1, timeout=280, simulate={"num": num, "file": "sim/b"}, depth=60, seed=seed)
    if not res.ok:
        raise tlc.MachineryError("simulation reported a model violation: %s" % res.out[-2000:])
    out.add_tlc(res)
    cases = []
    for fn in sorted(glob.glob(os.path.join(wd, "sim", "b_*"))):
        states = [to_json(x) for x in parse_simulation_file(fn)]
        if len(states) < 2 or states[-1]["s"]["pc"] != "done":
            continue
        evs = [[x["act"]["a"], x["act"]["r"], x["act"]["x"]] for x in states[1:]]
        cases.append({"src": "tlc-simulate", "scn": states[0]["scn"], "script": [[a, r] for a, r, _ in evs if a in ("probe", "boot", "shutdown", "sleep", "wait")], "model_events": evs})
    return cases


RALLYD_CLAUSES_DOC = "StartNeverOnRunning, ShutdownOnlyJoined, OkOnlyWhenGone, OneSecondPerPoll, StopNotRunningExits1, StopErrorsReported, RestartAlwaysAttemptsStart, StatusTruthful, DockerWaitsForChildren, StartOutcome"


def run_rallyd(ctx, out, stats):
    q = ctx.quick
    wd = tlc.prepare_workdir(SPEC, "xabrdmc")
    cfg = "Rallyd.quick.cfg" if q else "Rallyd.thorough.cfg"
    res = tlc.run_tlc(wd, "MC_Rallyd", cfg, workers=2, timeout=280)
    out.add_tlc(res)
    if not res.ok:
        raise tlc.MachineryError("model violates %s in %s: %s" % (res.invariant_violated, cfg, res.out[-1500:]))
    out.note("leg M %s: %d distinct states, depth %d, %.1fs" % (cfg, res.distinct, res.depth, res.wall_s))
    cases = rallyd_cases_from_tlc(ctx, out, 250 if q else 2500, ctx.seed + 3)
    nsim = len(cases)
    rnd = random.Random(ctx.seed + 31)
    for _ in range(250 if q else 3000):
        cases.append({"src": "random", "scn": {"cmd": rnd.choice(["start", "stop", "status", "restart", "restart", "stop"]), "docker": rnd.random() < 0.4}, "script": None, "seed": rnd.randrange(10**9)})
    items, index = [], {}
    for ci, case in enumerate(cases):
        try:
            item, used = execute_rallyd(case)
        except _Divergence as ex:
            out.drift.append("Rallyd r-%d: %s; scn %s, script %s" % (ci, ex, case["scn"], case.get("script")))
            continue
        item["id"] = "r-%d" % ci
        items.append(item)
        replay = {"scn": case["scn"], "script": used}
        index[item["id"]] = (replay, item)
        out.add_case({"rallyd": replay}, nontrivial=len(item["events"]) >= 2)
        stats["rallyd_runs"] += 1
        stats["rallyd_events"] += len(item["events"])
        r = item["events"][-1]["r"]
        stats["rallyd_result"][r] = stats["rallyd_result"].get(r, 0) + 1
        if case.get("model_events") is not None:
            mine = [[e["a"], e["r"], e["x"]] for e in item["events"]]
            if mine == case["model_events"]:
                stats["rallyd_s2c_followed"] += 1
            else:
                n = next((i for i, (a, b) in enumerate(zip(mine, case["model_events"])) if a != b), min(len(mine), len(case["model_events"])))
                out.drift.append("S2C Rallyd %s: the real code leaves the TLC behaviour at event %d: model %s, code %s; scn %s" % (item["id"], n + 1, case["model_events"][n : n + 1], mine[n : n + 1], case["scn"]))
    stats["rallyd_s2c"] = nsim
    v = tracecheck.validate(SPEC, "TraceRallyd", "TraceRallyd.cfg", items, name="xabrdtrace", chunk=2500, timeout=280)
    out.states += v.n_events
    out.transitions += v.n_events
    out.traces_validated += v.accepted(len(items))
    for tid, fails in sorted(v.l1.items()):
        replay, item = index[tid]
        clauses = sorted({c for _, cl in fails for c in cl})
        if len(out.violations) < 20:
            out.violations.append(Violation("+".join(clauses), {"rallyd": replay}, {"module": "Rallyd", "cmd": replay["scn"]["cmd"], "clauses": clauses}, "run %s, event %d; events %s" % (tid, fails[0][0], [[e["a"], e["r"]] for e in item["events"]][:40])))
    for tid, lines in sorted(v.l2.items())[:15]:
        replay, item = index[tid]
        ln = lines[0]
        what = {k2: item["events"][ln - 1][k2] for k2 in ("a", "r", "x")} if 1 <= ln <= len(item["events"]) else ("initial state" if ln == 0 else "end of run (the model has steps left)")
        out.drift.append("Rallyd run %s: event %d (%s) is not a step of Rallyd.tla; scn %s, events %s" % (tid, ln, what, replay["scn"], [[e["a"], e["r"]] for e in item["events"]][: ln + 1][-8:]))
    stats["l2_rejected"] += len(v.l2)
    if items:
        longest = max(items, key=lambda it: len(it["events"]))
        out.sample({"source": "rallyd", "scn": longest["scn"], "events": [[e["a"], e["r"]] for e in longest["events"]]})


def run(ctx, out):
    out.rule = (
        "case = scenario (children, None placeholders, status guard of Go(2), failing callbacks) + sequence of deliveries to the real RallyActor "
        "subclass; or one row of a decision table (is_current_status_expected, bootstrap_actor_system, actor_system_already_running); or one "
        "scripted run of a rallyd command; distinct by hash of that input; non-trivial = at least 2 events"
    )
    out.assumptions = [
        "the actor runs under a fake _myRef (sends are recorded, nothing is delivered by Thespian); deliveries are made by the harness one at a time",
        "children are played by the harness; Thespian's own retry / PoisonMessage behaviour is specified in specs/ActorSem and only asserted absent here (NoEscape)",
        "MechanicActor's own manipulation of self.children (placeholders replaced by senders) is part of specs/Mechanic, not of this module",
    ]
    stats = {"runs": 0, "events": 0, "fired": 0, "mismatch_failures": 0, "s2c_followed": 0, "l2_rejected": 0, "boot_rows": 0, "boot_out": {}, "boot_s2c_equal": 0,
             "rallyd_runs": 0, "rallyd_events": 0, "rallyd_result": {}, "rallyd_s2c_followed": 0}  # fmt: skip
    run_proto(ctx, out, stats)
    run_boot(ctx, out, stats)
    run_rallyd(ctx, out, stats)
    out.extra["runs"] = stats
    out.note(
        "part 1: %d runs of the real RallyActor subclass (%d TLC behaviours, %d followed state by state), %d deliveries, %d transitions fired, %d status mismatches "
        "reported as BenchmarkFailure, %d rows of is_current_status_expected; L2 rejected %d"
        % (stats["runs"], stats["s2c"], stats["s2c_followed"], stats["events"], stats["fired"], stats["mismatch_failures"], stats["ise"], stats["l2_rejected"])
    )
    out.note("part 2: %d rows of the decision tables executed on the real functions, %d equal to the TLC state dump; outcomes %s" % (stats["boot_rows"], stats["boot_s2c_equal"], dict(sorted(stats["boot_out"].items()))))
    out.note("part 3: %d runs of the real rallyd.main() (%d complete TLC behaviours, %d reproduced event by event), %d events; results %s" % (stats["rallyd_runs"], stats["rallyd_s2c"], stats["rallyd_s2c_followed"], stats["rallyd_events"], dict(sorted(stats["rallyd_result"].items()))))
    for c, rec in sorted(out.extra.get("pinned_behaviour_observed", {}).items()):
        rec.pop("size", None)
        out.note("pinned behaviour of /repo (strong clause %s fails in %d runs; model switch %s = FALSE): %s; smallest example %s" % (c, rec["runs"], rec["switch"], rec["what"], str(rec["example"])[:500]))
    if out.drift:
        out.note("MODEL-DRIFT in %d places, first: %s" % (len(out.drift), out.drift[0][:700]))
    for v in out.violations[:5]:
        out.note("L1 FAILED %s: %s" % (v.clause, v.detail[:700]))
