"""Extra module ParamSources: the NON-bulk parameter sources of esrally/track/params.py and their registry (specs/ParamSources; the bulk
source is property C03 / specs/BulkPartition and not redone).  What does the runner of an operation receive for (track, operation
definition)?  create-index / delete-index / create- / delete-data-stream, the template family (legacy, composable, component), search (all
four operation types), force-merge, downsample, sleep, the default pass-through source and sources registered by name (function -> Delegating-
ParamSource, class; legacy signatures).  docs/track.rst (operation reference) + docs/advanced.rst are the documentation; the clauses (TLC +
L1 on every run of the REAL sources): ErrorsExplicitW / ErrorNamesProperty / NoTargetIsError / NoSpuriousError (InvalidSyntax that quotes the property, exactly when
neither operation nor track gives a target), AllWhenAbsent, OnlySelected, TrackOrder (exactly the selected items, track order, explicit names verbatim), DefaultWhenAbsent,
GivenPreservedW (documented defaults iff absent: only-if-exists false, cache false, poll-period 0 ... survive), KeysExact, SettingsMerged
(operation wins key-wise, body.settings resp. body.template.settings, rest kept), ExplicitVerbatim, TrackTemplateFacts, PatternRequired,
TargetResolved, Repeatable (params() twice / two partitions), InfiniteNoProgress, NamedSourceUsed, Registration.  /repo does not meet eight
strong forms: each is pinned behind a model switch (FALSE = /repo) with a self-test cfg and shown as a note, never as a failure: SelectedEmitted,
EmptyTargetNotAll, FalsyPreserved, CommonPropsPassed, SiblingsKept, DefinitionsUnchanged, FreshResult, ErrorsExplicit.

Leg M   : TLC on ParamSources.quick.cfg (code as it is, weak clauses; state dump = test table) / thorough, ParamSources.intended.cfg (all
          switches TRUE: weak AND strong clauses), 8 pinned self-tests (one switch FALSE -> the named strong clause is violated in the model).
Leg S2C : every TLC state = real track.Track + track.Operation / Task resolved through loader.operation_parameters (the REAL registry),
          partition(i, 2), params() twice, then the driver's ScheduleHandle.params_with_operation_type and Runner._transport_request_params on
          the first result and params() again; registration of functions / lambdas / classes / instances / partials / methods.
Leg C2S : those runs and seeded random ones (other names, 0-3 items, random nested settings, other scalars) are projected and validated by
          TLC against TraceParamSources.tla (L1 all clauses, L2 = the transcription Code); a failing strong clause counts as pinned only if
          the transcription fails it on the same input; drifting runs are re-validated with one switch flipped; corrupted copies of
          recordings check the binding.
"""
import copy
import functools
import json
import os
import random
import types

from .. import tlc, tracecheck
from ..core import Violation
from ..tlaparse import parse_dump, to_json

SPEC = "ParamSources"
WORKERS = 4
SC_KEYS = ["request-params", "only-if-exists", "delete-matching-indices", "index-pattern", "type", "cache", "detailed-results", "pages",
           "results-per-page", "response-compression-enabled", "with-point-in-time-from", "assertions", "body", "max-num-segments", "mode",
           "poll-period", "request-timeout", "headers", "opaque-id", "retries", "duration", "fixed-interval", "target-index", "via", "kw"]  # fmt: skip
SEARCH_TYPES = ("search", "scroll-search", "paginated-search", "composite-agg")
NAME_ONLY = ("delete-index", "create-data-stream", "delete-data-stream", "delete-component-template")
NAME_BODY = ("create-index", "create-index-template", "create-composable-template", "create-component-template")
NAME_DMI_PAT = ("delete-index-template", "delete-composable-template")
ITEM_FAMS = NAME_ONLY + NAME_BODY + NAME_DMI_PAT
# runners that hand their parameters to Runner._transport_request_params (Query, RawRequest, RestoreSnapshot, Downsample, Esql)
POPPING = SEARCH_TYPES + ("raw-request", "restore-snapshot", "downsample", "esql")
VOCAB = ["index", "data-stream", "template", "body", "index-pattern", "delete-matching-indices", "type", "detailed-results", "duration", "param-source", "settings"]
SRC_PREFIX = "verif-xparams-"
NAMED_KINDS = ("fn", "legacyfn", "cls", "legacycls")
SWITCHES = ["RejectUnknownTarget", "RejectEmptyTarget", "KeepFalsy", "TemplatesPassThrough", "DeepSettings", "MergeIntoCopy", "FreshParams", "UnknownSourceIsRallyError"]
ABSENT_T = {"k": "absent", "s": "", "l": []}
NO_BODY = {"k": "none", "ps": []}
L2_PARTS = {1: "error", 2: "items", 3: "target", 4: "scalar parameters", 5: "key set", 6: "repeatability flags", 7: "track afterwards", 0: "not evaluable"}
# strong L1 clauses which the code as it is does not meet: clause -> (model switch that repairs it, what happens)
PINNED = {
    "SelectedEmitted": ("RejectUnknownTarget", "a name given by the operation that the track section does not declare is silently dropped: create-index / create-data-stream / create-index-template / "
                        "delete-*-template with `index` / `data-stream` / `template` emit nothing for it as soon as the track declares ANY item (the documented 'one specific index defined by this operation' mode only exists for tracks without indices)"),
    "EmptyTargetNotAll": ("RejectEmptyTarget", "an empty target means EVERYTHING: `index: []` (create-index, delete-index, data streams) / `template: \"\"` select all items of the track; search / force-merge with `index: \"\"` use the track default"),
    "FalsyPreserved": ("KeepFalsy", "search: results-per-page: 0 / pages: 0 / with-point-in-time-from: \"\" are dropped by `if x:` (results-per-page 0 then means the Elasticsearch default of 10 hits)"),
    "CommonPropsPassed": ("TemplatesPassThrough", "create-composable-template / create-component-template / delete-component-template return only templates / request-params (/ only-if-exists): retries, retry-*, request-timeout, headers, opaque-id "
                          "of the operation never reach the (Retry-wrapped) runner although the operations are documented as retryable"),
    "SiblingsKept": ("DeepSettings", "create-index / create-index-template merge `settings` with dict.update: an operation setting with a nested value replaces the whole nested object of the track's definition (sibling settings are lost); "
                     "the composable / component template sources merge recursively"),
    "DefinitionsUnchanged": ("MergeIntoCopy", "`settings` of the operation are merged INTO the track's own index / template definition (every later parameter source built from the same track sees them); downsample writes `index` into the operation's parameters"),
    "FreshResult": ("FreshParams", "SearchParamSource and the default ParamSource return their own dict from every params(): Runner._transport_request_params pops request-timeout / headers / opaque-id from it, so only the FIRST request of a client carries them"),
    "ErrorsExplicit": ("UnknownSourceIsRallyError", "an operation with an unknown `param-source` name fails with a bare KeyError"),
}


class _Unobservable(Exception):
    pass


# ===================================================================================================
# tokens and flattened dicts
# ===================================================================================================
def enc(v):
    if v is None:
        return "null"
    if v is True:
        return "true"
    if v is False:
        return "false"
    if isinstance(v, int):
        return "i:%d" % v
    if isinstance(v, float):
        return "f:%r" % v
    if isinstance(v, str):
        return "s:" + v
    if isinstance(v, dict):
        return "{" + ",".join("%s=%s" % (k, enc(v[k])) for k in sorted(v, key=str)) + "}"
    if isinstance(v, (list, tuple)):
        return "[" + ",".join(enc(x) for x in v) + "]"
    return "?" + type(v).__name__


def _split(s):
    parts, depth, cur = [], 0, ""
    for ch in s:
        if ch in "{[":
            depth += 1
        elif ch in "}]":
            depth -= 1
        if ch == "," and depth == 0:
            parts.append(cur)
            cur = ""
        else:
            cur += ch
    if cur or parts:
        parts.append(cur)
    return parts


def dec(tok):
    """inverse of enc for the tokens of the TLC alphabets (no ',', '=', brackets inside strings)"""
    if tok == "null":
        return None
    if tok == "true":
        return True
    if tok == "false":
        return False
    if tok.startswith("i:"):
        return int(tok[2:])
    if tok.startswith("f:"):
        return float(tok[2:])
    if tok.startswith("s:"):
        return tok[2:]
    if tok.startswith("{") and tok.endswith("}"):
        res = {}
        for part in _split(tok[1:-1]):
            k, _, v = part.partition("=")
            res[k] = dec(v)
        return res
    if tok.startswith("[") and tok.endswith("]"):
        return [dec(p) for p in _split(tok[1:-1])]
    raise tlc.MachineryError("cannot decode token %r" % tok)


def flatten(d, pre=()):
    out = []
    for k, v in d.items():
        path = pre + (str(k),)
        if isinstance(v, dict):
            if v:
                out.extend(flatten(v, path))
            else:
                out.append([list(path), "{}"])
        else:
            out.append([list(path), v if isinstance(v, str) else enc(v)])
    return sorted(out)


def unflatten(ps):
    res = {}
    for path, val in ps:
        cur = res
        for k in path[:-1]:
            cur = cur.setdefault(k, {})
        cur[path[-1]] = {} if val == "{}" else val
    return res


def body_of(v):
    if v is None:
        return dict(NO_BODY)
    if isinstance(v, dict):
        return {"k": "dict", "ps": flatten(v)}
    return {"k": "other", "ps": []}


def target_of(v):
    if v is None:
        return {"k": "null", "s": "", "l": []}
    if isinstance(v, str):
        return {"k": "str", "s": v, "l": []}
    if isinstance(v, (list, tuple)) and all(isinstance(x, str) for x in v):
        return {"k": "list", "s": "", "l": list(v)}
    return {"k": "other", "s": enc(v), "l": []}


def value_of_target(t):
    return t["s"] if t["k"] == "str" else list(t["l"]) if t["k"] == "list" else None


def tgt_key(op_type):
    if op_type in ("create-data-stream", "delete-data-stream"):
        return "data-stream"
    if op_type.endswith("-template"):
        return "template"
    if op_type == "downsample":
        return "source-index"
    return "index"


# ===================================================================================================
# the real code
# ===================================================================================================
_setup_done = False


def _setup():
    global _setup_done
    if _setup_done:
        return
    from .. import clientloop

    clientloop.ensure_rally_home()
    _setup_done = True


def build_track(tj):
    from esrally.track import track

    def content(b):
        return unflatten(b["ps"]) if b["k"] == "dict" else None

    return track.Track(
        name="verif-xparams",
        indices=[track.Index(name=i["name"], body=content(i["body"])) for i in tj["idx"]],
        data_streams=[track.DataStream(name=i["name"]) for i in tj["ds"]],
        templates=[track.IndexTemplate(i["name"], dec(i["pat"]), content(i["body"]), dec(i["dmi"])) for i in tj["tpl"]],
        composable_templates=[track.IndexTemplate(i["name"], dec(i["pat"]), content(i["body"]), dec(i["dmi"])) for i in tj["cpt"]],
        component_templates=[track.ComponentTemplate(i["name"], content(i["body"])) for i in tj["cmp"]],
    )


def project_track(t):
    def plain(name, body):
        return {"name": str(name), "body": body, "dmi": "-", "pat": "-"}

    return {
        "idx": [plain(i.name, body_of(i.body)) for i in t.indices],
        "ds": [plain(i.name, dict(NO_BODY)) for i in t.data_streams],
        "tpl": [{"name": str(i.name), "body": body_of(i.content), "dmi": enc(i.delete_matching_indices), "pat": enc(i.pattern)} for i in t.templates],
        "cpt": [{"name": str(i.name), "body": body_of(i.content), "dmi": enc(i.delete_matching_indices), "pat": enc(i.pattern)} for i in t.composable_templates],
        "cmp": [plain(i.name, body_of(i.content)) for i in t.component_templates],
    }


def build_params(oj):
    """operation definition as the track loader hands it over: the whole JSON object of the operation"""
    p = {"name": "verif-op", "operation-type": oj["type"], "include-in-reporting": True}
    if oj["src"] != "absent":
        p["param-source"] = SRC_PREFIX + oj["src"]
    if oj["tgt"]["k"] != "absent":
        p[tgt_key(oj["type"])] = value_of_target(oj["tgt"])
    if oj["alt"]["k"] != "absent":
        p["data-stream"] = value_of_target(oj["alt"])
    if oj["settings"]["k"] != "none":
        p["settings"] = unflatten(oj["settings"]["ps"])
    if oj["body"]["k"] != "none":
        p["body"] = unflatten(oj["body"]["ps"])
    for k in SC_KEYS:
        tok = oj["sc"][k]
        if tok != "absent":
            p[k] = dec(tok)
    return p


def _named_sources(run):
    """parameter sources as a track plugin registers them (docs/advanced.rst), the legacy signatures of Rally's own tests included"""

    def via(kind, trk, params):
        return kind if trk is run["track"] and params is run["params"] else kind + "-badargs"

    def fn(track, params, **kwargs):
        return dict(params, via=via("fn", track, params), kw=sorted(kwargs))

    def legacyfn(indices, params):
        return dict(params, via=via("legacyfn", indices, params), kw=[])

    class Cls:
        def __init__(self, track, params, **kwargs):
            self._via, self._params, self._kw = via("cls", track, params), params, sorted(kwargs)
            self.infinite = True

        def partition(self, partition_index, total_partitions):
            return self

        def params(self):
            return dict(self._params, via=self._via, kw=self._kw)

    class LegacyCls:
        def __init__(self, indices=None, params=None):
            self._via, self._params = via("legacycls", indices, params), params
            self.infinite = True

        def partition(self, partition_index, total_partitions):
            return self

        def params(self):
            return dict(self._params, via=self._via, kw=[])

    return {"fn": fn, "legacyfn": legacyfn, "cls": Cls, "legacycls": LegacyCls}


def _fresh_norm(p):
    """what a second request sees, up to what cannot matter: None values, the operation-type the driver adds, the x-opaque-id header the
    runner derives from opaque-id"""
    res = {}
    for k, v in p.items():
        if v is None or k == "operation-type":
            continue
        if k == "headers" and isinstance(v, dict):
            v = {a: b for a, b in v.items() if str(a).lower() != "x-opaque-id"}
        res[k] = v
    return res


def project_result(oj, p):
    t = oj["type"]
    named = oj["src"] != "absent"
    items = []
    key = "indices" if t in ("create-index", "delete-index") else "data-streams" if t in ("create-data-stream", "delete-data-stream") else "templates"
    if t in ITEM_FAMS and not named:
        raw = p.get(key)
        if not isinstance(raw, (list, tuple)):
            raise _Unobservable("%s is %r" % (key, raw))
        for e in raw:
            if t in NAME_ONLY and isinstance(e, str):
                items.append({"name": e, "body": dict(NO_BODY), "dmi": "-", "pat": "-"})
            elif t in NAME_BODY and isinstance(e, (tuple, list)) and len(e) == 2 and isinstance(e[0], str):
                items.append({"name": e[0], "body": body_of(e[1]), "dmi": "-", "pat": "-"})
            elif t in NAME_DMI_PAT and isinstance(e, (tuple, list)) and len(e) == 3 and isinstance(e[0], str):
                items.append({"name": e[0], "body": dict(NO_BODY), "dmi": enc(e[1]), "pat": enc(e[2])})
            else:
                raise _Unobservable("entry %r of %s" % (e, key))
    if named or not (t in SEARCH_TYPES or t in ("force-merge", "downsample")):
        target = dict(ABSENT_T)
    else:
        target = target_of(p.get("source-index" if t == "downsample" else "index"))
    structural_body = oj["body"]["k"] != "none"
    sc = {}
    for k in SC_KEYS:
        if k not in p or (k == "body" and structural_body):
            sc[k] = "absent"
        else:
            sc[k] = enc(p[k])
    return items, target, sc, sorted(str(k) for k in p)


def execute(tj, oj):
    """one (track, operation) through the real registry and parameter source -> the `out` record of TraceParamSources.tla"""
    _setup()
    from esrally import exceptions
    from esrally.driver import driver, runner
    from esrally.track import loader
    from esrally.track import params as P
    from esrally.track import track

    t = build_track(tj)
    pdict = build_params(oj)
    op_before = copy.deepcopy(pdict)
    run = {"track": t, "params": pdict}
    registered = []
    out = {"err": "-", "named": [], "items": [], "target": dict(ABSENT_T), "sc": {k: "absent" for k in SC_KEYS}, "keys": [], "same": True, "fresh": True,
           "opsame": True, "inf": True, "pc": False}  # fmt: skip
    info = {"msg": ""}
    try:
        if oj["src"] in NAMED_KINDS:
            for kind, obj in _named_sources(run).items():
                P.register_param_source_for_name(SRC_PREFIX + kind, obj)
                registered.append(SRC_PREFIX + kind)
        operation = track.Operation(name="verif-op", operation_type=oj["type"], params=pdict, param_source=pdict.get("param-source"))
        task = track.Task(name="verif-task", operation=operation, clients=2)
        try:
            source = loader.operation_parameters(t, task)
            parts = [source.partition(i, 2) for i in range(2)]
            first = parts[0].params()
            s1 = copy.deepcopy(first)
            s1b = copy.deepcopy(parts[0].params())
            s2 = copy.deepcopy(parts[1].params())
            if not isinstance(first, dict):
                raise _Unobservable("params() returned %r" % type(first).__name__)
            out["same"] = s1 == s1b == s2
            out["opsame"] = pdict == op_before
            out["inf"] = bool(getattr(parts[0], "infinite", False))
            out["pc"] = hasattr(parts[0], "percent_completed")
            out["items"], out["target"], out["sc"], out["keys"] = project_result(oj, s1)
            # what happens to a result before the next one is asked for: the driver adds the operation type (real method on a stand-in for
            # the schedule handle), the runners in POPPING split the transport parameters off (real static method)
            handle = types.SimpleNamespace(params=parts[0], operation_type=oj["type"])
            handed = driver.ScheduleHandle.params_with_operation_type(handle)
            if oj["type"] in POPPING:
                runner.Runner._transport_request_params(handed)
            again = parts[0].params()
            out["fresh"] = _fresh_norm(again) == _fresh_norm(s1)
        except exceptions.InvalidSyntax as ex:
            out["err"] = "InvalidSyntax"
            info["msg"] = str(ex)
            out["named"] = sorted(v for v in VOCAB if "'%s'" % v in info["msg"] or "[%s]" % v in info["msg"])
            out["opsame"] = pdict == op_before
        except (tlc.MachineryError, _Unobservable):
            raise
        except Exception as ex:  # pylint: disable=broad-except
            out["err"] = type(ex).__name__
            info["msg"] = str(ex)[:200]
            out["opsame"] = pdict == op_before
    finally:
        for name in registered:
            P._unregister_param_source_for_name(name)
    out["after"] = project_track(t)
    return out, info


REG_KINDS = ("function", "lambda", "class", "instance", "partial", "method", "builtin", "string")


def registration_items():
    """register_param_source_for_name / register_param_source_for_operation with objects of every kind; a class registered for an
    operation type is instantiated with (track, params, operation_name=<task name>)"""
    _setup()
    from esrally import exceptions
    from esrally.track import params as P
    from esrally.track import track

    def a_function(trk, params, **kwargs):
        return {}

    class AClass:
        seen = []

        def __init__(self, trk, params, **kwargs):
            AClass.seen.append(sorted(kwargs.items()))

        def a_method(self, trk, params, **kwargs):
            return {}

        def partition(self, i, n):
            return self

        def params(self):
            return {}

    objs = {"function": a_function, "lambda": lambda trk, params, **kw: {}, "class": AClass, "instance": AClass(None, None), "partial": functools.partial(a_function, None),
            "method": AClass(None, None).a_method, "builtin": len, "string": "a_function"}  # fmt: skip
    items = []
    by_op = getattr(P, "__PARAM_SOURCES_BY_OP", None)
    for what in REG_KINDS:
        name = SRC_PREFIX + "reg-" + what
        try:
            P.register_param_source_for_name(name, objs[what])
            res = "ok"
            P._unregister_param_source_for_name(name)
        except exceptions.RallyAssertionError as ex:
            res = "RallyAssertionError" if "must be either a function or a class" in str(ex) else "RallyAssertionError?"
        except Exception as ex:  # pylint: disable=broad-except
            res = type(ex).__name__
        items.append({"kind": "reg", "id": "reg-name-" + what, "what": what, "res": res})
        if isinstance(by_op, dict):
            key = track.OperationType.Sleep.to_hyphenated_string()
            old = by_op.get(key)
            try:
                P.register_param_source_for_operation(track.OperationType.Sleep, objs[what])
                res = "ok"
                if what == "class":
                    AClass.seen.clear()
                    src = P.param_source_for_operation("sleep", track.Track(name="t"), {"duration": 1}, "the-task")
                    if not isinstance(src, AClass) or AClass.seen != [[("operation_name", "the-task")]]:
                        res = "not-used"
            except exceptions.RallyAssertionError:
                res = "RallyAssertionError"
            except Exception as ex:  # pylint: disable=broad-except
                res = type(ex).__name__
            finally:
                if old is not None:
                    by_op[key] = old
            items.append({"kind": "reg", "id": "reg-op-" + what, "what": what, "res": res})
    return items


# ===================================================================================================
# cases
# ===================================================================================================
def _sc(**kw):
    sc = {k: "absent" for k in SC_KEYS}
    for k, v in kw.items():
        sc[k.replace("_", "-")] = v
    return sc


def _rand_settings(rnd, depth=0):
    keys = ["index.number_of_shards", "index", "refresh_interval", "analysis", "x", "codec"]
    d = {}
    for k in rnd.sample(keys, rnd.randint(1, 3)):
        if depth < 2 and rnd.random() < 0.35:
            d[k] = _rand_settings(rnd, depth + 1)
        else:
            d[k] = rnd.choice(["1", "5s", "true", "best_compression", "o%d" % depth])
    return d


def random_case(rnd):
    """wider alphabets than the TLC configurations: other names, 0-3 items, random nested settings, other scalar values"""
    pool = ["logs-1", "logs-2", "metrics", "a.b"]
    unknown = ["other", "logs-*", "LOGS-1"]
    fam = rnd.choice(list(ITEM_FAMS) * 3 + list(SEARCH_TYPES) + ["search", "force-merge", "force-merge", "downsample", "sleep", "raw-request", "verif-custom-op", "put-pipeline"])
    n = rnd.choice([0, 1, 1, 2, 2, 3])
    names = rnd.sample(pool, n)

    def plain(name, body):
        return {"name": name, "body": body, "dmi": "-", "pat": "-"}

    def settings_body(where, extra):
        d = dict(extra)
        if rnd.random() < 0.7:
            cur = d
            for k in where[:-1]:
                cur = cur.setdefault(k, {})
            cur[where[-1]] = _rand_settings(rnd)
        return d

    tj = {"idx": [], "ds": [], "tpl": [], "cpt": [], "cmp": []}
    sec = None
    if fam in ("create-index", "delete-index"):
        tj["idx"] = [plain(x, body_of(rnd.choice([{}, settings_body(("settings",), {"mappings": {"properties": {"f": "keyword"}}})]))) for x in names]
        sec = "idx"
    elif fam in ("create-data-stream", "delete-data-stream"):
        tj["ds"] = [plain(x, dict(NO_BODY)) for x in names]
        sec = "ds"
    elif fam in ("create-index-template", "delete-index-template"):
        tj["tpl"] = [{"name": x, "body": body_of(settings_body(("settings",), {"index_patterns": [x + "-*"]})), "dmi": enc(rnd.random() < 0.5), "pat": enc(x + "-*")} for x in names]
        sec = "tpl"
    elif fam in ("create-composable-template", "delete-composable-template"):
        tj["cpt"] = [{"name": x, "body": body_of(settings_body(("template", "settings"), rnd.choice([{"index_patterns": [x + "-*"]}, {"index_patterns": [x + "-*"], "template": {"mappings": {"p": "q"}}}]))),
                      "dmi": enc(rnd.random() < 0.5), "pat": enc(x + "-*")} for x in names]  # fmt: skip
        sec = "cpt"
    elif fam in ("create-component-template", "delete-component-template"):
        tj["cmp"] = [plain(x, body_of(settings_body(("template", "settings"), {"template": {"mappings": {"p": "q"}}}))) for x in names]
        sec = "cmp"
    else:
        if rnd.random() < 0.5:
            tj["idx"] = [plain(x, body_of({"mappings": {"p": "q"}})) for x in names]
        else:
            tj["ds"] = [plain(x, dict(NO_BODY)) for x in names]

    def a_name():
        return rnd.choice(names + unknown if names else unknown)

    listy = fam in ("create-index", "delete-index", "create-data-stream", "delete-data-stream", "force-merge") or fam in SEARCH_TYPES
    r = rnd.random()
    if r < 0.3:
        tgt = dict(ABSENT_T)
    elif r < 0.4:
        tgt = target_of("" if not listy or rnd.random() < 0.5 else [])
    elif r < 0.75 or not listy:
        tgt = target_of(a_name())
    else:
        tgt = target_of([a_name() for _ in range(rnd.randint(1, 3))])
    alt = dict(ABSENT_T)
    if (fam in SEARCH_TYPES or fam in ("force-merge", "downsample")) and rnd.random() < 0.3:
        alt = target_of(rnd.choice(["", "ds-9", "logs-1"]))
    if fam == "downsample" and tgt["k"] == "list":
        tgt = target_of(a_name())
    settings = dict(NO_BODY)
    if fam in NAME_BODY and rnd.random() < 0.6:
        settings = body_of(rnd.choice([{}, _rand_settings(rnd), _rand_settings(rnd)]))
    body = dict(NO_BODY)
    if fam in NAME_BODY and rnd.random() < 0.4:
        body = body_of({"mappings": {"own": "1"}, "settings": {"own": "2"}})
    elif fam in ("raw-request", "verif-custom-op", "put-pipeline") and rnd.random() < 0.5:
        body = body_of({"description": "d"})

    def pick(*toks):
        return rnd.choice(("absent",) + toks)

    sc = _sc()
    sc["request-params"] = pick("{}", "{wait_for_active_shards=s:true}", "{timeout=s:1m,master_timeout=s:2m}")
    sc["retries"] = pick("i:0", "i:2", "i:10")
    if rnd.random() < 0.4:
        sc["request-timeout"] = pick("i:30", "f:1.5", "i:0")
        sc["headers"] = pick("{x-test=s:1}", "{}")
        sc["opaque-id"] = pick("s:verif", "s:")
    if fam.startswith("delete-"):
        sc["only-if-exists"] = pick("true", "false")
    if fam in NAME_DMI_PAT:
        sc["delete-matching-indices"] = pick("true", "false")
        sc["index-pattern"] = pick("s:logs-*", "s:")
    if fam in SEARCH_TYPES:
        sc["body"] = pick("{query={match_all={}}}", "{query={term={f=s:v}},size=i:5}", "{}")
        sc["type"] = pick("s:_doc", "s:")
        sc["cache"] = pick("true", "false", "null")
        sc["detailed-results"] = pick("true", "false")
        sc["pages"] = pick("i:0", "i:1", "i:25", "s:all")
        sc["results-per-page"] = pick("i:0", "i:1", "i:10000", "s:25")
        sc["response-compression-enabled"] = pick("true", "false")
        sc["with-point-in-time-from"] = pick("s:", "s:open-pit-task")
        sc["assertions"] = pick("[{property=s:hits,condition=s:>,value=i:0}]", "[]")
        sc["retries"] = "absent" if rnd.random() < 0.7 else sc["retries"]
    if fam == "force-merge":
        sc["max-num-segments"] = pick("i:0", "i:1", "i:5")
        sc["mode"] = pick("s:polling", "s:blocking", "s:")
        sc["poll-period"] = pick("i:0", "i:1", "f:0.5")
    if fam == "downsample":
        sc["fixed-interval"] = pick("s:1m", "s:1d", "s:")
        sc["target-index"] = pick("s:target", "s:")
    if fam == "sleep":
        sc["duration"] = pick("i:0", "i:3", "f:0.25", "i:-2", "f:-0.5", "s:1", "true", "false", "null", "[i:1]")
    src = "absent"
    if rnd.random() < 0.04:
        src = rnd.choice(NAMED_KINDS + ("unknown",))
    sc = {k: v if v == "absent" else enc(dec(v)) for k, v in sc.items()}  # canonical tokens
    oj = {"type": fam, "src": src, "tgt": tgt, "alt": alt, "settings": settings, "body": body, "sc": sc}
    return tj, oj


def trace_cfg(flip=None):
    return "SPECIFICATION TSpec\nCONSTANTS\n  Inputs <- NoInputs\n%sCHECK_DEADLOCK FALSE\n" % "".join("  %s = %s\n" % (sw, "TRUE" if sw == flip else "FALSE") for sw in SWITCHES)


def _size(it):
    if it["kind"] != "ps":
        return 0
    return sum(len(it["trk"][s]) for s in ("idx", "ds", "tpl", "cpt", "cmp")) * 3 + sum(1 for v in it["op"]["sc"].values() if v != "absent") + len(it["op"]["tgt"]["l"]) + len(it["op"]["settings"]["ps"]) + len(it["op"]["body"]["ps"])


def _brief(it):
    """operation and track of a recorded run as a track author would write them"""
    if it["kind"] != "ps":
        return dict(it)
    op = build_params(it["op"])
    op.pop("name", None)
    op.pop("include-in-reporting", None)
    trk = {}
    for sec, label in (("idx", "indices"), ("ds", "data-streams"), ("tpl", "templates"), ("cpt", "composable-templates"), ("cmp", "component-templates")):
        if it["trk"][sec]:
            trk[label] = [{"name": i["name"], **({"body": unflatten(i["body"]["ps"])} if i["body"]["k"] == "dict" else {}), **({"delete-matching-indices": dec(i["dmi"])} if i["dmi"] != "-" else {})}
                          for i in it["trk"][sec]]  # fmt: skip
    o = it["out"]
    res = {"err": o["err"]} if o["err"] != "-" else {
        "items": [[i["name"]] + ([unflatten(i["body"]["ps"])] if i["body"]["k"] == "dict" else []) + ([i["dmi"], i["pat"]] if i["dmi"] != "-" else []) for i in o["items"]],
        "target": value_of_target(o["target"]), "given": {k: v for k, v in o["sc"].items() if v != "absent"}, "fresh": o["fresh"], "opsame": o["opsame"], "track_changed": o["after"] != it["trk"]}  # fmt: skip
    return {"track": trk, "operation": op, "result": res}


class Check:
    def __init__(self, ctx, out):
        self.ctx, self.out = ctx, out
        self.stats = {"runs": 0, "errors": 0, "by_type": {}, "l1": {}, "unexpected": {}, "l2": 0, "unobservable": 0, "track_changed": 0, "not_fresh": 0, "op_changed": 0,
                      "items_emitted": 0, "settings_merged": 0, "explicit_runs": 0, "named_sources": 0, "s2c": 0, "s2c_agree": 0}  # fmt: skip
        self.new = {}
        self.recorded = []

    def make_item(self, iid, tj, oj, model=None):
        try:
            o, info = execute(copy.deepcopy(tj), copy.deepcopy(oj))
        except _Unobservable as ex:
            self.stats["unobservable"] += 1
            if len(self.out.drift) < 25:
                self.out.drift.append("run %s (%s): the result cannot be expressed in the model's vocabulary: %s" % (iid, oj["type"], ex))
            return None
        it = {"kind": "ps", "id": iid, "trk": tj, "op": oj, "out": o}
        st = self.stats
        st["runs"] += 1
        st["by_type"][oj["type"]] = st["by_type"].get(oj["type"], 0) + 1
        st["errors"] += o["err"] != "-"
        st["track_changed"] += o["after"] != tj
        st["not_fresh"] += not o["fresh"]
        st["op_changed"] += not o["opsame"]
        st["items_emitted"] += len(o["items"])
        st["settings_merged"] += bool(o["err"] == "-" and oj["settings"]["ps"] and oj["type"] in NAME_BODY and any(i["name"] in {x["name"] for s in tj.values() for x in s} for i in o["items"]))
        st["explicit_runs"] += bool(o["err"] == "-" and oj["type"] in ITEM_FAMS and o["items"] and not any(tj[s] for s in tj))
        st["named_sources"] += oj["src"] in NAMED_KINDS
        if model is not None:
            st["s2c"] += 1
            st["s2c_agree"] += (model["err"], model["n"], model["changed"], model["fresh"]) == (o["err"], len(o["items"]), o["after"] != tj, o["fresh"])
        self.out.add_case((tj, oj), nontrivial=o["err"] == "-")
        return it

    def validate(self, items, name, chunk=2500):
        import time

        t0 = time.time()
        v = tracecheck.validate(SPEC, "TraceParamSources", "TraceParamSources.cfg", items, name=name, chunk=chunk, cfg_text=trace_cfg(), timeout=900)
        self.out.note("C2S %s: %d runs validated by TLC in %.1fs" % (name, len(items), time.time() - t0))
        index = {it["id"]: it for it in items}
        bad = set(v.l2)
        for tid, fails in sorted(v.l1.items()):
            it = index[tid]
            failing = sorted({c for ln, cl in fails if ln == 1 for c in cl})
            unexpected = sorted({c for ln, cl in fails if ln == 2 for c in cl})  # not failed by the transcription of the code as it is
            fresh = sorted(set(unexpected) | {c for c in failing if c not in PINNED})
            for c in failing:
                self.stats["l1"][c] = self.stats["l1"].get(c, 0) + 1
            size = _size(it)
            if fresh:
                bad.add(tid)
                key = ",".join(c for c in fresh if c not in PINNED) or ",".join(fresh)  # grouped by the clauses /repo does meet
                self.stats["unexpected"][key] = self.stats["unexpected"].get(key, 0) + 1
                rec = self.new.setdefault(key, {"n": 0, "size": None, "violation": None})
                rec["n"] += 1
                if rec["size"] is None or size < rec["size"]:
                    rec["size"] = size
                    rec["violation"] = Violation(key, {"trk": it.get("trk"), "op": it.get("op")} if it["kind"] == "ps" else dict(it),
                                                 signature={"clauses": fresh, "type": it.get("op", {}).get("type", it["kind"])}, detail="run %s: %s" % (tid, json.dumps(_brief(it), sort_keys=True)[:900]))  # fmt: skip
            for c in failing:
                if c not in PINNED or c in fresh:
                    continue
                rec = self.out.extra.setdefault("pinned_behaviour_observed", {}).setdefault(c, {"switch": PINNED[c][0], "what": PINNED[c][1], "runs": 0, "types": {}, "example": None, "size": None})
                rec["runs"] += 1
                ty = it["op"]["type"]
                rec["types"][ty] = rec["types"].get(ty, 0) + 1
                if rec["example"] is None or size < rec["size"]:
                    rec["size"] = size
                    rec["example"] = dict(_brief(it), run=tid)
        self.out.traces_validated += len(items) - len(bad)
        drifted = [index[tid] for tid in sorted(v.l2)]
        if drifted:
            self.explain_drift(drifted)
        for tid, lines in sorted(v.l2.items()):
            it = index[tid]
            self.stats["l2"] += 1
            if len(self.out.drift) < 25:
                self.out.drift.append("run %s (%s): %s differ(s) from the transcription of the parameter source (ParamSources.tla Code, code as it is): %s" % (
                    tid, it.get("op", {}).get("type", it["kind"]), ", ".join(L2_PARTS.get(ln, str(ln)) for ln in sorted(set(lines))), json.dumps(_brief(it), sort_keys=True)[:700]))
        return v

    def explain_drift(self, items):
        """do the runs that are not the transcription of the code as it is fit a variant with one switch flipped (repaired tree)?"""
        for sw in SWITCHES:
            v = tracecheck.validate(SPEC, "TraceParamSources", "TraceParamSources.cfg", copy.deepcopy(items[:300]), name="xpvariant", cfg_text=trace_cfg(sw), timeout=300)
            if not v.l2:
                self.out.drift.append("the %d runs that differ from the transcription of the code as it is are all accepted with %s = TRUE: this behaviour seems to have been repaired; switch the cfgs of specs/ParamSources over" % (min(len(items), 300), sw))
                return


# ===================================================================================================
def binding_selftest(out, items):
    """corrupted copies of real recordings must be rejected (L1 clause + L2); independent of how the implementation under test behaves only
    in so far as some suitable recordings exist"""
    def find(pred):
        return next((copy.deepcopy(it) for it in items if it["kind"] == "ps" and it["out"]["err"] == "-" and pred(it)), None)

    muts = []

    def mutant(name, base, clause, fn):
        if base is None:
            return
        m = copy.deepcopy(base)
        m["id"] = name
        fn(m)
        muts.append((m, clause))

    two = find(lambda it: it["op"]["type"] == "create-index" and it["op"]["tgt"]["k"] == "absent" and len(it["out"]["items"]) == 2 and it["op"]["settings"]["ps"] and it["out"]["after"] == it["trk"])
    two = two or find(lambda it: it["op"]["type"] == "create-index" and it["op"]["tgt"]["k"] == "absent" and len(it["out"]["items"]) == 2)
    mutant("bind-drop", two, "AllWhenAbsent", lambda m: m["out"]["items"].pop())
    mutant("bind-swap", two, "TrackOrder", lambda m: m["out"]["items"].reverse())
    mutant("bind-key", two, "KeysExact", lambda m: m["out"]["keys"].append("surprise"))
    mutant("bind-same", two, "Repeatable", lambda m: m["out"].update(same=False))
    merged = find(lambda it: it["op"]["type"] in NAME_BODY and it["op"]["settings"]["ps"] and it["out"]["items"] and it["out"]["items"][0]["body"]["ps"] and any(it["trk"][s] for s in it["trk"]))
    mutant("bind-merge", merged, "SettingsMerged", lambda m: m["out"]["items"][0]["body"]["ps"].pop(0))
    dflt = find(lambda it: it["op"]["type"] == "delete-index" and it["op"]["sc"]["only-if-exists"] == "absent")
    mutant("bind-default", dflt, "DefaultWhenAbsent", lambda m: m["out"]["sc"].update({"only-if-exists": "false"}))
    given = find(lambda it: it["op"]["type"] == "force-merge" and it["op"]["sc"]["poll-period"] == "i:0")
    mutant("bind-given", given, "GivenPreservedW", lambda m: m["out"]["sc"].update({"poll-period": "i:10"}))
    tgt = find(lambda it: it["op"]["type"] == "search" and it["op"]["tgt"]["k"] == "absent" and it["out"]["target"]["k"] == "str")
    mutant("bind-target", tgt, "TargetResolved", lambda m: m["out"]["target"].update(s="_all"))
    err = find(lambda it: it["op"]["type"] == "delete-data-stream" and it["op"]["tgt"]["k"] == "absent" and it["trk"]["ds"])
    mutant("bind-error", err, "NoSpuriousError", lambda m: m["out"].update(err="InvalidSyntax", items=[], keys=[], sc={k: "absent" for k in SC_KEYS}))
    if len(muts) < 6:
        if out.violations or out.drift:
            out.note("binding self-test skipped: no suitable recordings on this tree")
            return
        raise tlc.MachineryError("binding self-test: only %d suitable recordings" % len(muts))
    v = tracecheck.validate(SPEC, "TraceParamSources", "TraceParamSources.cfg", [m for m, _ in muts], name="xpbind", cfg_text=trace_cfg())
    for m, clause in muts:
        got = {c for _, cl in v.l1.get(m["id"], []) for c in cl}
        if clause not in got or m["id"] not in v.l2:
            raise tlc.MachineryError("binding self-test failed: corrupted recording %s not rejected (L1 %s, L2 %s)" % (m["id"], sorted(got), m["id"] in v.l2))
    out.extra["binding_selftest"] = "corrupted copies of real recordings are rejected by TLC (L1 clause + L2): " + ", ".join("%s -> %s" % (m["id"][5:], c) for m, c in muts)


def _observations(out):
    """facts about the registry that are outside the model (informational)"""
    from esrally.track import params as P

    by_op = getattr(P, "__PARAM_SOURCES_BY_OP", None)
    obs = []
    if isinstance(by_op, dict):
        dead = sorted(n for n in ("OpenPointInTimeParamSource", "ClosePointInTimeParamSource") if hasattr(P, n) and getattr(P, n) not in by_op.values())
        if dead:
            obs.append("%s are defined but registered for no operation type: open- / close-point-in-time use the default pass-through source (and inside a composite operation no source at all), "
                       "so the documented default of open-point-in-time's `index` (the track's only index / data stream) is never applied" % " and ".join(dead))
        fn_ok = [k for k, v in by_op.items() if not isinstance(v, type)]
        if fn_ok:
            obs.append("operation types with a registered source that is not a class: %s" % fn_ok)
    obs.append("register_param_source_for_operation accepts a plain function (ensure_valid_param_source), but param_source_for_operation calls the registered object as a constructor "
               "(track, params, operation_name=...) and returns its result as the source: only classes work there")
    out.extra["observations"] = obs
    for o in obs:
        out.note("observation: " + o)


# ===================================================================================================
_SELFTESTS = [("unknown", "InvSelectedEmitted"), ("empty", "InvEmptyTargetNotAll"), ("falsy", "InvFalsyPreserved"), ("passthrough", "InvCommonPropsPassed"), ("deep", "InvSiblingsKept"),
              ("mutation", "InvDefinitionsUnchanged"), ("fresh", "InvFreshResult"), ("keyerror", "InvErrorsExplicit")]  # fmt: skip


def _run_cfg(module, cfg, dump=False, workers=2, timeout=600):
    wd = tlc.prepare_workdir(SPEC, "xpmc")
    kw = {"dump": os.path.join(wd, "states")} if dump else {}
    res = tlc.run_tlc(wd, module, cfg, workers=workers, timeout=timeout, allow_violation=True, **kw)
    res.dump_path = None
    if dump:
        res.dump_path = kw["dump"] if os.path.exists(kw["dump"]) else kw["dump"] + ".dump"
    return res


def run(ctx, out):
    from concurrent.futures import ThreadPoolExecutor

    out.rule = (
        "case = (track: indices / data streams / templates / composable / component templates with their bodies, in track order; operation definition: type, "
        "param-source, target parameter, settings, body, scalar properties each absent / given / given falsy); distinct by hash; non-trivial = the "
        "source yields parameters (no error). Sources: every state of the TLC state space of ParamSources.tla (S2C, exhaustive over the cfg's alphabets) "
        "and seeded random cases with wider alphabets (C2S only)."
    )
    out.assumptions = [
        "a track has either indices or data streams (the loader refuses both); item names are unique; template contents are non-empty dicts; `settings` / request-params / headers are dicts",
        "JSON objects are compared as the set of their leaves (path, value); an empty object is a leaf; leaf values of bodies are strings; scalar property values are compared as typed tokens",
        "the operation definition is what the track loader passes: the whole JSON object of the operation incl. name, operation-type, include-in-reporting",
        "FreshResult: between two params() calls the harness does to the first result what the driver and the runner do - ScheduleHandle.params_with_operation_type (real method, stand-in handle) and, "
        "for the operation types whose runner calls it (search types, raw-request, restore-snapshot, downsample, esql: static table), Runner._transport_request_params (real static method); "
        "None values, the operation-type key and an x-opaque-id header are ignored in the comparison",
        "custom parameter sources are the harness' own (docs/advanced.rst shapes + the legacy signatures of Rally's tests); error messages are only inspected for quoted property names (L2)",
        "not modelled: request-params `ignore` (popped by the runner as well), non-string targets, template filters that are lists, track.Index.types, what the runners do with the parameters",
    ]
    tlc.scratch_root()
    module, main_cfg = ("MC_ParamSources", "ParamSources.quick.cfg") if ctx.quick else ("MC_ParamSourcesT", "ParamSources.thorough.cfg")
    ex = ThreadPoolExecutor(4)
    try:
        fut_main = ex.submit(_run_cfg, module, main_cfg, True, WORKERS, 1500)
        fut_int = ex.submit(_run_cfg, "MC_ParamSources", "ParamSources.intended.cfg", False, 2, 600)
        futs = [(nm, inv, ex.submit(_run_cfg, "MC_ParamSources", "ParamSources.pinned.%s.cfg" % nm, False, 1, 300)) for nm, inv in _SELFTESTS]
        chk = Check(ctx, out)
        # ---- registration + seeded random cases while TLC runs
        reg = registration_items()
        rnd = random.Random(ctx.seed * 7919 + 17)
        ritems = []
        for k in range(1500 if ctx.quick else 20000):
            tj, oj = random_case(rnd)
            it = chk.make_item("r%d" % k, tj, oj)
            if it is not None:
                ritems.append(it)
        # ---- Leg M
        res = fut_main.result()
        out.add_tlc(res)
        if not res.ok:
            raise tlc.MachineryError("model violates %s in %s (model and code are supposed to agree on the unchanged tree): %s" % (res.invariant_violated, main_cfg, res.out[-1500:]))
        out.note("leg M %s: %d distinct states in %.1fs" % (main_cfg, res.distinct, res.wall_s))
        # ---- S2C: every evaluated TLC state is one (track, operation) for the real registry
        states = [to_json(st) for st in parse_dump(res.dump_path) if st["done"]]
        states.sort(key=lambda st: json.dumps([st["op"], st["trk"]], sort_keys=True))
        items = []
        for k, st in enumerate(states):
            tj = {s: [dict(i) for i in st["trk"][s]] for s in ("idx", "ds", "tpl", "cpt", "cmp")}
            it = chk.make_item("s%d" % k, tj, st["op"], model=st["out"])
            if it is not None:
                items.append(it)
        out.exhaustive = True
        out.note("leg S2C: %d TLC states run through the real registry and parameter sources (%d raise InvalidSyntax / an error); the model's summary (error, number of items, track changed, fresh) agrees in %d"
                 % (len(items), sum(1 for it in items if it["out"]["err"] != "-"), chk.stats["s2c_agree"]))
        pick = next((it for it in items if it["op"]["type"] == "create-index" and len(it["out"]["items"]) == 2 and it["op"]["settings"]["ps"]), items[0])
        out.sample(dict(_brief(pick), source="tlc state"))
        chk.validate(items + reg, "xptrace")
        chk.recorded = items
        # ---- seeded random cases (C2S only)
        chk.validate(ritems, "xprnd")
        out.sample(dict(_brief(ritems[0]), source="random"))
        # ---- the other model runs
        r = fut_int.result()
        out.add_tlc(r)
        if not r.ok:
            raise tlc.MachineryError("model violates %s in ParamSources.intended.cfg: %s" % (r.invariant_violated, r.out[-1500:]))
        out.note("leg M ParamSources.intended.cfg (all switches TRUE, weak and strong clauses): %d distinct states in %.1fs" % (r.distinct, r.wall_s))
        for nm, inv, f in futs:
            r = f.result()
            if r.invariant_violated != inv:
                raise tlc.MachineryError("self-test failed: ParamSources.pinned.%s.cfg no longer violates %s (%s)" % (nm, inv, r.invariant_violated or r.error))
            out.extra.setdefault("model_selftests", []).append("ParamSources.pinned.%s.cfg violates %s in the model, as expected" % (nm, inv[3:]))
    finally:
        ex.shutdown(wait=True)
    st = chk.stats
    out.extra["runs"] = st
    out.note("runs %d (%s): %d errors, %d items emitted, settings merged in %d, explicit definitions in %d, named sources %d, track changed in %d, operation changed in %d, second result not fresh in %d"
             % (st["runs"], ", ".join("%s %d" % kv for kv in sorted(st["by_type"].items())), st["errors"], st["items_emitted"], st["settings_merged"], st["explicit_runs"], st["named_sources"],
                st["track_changed"], st["op_changed"], st["not_fresh"]))  # fmt: skip
    for key in ("errors", "items_emitted", "settings_merged", "explicit_runs", "named_sources"):
        if not st[key]:
            out.vacuous.append("no executed run exercised: " + key)
    binding_selftest(out, chk.recorded)
    _observations(out)
    # ---- verdicts
    for key, rec in sorted(chk.new.items()):
        out.violations.append(rec["violation"])
        out.note("L1 FAILED %s in %d runs; smallest: %s" % (key, rec["n"], rec["violation"].detail[:900]))
    out.extra["l1_failures_by_clause"] = dict(sorted(st["l1"].items()))
    for c, rec in sorted(out.extra.get("pinned_behaviour_observed", {}).items()):
        rec.pop("size", None)
        out.note("pinned behaviour of /repo (strong clause %s fails in %d runs: %s; model switch %s = FALSE): %s; smallest example %s"
                 % (c, rec["runs"], ", ".join("%s %d" % kv for kv in sorted(rec["types"].items())), rec["switch"], rec["what"], json.dumps(rec["example"], sort_keys=True)[:600]))
    missing = [c for c in PINNED if c not in out.extra.get("pinned_behaviour_observed", {})]
    if missing:
        out.note("pinned behaviour NOT observed on this tree (repaired?): %s" % missing)
    if out.vacuous:
        out.note("VACUOUS (kinds of runs this seed did not produce): %s" % out.vacuous)
    out.drift.sort(key=lambda d: 0 if "seems to have been repaired" in d else 1)
    if out.drift:
        out.note("MODEL-DRIFT in %d places, first: %s" % (len(out.drift), out.drift[0][:900]))
