"""Extra module Polling: the administrative and long-running-operation runners of esrally/driver/runner.py whose correctness is a
PROTOCOL against cluster state (specs/Polling): create-* / delete-* of indices, data streams, component / composable / index templates
(only-if-exists, delete-matching-indices, set_destructive_requires_name, weight), force-merge (blocking / polling), create-snapshot +
wait-for-snapshot-create, wait-for-current-snapshots-create, restore-snapshot + wait-for-recovery, start-transform + wait-for-transform
(completed / percent_completed over repeated calls and tasks, time-out), submit- / get- / delete-async-search in a CompositeContext,
cluster-health (also with retry-until-success), shrink-index (relocation / shrink waits, target naming) - the REGISTERED instances
(runner_for: Retry / completion / assertion wrappers).
A small cluster (objects a, b; merge task; snapshot; shard recovery; transform; async searches; health; clock in ticks of 0.5 s) answers
requests (Serve) and moves by itself (EnvSucc); a runner is the sequence of requests, sleeps and the result / exception / completion state.
Invariants (TLC + L1 on every recorded run): DeleteGuarded, OnlyIfExistsNever404, WeightBounds, PatternGuarded, MatchingDeleted, Effect,
CreateInOrder; TriggerOnce, SleepBetweenPolls, MergeProtocol, UntilSuccess, FailureRaised, TimeoutHonoured, MetaFaithful, IndexNamesGate;
IdsFromSubmit, CtxExact, NoUseAfterDelete, DeletedAll; ShrinkProtocol; NoSuccessOnFailure, ErrHasCause, NothingAfterError, NoCompletion, EsBooks.
Strong forms that /repo does not meet, each pinned behind a switch (FALSE = /repo) with a self-test and reported as a note:
WeightIsEffect (WeightAsDocumented), SettingRestored (RestoreOnlyIfChanged), NoPollAfterTerminal / Terminates (PartialTerminates),
NoInternalError (MissingSnapshotChecked, ZeroDurationSafe), StopOncePerTask / ReturnsOnlyWhenHolds / CompletionProtocol / AssertHasCause
(FreshPerTask: the one registered WaitForTransform keeps its state, a second wait-for-transform task neither stops nor waits).

Leg M   : TLC on Polling.quick/thorough.cfg (code as it is), Polling.intended*.cfg (all switches TRUE: ALL invariants), 9 pinned self-tests.
Leg S2C : TLC -simulate behaviours (scenario drawn in two steps, the cluster's own steps chosen by TLC) -> scenario + script of cluster
          steps -> the REAL registered runners against a scripted fake async client, patched asyncio.sleep / time.monotonic (virtual
          clock), called like driver.execute_single / the driver's completion loop do; compared event by event with the behaviour.
Leg C2S : every recorded run (S2C + seeded random scenarios with random cluster timing, wider parameters) validated by TLC against
          TracePolling.tla (L1 all invariants, L2 every request / response / sleep / cluster step / result is the model's).
"""
import asyncio
import copy
import glob
import json
import os
import random
import re
import time as _time
from concurrent.futures import ThreadPoolExecutor
from fractions import Fraction

from .. import tlc, tracecheck
from ..core import Violation
from ..tlaparse import parse_state, to_json

SPEC = "Polling"
TICK = 0.5  # seconds per tick
MONO_BASE = 5000.0  # time.monotonic() at tick 0 (never 0.0: WaitForTransform tests `not self._start_time`)
MAX_EVENTS = 150  # a run with more events is cancelled (and judged by TLC like every other run)
CUT_SLEEPS = 8  # a call that sleeps that often while the cluster cannot move any more is cancelled
PATIENCE = 3  # after that many sleeps of a call the cluster is made to move (if it can)
MAX_VIOLATIONS_PER_KIND = 10

SWITCHES = ("WeightAsDocumented", "RestoreOnlyIfChanged", "PartialTerminates", "MissingSnapshotChecked", "ZeroDurationSafe", "FreshPerTask")
# strong L1 clauses which the code as it is does not meet: clause -> (model switch that repairs it, what happens)
PINNED = {
    "WeightIsEffect": (
        "WeightAsDocumented",
        "weight is not the number of objects deleted: only-if-exists=false counts ignored 404s; delete-composable/index-template add the settings round trips and the pattern deletes",
    ),
    "SettingRestored": (
        "RestoreOnlyIfChanged",
        "delete-*-template with delete-matching-indices: the read of action.destructive_requires_name fails -> `finally` resets the transient setting to null although it was never changed",
    ),
    "NoPollAfterTerminal": ("PartialTerminates", "wait-for-snapshot-create keeps polling a snapshot whose status is PARTIAL"),
    "Terminates": ("PartialTerminates", "wait-for-snapshot-create never returns for a snapshot that ended PARTIAL"),
    "NoInternalError": (
        "MissingSnapshotChecked / ZeroDurationSafe",
        "IndexError for a status response with an empty `snapshots` list; ZeroDivisionError for a snapshot / recovery of 0 ms",
    ),
    "StopOncePerTask": ("FreshPerTask", "the second wait-for-transform task of a race sends no stop request (instance state of the registered runner survives the first task)"),
    "ReturnsOnlyWhenHolds": ("FreshPerTask", "the second wait-for-transform task reports completed while the transform is still indexing"),
    "CompletionProtocol": ("FreshPerTask", "the second wait-for-transform task: completed with percent_completed < 1 / before the transform has stopped"),
    "AssertHasCause": ("FreshPerTask", "the second wait-for-transform task measures transform-timeout from the start of the FIRST task"),
}

CREATE_OPS = ("ci", "cds", "cct", "cpt", "cit")
DELETE_OPS = ("di", "dds", "dct", "dpt", "dit")
KIND_OF = {"ci": "idx", "di": "idx", "cds": "ds", "dds": "ds", "cct": "ct", "dct": "ct", "cpt": "pt", "dpt": "pt", "cit": "lt", "dit": "lt"}
OP_TYPE = {
    "ci": "create-index",
    "di": "delete-index",
    "cds": "create-data-stream",
    "dds": "delete-data-stream",
    "cct": "create-component-template",
    "dct": "delete-component-template",
    "cpt": "create-composable-template",
    "dpt": "delete-composable-template",
    "cit": "create-index-template",
    "dit": "delete-index-template",
    "fm": "force-merge",
    "csnap": "create-snapshot",
    "wsnap": "wait-for-snapshot-create",
    "wcur": "wait-for-current-snapshots-create",
    "rsnap": "restore-snapshot",
    "wrec": "wait-for-recovery",
    "tstart": "start-transform",
    "twait": "wait-for-transform",
    "sub": "submit-async-search",
    "get": "get-async-search",
    "del": "delete-async-search",
    "hl": "cluster-health",
    "shr": "shrink-index",
}
SCN_KEYS = (
    "fam op items oie dmi pat fail mo mode wfc fin mshape size dur ver n m pp tmo wfcp cont dstep pstep sync rus exp wfnrs gap sfx tgt rl es0"
).split()
NO_META = {"w": -1, "unit": "", "succ": "-", "a": 0, "b": 0, "tn": 0, "td": 0}
NO_CC = [-1, -1]


# ---------------------------------------------------------------------------------------------------
# the cluster (the Python twin of Serve / EnvSucc in Polling.tla; L2 compares the two on every request and step)
# ---------------------------------------------------------------------------------------------------
def es0():
    objs = {"a": False, "b": False}
    return {
        "nreq": 0,
        "now": 0,
        "idx": dict(objs),
        "ds": dict(objs),
        "ct": dict(objs),
        "pt": dict(objs),
        "lt": dict(objs),
        "drn": "none",
        "merge": "none",
        "snap": {"st": "none", "others": 0},
        "rec": {"req": False, "sched": False, "sh": []},
        "tf": {"st": "stopped", "pct": 0, "docs": 0, "pt": 0, "stopreq": False},
        "srch": [],
        "hl": {"status": "green", "reloc": 0},
        "shr": [],
    }


def base_scn(**kw):
    s = {
        "fam": "",
        "op": "",
        "items": [],
        "oie": False,
        "dmi": False,
        "pat": "",
        "fail": 0,
        "mo": "ok",
        "mode": "blocking",
        "wfc": False,
        "fin": "SUCCESS",
        "mshape": "nokey",
        "size": 4000,
        "dur": 2,
        "ver": "8.3.0",
        "n": 1,
        "m": 1,
        "pp": 2,
        "tmo": 100,
        "wfcp": True,
        "cont": False,
        "dstep": 6000,
        "pstep": 600,
        "sync": [False, False],
        "rus": True,
        "exp": "",
        "wfnrs": False,
        "gap": 0,
        "sfx": [],
        "tgt": "",
        "rl": 0,
        "es0": es0(),
    }
    s.update(kw)
    return s


def mkreq(api, k="", x="", y=0, f=False):
    return {"api": api, "k": k, "x": x, "y": y, "f": bool(f)}


def mkresp(ok=True, why="", val=False, s="", a=0, b=0, c=0):
    return {"ok": ok, "why": why, "val": bool(val), "s": s, "a": a, "b": b, "c": c}


def rank(s):
    return {"red": 1, "RED": 1, "yellow": 2, "YELLOW": 2, "green": 3, "GREEN": 3}.get(s, 0)


def running(e):
    return e["snap"]["others"] + (1 if e["snap"]["st"] == "run" else 0)


def serve(sc, e, q):
    """Answers request q in cluster e (modified in place); returns (resp, changed)."""
    e["nreq"] += 1
    before = json.dumps(e, sort_keys=True)

    def done(p):
        return p, json.dumps(e, sort_keys=True) != before

    if sc["fail"] == e["nreq"]:
        return mkresp(False, "boom"), False
    api = q["api"]
    if api in ("exists", "delete", "create"):
        k, x = q["k"], q["x"]
        have = isinstance(e.get(k), dict) and bool(e[k].get(x, False))
        if api == "exists":
            if k == "idx":
                have = have or bool(e["ds"].get(x, False))
            return done(mkresp(val=have))
        if k not in ("idx", "ds", "ct", "pt", "lt") or x not in e[k]:
            return mkresp(False, "badreq"), False
        if api == "delete":
            if have:
                e[k][x] = False
                return done(mkresp(val=True))
            if q["f"]:
                return done(mkresp(val=False))
            return mkresp(False, "notfound"), False
        if k in ("idx", "ds") and have:
            return mkresp(False, "exists"), False
        e[k][x] = True
        return done(mkresp(val=True))
    if api == "deletepat":
        if q["x"] != "*" or e["drn"] != "false":
            return mkresp(False, "badreq"), False
        e["idx"] = {n: False for n in e["idx"]}
        return done(mkresp(val=True))
    if api == "settings.get":
        return done(mkresp(s=e["drn"]))
    if api == "settings.put":
        e["drn"] = q["x"]
        return done(mkresp(val=True))
    if api == "fm.merge":
        if sc["mo"] == "timeout":
            e["merge"] = "run"
            return mkresp(False, "timeout"), True
        e["merge"] = "done"
        return done(mkresp(val=True))
    if api == "tasks.list":
        return done(mkresp(val=e["merge"] == "run"))
    if api == "snap.create":
        if e["snap"]["st"] != "none":
            return mkresp(False, "exists"), False
        e["snap"]["st"] = sc["fin"] if q["f"] else "run"
        return done(mkresp(val=True))
    if api == "snap.current":
        return done(mkresp(val=e["snap"]["st"] == "run", a=running(e)))
    if api == "snap.status":
        st = e["snap"]["st"]
        s = sc["mshape"] if st == "none" else "STARTED" if st == "run" else st
        if s in ("nokey", "empty"):
            return done(mkresp(s=s))
        return done(mkresp(s=s, a=sc["size"], b=sc["dur"], c=7))
    if api == "info":
        return done(mkresp(s=sc["ver"]))
    if api == "snap.restore":
        if q["f"]:
            e["rec"] = {"req": True, "sched": True, "sh": [2] * sc["n"]}
        else:
            e["rec"]["req"] = True
        return done(mkresp(val=True))
    if api == "idx.recovery":
        if not e["rec"]["sched"]:
            return done(mkresp())
        sh = e["rec"]["sh"]
        return done(mkresp(val=True, a=len(sh), b=sum(1 for x in sh if x == 2), c=sc["dur"]))
    if api == "tf.start":
        if e["tf"]["st"] != "stopped":
            return mkresp(False, "conflict"), False
        e["tf"].update(st="indexing", pct=0, stopreq=False)
        return done(mkresp(val=True))
    if api == "tf.stop":
        if e["tf"]["st"] == "indexing" and not q["f"]:
            e["tf"]["st"] = "stopped"
        elif e["tf"]["st"] == "indexing":
            e["tf"]["stopreq"] = True
        return done(mkresp(val=True))
    if api == "tf.stats":
        t = e["tf"]
        return done(mkresp(s=t["st"], a=t["pct"], b=t["docs"], c=t["pt"]))
    if api == "as.submit":
        y = q["y"]
        if not 1 <= y <= len(sc["sync"]):
            return mkresp(False, "badreq"), False
        if sc["sync"][y - 1]:
            e["srch"].append("sync")
            return done(mkresp())
        e["srch"].append("run")
        return done(mkresp(a=len(e["srch"])))
    if api in ("as.get", "as.delete"):
        y = q["y"]
        if not (1 <= y <= len(e["srch"]) and e["srch"][y - 1] in ("run", "done")):
            return mkresp(False, "notfound"), False
        if api == "as.get":
            return done(mkresp(val=e["srch"][y - 1] == "run"))
        e["srch"][y - 1] = "gone"
        return done(mkresp(val=True))
    if api == "health":
        return done(mkresp(s=e["hl"]["status"], a=e["hl"]["reloc"]))
    if api == "shr.get":
        return done(mkresp(a=len(sc["items"])))
    if api == "nodes.info":
        return done(mkresp(a=sc["n"]))
    if api == "shr.settings":
        e["hl"]["reloc"] = sc["rl"]
        return done(mkresp(val=True))
    if api == "shr.health":
        if e["hl"]["reloc"] == 0:
            return done(mkresp(s="green"))
        if sc["mo"] == "ok":
            e["hl"]["reloc"] = 0
            return done(mkresp(s="green"))
        if sc["mo"] == "timeout":
            return mkresp(False, "timeout408"), False
        return done(mkresp(s="green", a=e["hl"]["reloc"]))
    if api == "shr.shrink":
        if q["k"] in e["shr"]:
            return mkresp(False, "exists"), False
        e["shr"].append(q["k"])
        e["hl"]["reloc"] = sc["rl"]
        return done(mkresp(val=True))
    return mkresp(False, "badreq"), False


def env_succ(sc, e):
    """[(lab, n, new cluster)]: what the cluster can do by itself."""
    res = []

    def step(lab, n, fn):
        e2 = copy.deepcopy(e)
        fn(e2)
        res.append((lab, n, e2))

    if e["merge"] == "run":
        step("merged", 0, lambda x: x.update(merge="done"))
    if e["snap"]["st"] == "run":
        for n, st in ((1, "SUCCESS"), (2, "FAILED"), (3, "PARTIAL")):
            step("snapend", n, lambda x, st=st: x["snap"].update(st=st))
    if e["snap"]["others"] > 0:
        step("otherend", 0, lambda x: x["snap"].update(others=x["snap"]["others"] - 1))
    if e["rec"]["req"] and not e["rec"]["sched"]:
        step("sched", 0, lambda x: x["rec"].update(sched=True, sh=[0] * sc["n"]))
    if e["rec"]["sched"]:
        for j, s in enumerate(e["rec"]["sh"], start=1):
            if s < 2:

                def adv(x, j=j):
                    x["rec"]["sh"][j - 1] += 1

                step("shard", j, adv)
    t = e["tf"]
    if t["st"] == "indexing":
        if t["docs"] < 6 * sc["dstep"] or t["stopreq"]:

            def prog(x):
                tt = x["tf"]
                full = tt["pct"] + 50 >= 100
                stop = full and (not sc["cont"] or tt["stopreq"])
                tt["pct"] = 0 if full and not stop else min(100, tt["pct"] + 50)
                tt["docs"] += sc["dstep"]
                tt["pt"] += sc["pstep"]
                tt["st"] = "stopped" if stop else "indexing"

            step("tfprog", 0, prog)
        step("tffail", 0, lambda x: x["tf"].update(st="failed"))
    for k, s in enumerate(e["srch"], start=1):
        if s == "run":

            def sd(x, k=k):
                x["srch"][k - 1] = "done"

            step("sdone", k, sd)
    if sc["fam"] == "hl" and rank(e["hl"]["status"]) < 3:
        step("hup", 0, lambda x: x["hl"].update(status="yellow" if x["hl"]["status"] == "red" else "green"))
    if sc["fam"] in ("hl", "shr") and e["hl"]["reloc"] > 0:
        step("rdown", 0, lambda x: x["hl"].update(reloc=x["hl"]["reloc"] - 1))
    return res


def seg_ops(sc):
    fam = sc["fam"]
    if fam == "obj":
        return [sc["op"]]
    if fam == "fm":
        return ["fm"]
    if fam == "snap":
        return ["csnap", "wsnap"] if sc["op"] == "cw" else ["wsnap"]
    if fam == "cur":
        return ["wcur"]
    if fam == "rec":
        return ["rsnap", "wrec"] if sc["op"] == "rw" else ["wrec"]
    if fam == "tf":
        return ["tstart", "twait"] if sc["n"] == 1 else ["tstart", "twait", "tstart", "twait"]
    if fam == "as":
        return ["sub", "get", "del"] if sc["n"] == 1 else ["sub", "sub", "get", "del"]
    if fam == "hl":
        return ["hl"]
    if fam == "shr":
        return ["shr"]
    raise tlc.MachineryError("unknown family %r" % fam)


# ---------------------------------------------------------------------------------------------------
# one run: scenario + script of cluster steps, the fake client, the virtual clock
# ---------------------------------------------------------------------------------------------------
class Cut(BaseException):
    """Raised inside asyncio.sleep to cancel a call that polls for ever (passes every `except Exception`)."""


_CUR = None  # the run in progress (single threaded)
_orig_sleep = asyncio.sleep
_orig_monotonic = _time.monotonic


def to_ticks(secs):
    if isinstance(secs, bool) or not isinstance(secs, (int, float)):
        return -2
    t = secs / TICK
    return int(round(t)) if abs(t - round(t)) < 1e-9 and 0 <= t < 10**6 else -2


class Run:
    def __init__(self, scn, script, seed, p_env, script_end=None):
        self.scn = scn
        self.es = copy.deepcopy(scn["es0"])
        self.events = []
        self.vis = 0  # requests + sleeps so far
        self.script = script  # {slot: [(lab, n)]}: steps of the cluster right before the (slot+1)-th request / sleep
        # from this slot on the harness lets the cluster move at random (a TLC behaviour is replayed exactly up to its end)
        self.script_end = script_end if script_end is not None else (max(script) if script else -1)
        self.rnd = random.Random(seed)
        self.p_env = p_env
        self.sleeps_in_call = 0
        self.anomalies = []
        self.internal = []
        self.script_misses = 0
        self.cut = False
        self.runaway = False

    def snapshot(self):
        return copy.deepcopy(self.es)

    def _apply(self, lab, n, e2):
        self.es = e2
        self.events.append({"a": "E", "lab": lab, "n": n, "es": self.snapshot()})

    def before_visible(self, kind):
        """The cluster's own steps that fall right before the next request / sleep."""
        if len(self.events) > MAX_EVENTS:
            self.cut = self.runaway = True
            raise Cut()
        for lab, n in self.script.get(self.vis, []):
            hit = [s for s in env_succ(self.scn, self.es) if s[0] == lab and s[1] == n]
            if hit:
                self._apply(*hit[0])
            else:
                self.script_misses += 1
        if self.vis > self.script_end:
            succ = env_succ(self.scn, self.es)
            if succ and (self.rnd.random() < self.p_env or (kind == "Q" and self.sleeps_in_call >= PATIENCE)):
                self._apply(*self.rnd.choice(succ))
            if kind == "S" and self.sleeps_in_call >= CUT_SLEEPS and not env_succ(self.scn, self.es):
                self.cut = True
                raise Cut()
        self.vis += 1

    def exchange(self, q):
        self.before_visible("Q")
        resp, chg = serve(self.scn, self.es, q)
        self.events.append({"a": "Q", "req": q, "resp": resp, "chg": chg, "es": self.snapshot()})
        return resp

    def slept(self, secs):
        self.before_visible("S")
        self.sleeps_in_call += 1
        d = to_ticks(secs)
        self.es["now"] += max(d, 0)
        self.events.append({"a": "S", "d": d, "es": self.snapshot()})


async def _fake_sleep(delay, result=None):
    run = _CUR
    if run is None:
        return await _orig_sleep(delay, result)
    run.slept(delay)
    await _orig_sleep(0)
    return result


def _fake_monotonic():
    run = _CUR
    if run is None:
        return _orig_monotonic()
    return MONO_BASE + run.es["now"] * TICK


def _raise(why, nreq):
    import elastic_transport
    import elasticsearch

    if why == "timeout":
        ex = elasticsearch.ConnectionTimeout("scripted connection timeout at request %d" % nreq)
    else:
        status = {"boom": 500, "notfound": 404, "exists": 400, "badreq": 400, "conflict": 409, "timeout408": 408}[why]
        meta = elastic_transport.ApiResponseMeta(
            status=status, http_version="1.1", headers=elastic_transport.HttpHeaders(), duration=0.0, node=elastic_transport.NodeConfig("http", "localhost", 9200)
        )
        cls = elasticsearch.exceptions.HTTP_EXCEPTIONS.get(status, elasticsearch.ApiError)
        ex = cls(message="scripted_%s_%d" % (why, nreq), meta=meta, body={"error": {"type": "scripted_" + why, "reason": "request %d" % nreq}, "status": status})
    ex.verif_why = why
    raise ex


class _NS:
    pass


def make_client_class():
    from esrally.client import context

    class FakeEs(context.RequestContextHolder):
        """The concrete client API the runners use -> abstract request -> the cluster model -> a concrete response."""

        is_serverless = False

        def __init__(self, run):
            self.run = run
            for ns in ("indices", "cluster", "tasks", "snapshot", "transform", "async_search", "nodes"):
                setattr(self, ns, _NS())
            i, c, s, t, a = self.indices, self.cluster, self.snapshot, self.transform, self.async_search
            i.create = self._obj("create", "idx", "index")
            i.delete = self._index_delete
            i.exists = self._obj("exists", "idx", "index")
            i.create_data_stream = self._obj("create", "ds", "name")
            i.delete_data_stream = self._obj("delete", "ds", "name")
            i.put_index_template = self._obj("create", "pt", "name")
            i.delete_index_template = self._obj("delete", "pt", "name")
            i.exists_index_template = self._obj("exists", "pt", "name")
            i.put_template = self._obj("create", "lt", "name")
            i.delete_template = self._obj("delete", "lt", "name")
            i.exists_template = self._obj("exists", "lt", "name")
            i.forcemerge = self._forcemerge
            i.recovery = self._recovery
            i.get = self._shr_get
            i.put_settings = self._shr_settings
            i.shrink = self._shr_shrink
            self.nodes.info = self._nodes_info
            c.put_component_template = self._obj("create", "ct", "name")
            c.delete_component_template = self._obj("delete", "ct", "name")
            c.exists_component_template = self._obj("exists", "ct", "name")
            c.get_settings = self._get_settings
            c.put_settings = self._put_settings
            c.health = self._health
            self.tasks.list = self._tasks_list
            s.create = self._snap_create
            s.get = self._snap_get
            s.status = self._snap_status
            t.start_transform = self._tf_start
            t.stop_transform = self._tf_stop
            t.get_transform_stats = self._tf_stats
            a.submit = self._as_submit
            a.get = self._as_get
            a.delete = self._as_delete

        # ---- plumbing
        def options(self, **kw):
            if kw:
                self.run.anomalies.append("options(%s)" % sorted(kw))
            return self

        def return_raw_response(self):  # pylint: disable=arguments-differ
            return None

        async def close(self):
            return None

        def odd(self, what):
            self.run.anomalies.append(what[:200])

        async def _x(self, q):
            await _orig_sleep(0)
            try:
                self.on_request_start()
            except LookupError:
                pass
            resp = self.run.exchange(q)
            try:
                self.on_request_end()
            except LookupError:
                pass
            if not resp["ok"]:
                _raise(resp["why"], self.run.es["nreq"])
            return resp

        # ---- objects
        def _obj(self, api, kind, namearg):
            async def call(**kw):
                name = kw.pop(namearg, None)
                ignore = kw.pop("ignore", None)
                params = kw.pop("params", None)
                kw.pop("body", None)
                kw.pop("template", None)
                if kw:
                    self.odd("%s %s with %s" % (api, kind, sorted(kw)))
                if params not in (None, {}):
                    self.odd("%s %s with params %r" % (api, kind, params))
                if ignore not in (None, [404]):
                    self.odd("%s %s with ignore=%r" % (api, kind, ignore))
                if api != "delete" and ignore is not None:
                    self.odd("%s %s with ignore" % (api, kind))
                resp = await self._x(mkreq(api, kind, name if isinstance(name, str) else repr(name), 0, bool(ignore) and api == "delete"))
                if api == "exists":
                    return resp["val"]
                if api == "delete" and not resp["val"]:
                    return {"error": {"type": "resource_not_found_exception"}, "status": 404}
                return {"acknowledged": True}

            return call

        async def _index_delete(self, **kw):
            index = kw.pop("index", None)
            if index in self.run.es["idx"]:
                return await self._obj("delete", "idx", "index")(index=index, **kw)
            if kw:
                self.odd("wildcard delete with %s" % sorted(kw))
            await self._x(mkreq("deletepat", "", index if isinstance(index, str) else repr(index)))
            return {"acknowledged": True}

        async def _get_settings(self, **kw):
            if kw != {"flat_settings": True}:
                self.odd("get_settings(%r)" % (kw,))
            resp = await self._x(mkreq("settings.get"))
            transient = {} if resp["s"] == "none" else {"action.destructive_requires_name": resp["s"]}
            return {"persistent": {"cluster.routing.allocation.enable": "all"}, "transient": transient}

        async def _put_settings(self, body=None, **kw):
            t = (body or {}).get("transient") if isinstance(body, dict) else None
            if kw or not isinstance(t, dict) or list(t) != ["action.destructive_requires_name"] or len(body) != 1:
                self.odd("put_settings(%r, %r)" % (body, kw))
                v = "bad"
            else:
                v = t["action.destructive_requires_name"]
                v = "none" if v is None else "false" if v is False or v == "false" else "true" if v is True or v == "true" else "bad"
            await self._x(mkreq("settings.put", "", v))
            return {"acknowledged": True, "persistent": {}, "transient": {}}

        # ---- force merge
        async def _forcemerge(self, **kw):
            if kw.pop("index", None) != "_all" or kw:
                self.odd("forcemerge with %s" % sorted(kw))
            await self._x(mkreq("fm.merge"))
            return {"_shards": {"total": 2, "successful": 2, "failed": 0}}

        async def _tasks_list(self, **kw):
            if kw != {"params": {"actions": "indices:admin/forcemerge"}}:
                self.odd("tasks.list(%r)" % (kw,))
            resp = await self._x(mkreq("tasks.list"))
            if not resp["val"]:
                return {"nodes": {}}
            task = {"node": "n1", "id": 417, "type": "transport", "action": "indices:admin/forcemerge", "cancellable": False}
            return {"nodes": {"n1": {"name": "node-1", "roles": ["data", "master"], "tasks": {"n1:417": task}}}}

        # ---- snapshots
        async def _snap_create(self, **kw):
            if kw.get("repository") != "repo" or kw.get("snapshot") != "snap" or "body" not in kw or set(kw) - {"repository", "snapshot", "body", "wait_for_completion"}:
                self.odd("snapshot.create(%s)" % sorted(kw))
            await self._x(mkreq("snap.create", f=kw.get("wait_for_completion") is True))
            return {"accepted": True}

        async def _snap_get(self, **kw):
            inames = kw.pop("index_names", None)
            if kw != {"repository": "repo", "snapshot": "_current", "verbose": False} or inames not in (None, False):
                self.odd("snapshot.get(%r, index_names=%r)" % (kw, inames))
            resp = await self._x(mkreq("snap.current", f=inames is False))
            snaps = [{"snapshot": "snap", "uuid": "u0", "repository": "repo", "state": "IN_PROGRESS"}] if resp["val"] else []
            snaps += [{"snapshot": "other-%d" % i, "uuid": "u%d" % i, "repository": "repo", "state": "IN_PROGRESS"} for i in range(1, resp["a"] - len(snaps) + 1)]
            return {"snapshots": snaps, "total": resp["a"], "remaining": 0}

        async def _snap_status(self, **kw):
            if kw != {"repository": "repo", "snapshot": "snap", "ignore_unavailable": True}:
                self.odd("snapshot.status(%r)" % (kw,))
            resp = await self._x(mkreq("snap.status"))
            if resp["s"] == "nokey":
                return {}
            if resp["s"] == "empty":
                return {"snapshots": []}
            total = {"file_count": resp["c"], "size_in_bytes": resp["a"]}
            stats = {"incremental": dict(total), "total": dict(total), "start_time_in_millis": 100, "time_in_millis": resp["b"]}
            shards = {"initializing": 0, "started": 0, "finalizing": 0, "done": 3, "failed": 1 if resp["s"] in ("FAILED", "PARTIAL") else 0, "total": 3}
            return {"snapshots": [{"snapshot": "snap", "repository": "repo", "uuid": "u0", "state": resp["s"], "shards_stats": shards, "stats": stats, "indices": {}}]}

        async def info(self, **kw):
            if kw:
                self.odd("info(%r)" % (kw,))
            resp = await self._x(mkreq("info"))
            version = {"build_flavor": "default"} if resp["s"] == "nonum" else {"number": resp["s"], "build_flavor": "default"}
            return {"name": "node-1", "cluster_name": "c", "version": version, "tagline": "You Know, for Search"}

        async def perform_request(self, method="GET", path="/", headers=None, body=None, params=None, **kw):
            if method != "POST" or path != "/_snapshot/repo/snap/_restore" or kw or not isinstance(params, dict) or set(params) != {"wait_for_completion"}:
                self.odd("perform_request(%r, %r, params=%r, %s)" % (method, path, params, sorted(kw)))
            await self._x(mkreq("snap.restore", f=(params or {}).get("wait_for_completion") is True))
            return {"accepted": True}

        async def _recovery(self, **kw):
            if kw != {"index": "idx"}:
                self.odd("indices.recovery(%r)" % (kw,))
            resp = await self._x(mkreq("idx.recovery"))
            if not resp["val"]:
                return {}
            stages = self.run.es["rec"]["sh"]
            shards = []
            for j, st in enumerate(stages, start=1):
                sh = {
                    "id": j - 1,
                    "type": "SNAPSHOT",
                    "stage": ("INIT", "INDEX", "DONE")[st],
                    "primary": True,
                    "start_time_in_millis": 100,
                    "index": {"size": {"total_in_bytes": 1000 * j, "recovered_in_bytes": 1000 * j if st == 2 else 10 * st}},
                }
                if st == 2:
                    sh["stop_time_in_millis"] = 100 + resp["c"] * j
                shards.append(sh)
            return {"idx": {"shards": shards}}

        # ---- transforms
        async def _tf_start(self, **kw):
            if kw.get("transform_id") != "t" or set(kw) - {"transform_id", "timeout"}:
                self.odd("start_transform(%r)" % (kw,))
            await self._x(mkreq("tf.start"))
            return {"acknowledged": True}

        async def _tf_stop(self, **kw):
            if kw.get("transform_id") != "t" or kw.get("wait_for_completion") is not False or kw.get("force") is not False:
                self.odd("stop_transform(%r)" % (kw,))
            await self._x(mkreq("tf.stop", f=kw.get("wait_for_checkpoint") is True))
            return {"acknowledged": True}

        async def _tf_stats(self, **kw):
            if kw != {"transform_id": "t"}:
                self.odd("get_transform_stats(%r)" % (kw,))
            resp = await self._x(mkreq("tf.stats"))
            pt = resp["c"]
            stats = {
                "pages_processed": 1,
                "documents_processed": resp["b"],
                "documents_indexed": 3,
                "search_time_in_ms": pt // 3,
                "processing_time_in_ms": pt // 3,
                "index_time_in_ms": pt - 2 * (pt // 3),
            }
            tr = {"id": "t", "state": resp["s"], "stats": stats, "checkpointing": {"last": {"checkpoint": 1}}}
            if resp["s"] == "indexing":
                tr["checkpointing"]["next"] = {"checkpoint": 2, "checkpoint_progress": {"percent_complete": float(resp["a"])}}
            if resp["s"] == "failed":
                tr["reason"] = "scripted failure"
            return {"count": 1, "transforms": [tr]}

        # ---- async search
        async def _as_submit(self, **kw):
            body = kw.get("body")
            k = body.get("k") if isinstance(body, dict) else None
            if not isinstance(k, int) or kw.get("index") != "idx" or kw.get("params") != {"wait_for_completion_timeout": 0} or set(kw) - {"body", "index", "params"}:
                self.odd("async_search.submit(%r)" % (kw,))
            resp = await self._x(mkreq("as.submit", y=k if isinstance(k, int) else -1))
            hits = {"total": {"value": 3, "relation": "eq"}, "hits": []}
            if resp["a"] == 0:
                return {"is_partial": False, "is_running": False, "response": {"took": 1, "timed_out": False, "hits": hits}}
            return {"id": "as-%d" % resp["a"], "is_partial": True, "is_running": True, "response": {"took": 1, "timed_out": False, "hits": {"hits": []}}}

        @staticmethod
        def _sid(v):
            m = re.match(r"^as-(\d+)$", v) if isinstance(v, str) else None
            return int(m.group(1)) if m else -1

        async def _as_get(self, **kw):
            if set(kw) != {"id", "params"} or kw["params"] != {}:
                self.odd("async_search.get(%r)" % (kw,))
            resp = await self._x(mkreq("as.get", y=self._sid(kw.get("id"))))
            if resp["val"]:
                return {"id": kw["id"], "is_partial": True, "is_running": True, "response": {"took": 2, "timed_out": False, "hits": {"hits": []}}}
            hits = {"total": {"value": 3, "relation": "eq"}, "hits": []}
            return {"id": kw["id"], "is_partial": False, "is_running": False, "response": {"took": 5, "timed_out": False, "hits": hits}}

        async def _as_delete(self, **kw):
            if set(kw) != {"id"}:
                self.odd("async_search.delete(%r)" % (kw,))
            await self._x(mkreq("as.delete", y=self._sid(kw.get("id"))))
            return {"acknowledged": True}

        # ---- shrink
        def _data_nodes(self):
            return ["d%d" % j for j in range(1, self.run.scn["n"] + 1)]

        async def _shr_get(self, **kw):
            if kw != {"index": "src*"}:
                self.odd("indices.get(%r)" % (kw,))
            await self._x(mkreq("shr.get"))
            return {name: {"aliases": {}, "settings": {}} for name in self.run.scn["items"]}

        async def _nodes_info(self, **kw):
            if kw:
                self.odd("nodes.info(%r)" % (kw,))
            await self._x(mkreq("nodes.info"))
            nodes = {"id-m": {"name": "m1", "roles": ["master", "ingest"]}}
            for d in self._data_nodes():
                nodes["id-" + d] = {"name": d, "roles": ["data", "ingest", "master"]}
            return {"nodes": nodes}

        async def _shr_settings(self, **kw):
            body = kw.get("body")
            st = body.get("settings") if isinstance(body, dict) else None
            if set(kw) != {"index", "body", "preserve_existing"} or kw["preserve_existing"] is not True or not isinstance(st, dict) or st.get("index.blocks.write") != "true" or len(st) != 2:
                self.odd("indices.put_settings(%r)" % (kw,))
                st = st if isinstance(st, dict) else {}
            node = st.get("index.routing.allocation.require._name")
            good = node == self.run.scn["pat"] if self.run.scn["pat"] else node in self._data_nodes()
            await self._x(mkreq("shr.settings", "", str(kw.get("index")), 0, good))
            return {"acknowledged": True}

        async def _shr_shrink(self, **kw):
            body = kw.get("body")
            st = body.get("settings") if isinstance(body, dict) else None
            want = {"index.number_of_replicas": 0, "index.number_of_shards": 1, "index.routing.allocation.require._name": None, "index.blocks.write": None}
            if set(kw) != {"index", "target", "body"} or st != want:
                self.odd("indices.shrink(%r)" % (kw,))
            await self._x(mkreq("shr.shrink", str(kw.get("target")), str(kw.get("index"))))
            return {"acknowledged": True, "shards_acknowledged": True}

        # ---- health
        async def _health(self, **kw):
            params = kw.pop("params", None)
            if self.run.scn["fam"] == "shr":
                if set(kw) != {"index"} or params != {"wait_for_no_relocating_shards": "true"}:
                    self.odd("cluster.health(%r, params=%r)" % (kw, params))
                resp = await self._x(mkreq("shr.health", "", str(kw.get("index")), 0, True))
                return {"cluster_name": "c", "status": resp["s"], "timed_out": resp["a"] > 0, "relocating_shards": resp["a"], "number_of_nodes": 1}
            if kw != {"index": "idx"} or not isinstance(params, dict) or set(params) - {"wait_for_status", "wait_for_no_relocating_shards"}:
                self.odd("cluster.health(%r, params=%r)" % (kw, params))
                params = params if isinstance(params, dict) else {}
            resp = await self._x(mkreq("health", "", params.get("wait_for_status", ""), 0, "wait_for_no_relocating_shards" in params))
            return {"cluster_name": "c", "status": resp["s"], "timed_out": False, "relocating_shards": resp["a"], "number_of_nodes": 1}

    return FakeEs


_client_class = None
_setup_done = False


def _setup():
    global _setup_done, _client_class
    from .. import racesim

    racesim.ensure_rally_home()
    from esrally.driver import runner

    if not _setup_done:
        _client_class = make_client_class()
        _setup_done = True
    return runner


# ---------------------------------------------------------------------------------------------------
# parameters as the parameter sources hand them to the runners
# ---------------------------------------------------------------------------------------------------
def build_params(sc, op, k):
    items = list(sc["items"])
    secs = sc["pp"] * TICK
    p = {"name": "task-%s-%d" % (op, k), "operation-type": OP_TYPE[op]}
    if op == "ci":
        p.update({"indices": [(x, {"settings": {"index.number_of_replicas": 0}}) for x in items], "request-params": {}})
    elif op == "di":
        p.update({"indices": items, "only-if-exists": sc["oie"], "request-params": {}})
    elif op == "cds":
        p.update({"data-streams": items, "request-params": {}})
    elif op == "dds":
        p.update({"data-streams": items, "only-if-exists": sc["oie"], "request-params": {}})
    elif op == "cct":
        p.update({"templates": [(x, {"template": {"settings": {}}}) for x in items], "request-params": {}})
    elif op == "dct":
        p.update({"templates": items, "only-if-exists": sc["oie"], "request-params": {}})
    elif op in ("cpt", "cit"):
        p.update({"templates": [(x, {"index_patterns": ["%s-*" % x]}) for x in items], "request-params": {}})
    elif op in ("dpt", "dit"):
        p.update({"templates": [(x, sc["dmi"], sc["pat"]) for x in items], "only-if-exists": sc["oie"], "request-params": {}})
    elif op == "fm":
        p.update({"index": "_all", "max-num-segments": None, "mode": sc["mode"], "poll-period": secs})
    elif op == "csnap":
        p.update({"repository": "repo", "snapshot": "snap", "body": {"indices": "idx"}, "wait-for-completion": sc["wfc"]})
    elif op == "wsnap":
        p.update({"repository": "repo", "snapshot": "snap", "completion-recheck-wait-period": secs})
    elif op == "wcur":
        p.update({"repository": "repo", "completion-recheck-wait-period": secs})
    elif op == "rsnap":
        p.update({"repository": "repo", "snapshot": "snap", "body": {"indices": "idx"}, "wait-for-completion": sc["wfc"], "request-params": {}})
    elif op == "wrec":
        p.update({"index": "idx", "completion-recheck-wait-period": secs})
    elif op == "tstart":
        p.update({"transform-id": "t"})
    elif op == "twait":
        p.update(
            {
                "transform-id": "t",
                "force": False,
                "wait-for-completion": sc["wfc"],
                "wait-for-checkpoint": sc["wfcp"],
                "transform-timeout": sc["tmo"] * TICK,
                "poll-interval": secs,
            }
        )
    elif op == "sub":
        p.update({"name": "s%d" % k, "body": {"k": k, "query": {"match_all": {}}}, "index": "idx"})
    elif op == "get":
        p["retrieve-results-for"] = "s1" if sc["m"] == 1 and sc["n"] == 2 else ["s%d" % j for j in range(1, sc["m"] + 1)]
        if not sc["rus"]:
            p["retry-until-success"] = False
    elif op == "del":
        p["delete-results-for"] = ["s%d" % j for j in range(1, sc["n"] + 1)]
    elif op == "hl":
        rp = {}
        if sc["exp"]:
            rp["wait_for_status"] = sc["exp"]
        if sc["wfnrs"]:
            rp["wait_for_no_relocating_shards"] = "true"
        p.update({"index": "idx", "request-params": rp})
        if sc["rus"]:
            p["retry-until-success"] = True
    elif op == "shr":
        p.update({"source-index": "src*", "target-index": sc["tgt"], "target-body": {"settings": {"index.number_of_replicas": 0, "index.number_of_shards": 1}}})
        if sc["pat"]:
            p["shrink-node"] = sc["pat"]
    else:
        raise tlc.MachineryError("no parameters for %r" % op)
    return p


def _int(v, dflt=-99):
    return v if isinstance(v, int) and not isinstance(v, bool) and abs(v) < 2**31 else dflt


def meta_of(op, ret, run):
    if ret is None:
        return dict(NO_META)
    if not isinstance(ret, dict):
        return {"w": -99, "unit": repr(ret)[:20], "succ": "-", "a": 0, "b": 0, "tn": 0, "td": 0}
    m = {"w": _int(ret.get("weight")), "unit": ret.get("unit") if isinstance(ret.get("unit"), str) else "", "a": 0, "b": 0, "tn": 0, "td": 0}
    m["succ"] = "-" if "success" not in ret else "T" if ret["success"] is True else "F" if ret["success"] is False else "?"
    if "throughput" in ret:
        tp = ret["throughput"]
        if isinstance(tp, (int, float)) and not isinstance(tp, bool) and 0 <= tp < 2**31:
            fr = Fraction(tp).limit_denominator(10000)
            m["tn"], m["td"] = fr.numerator, fr.denominator
        else:
            m["tn"], m["td"] = -99, 1
    if op == "wsnap":
        m["a"], m["b"] = _int(ret.get("duration")), _int(ret.get("file_count"))
        if ret.get("start_time_millis") != 100 or ret.get("stop_time_millis") != 100 + ret.get("duration", 0):
            run.anomalies.append("wait-for-snapshot-create returned %r" % (ret,))
    elif op == "wrec":
        m["a"], m["b"] = _int(ret.get("start_time_millis")), _int(ret.get("stop_time_millis"))
    elif op == "get":
        m["a"] = len(ret["stats"]) if isinstance(ret.get("stats"), dict) else -99
    elif op == "hl":
        m["a"], m["b"] = rank(ret.get("cluster-status")), _int(ret.get("relocating-shards"))
    elif op == "twait":
        if ret.get("transform-id") != "t":
            run.anomalies.append("wait-for-transform returned %r" % (ret,))
    return m


def _comp(r):
    c = r.completed
    p = r.percent_completed
    comp = "N" if c is None else "T" if c is True else "F" if c is False else "?"
    if p is None:
        pct = -1
    elif isinstance(p, (int, float)) and not isinstance(p, bool) and abs(p * 100 - round(p * 100)) < 1e-9 and 0 <= p <= 100:
        pct = int(round(p * 100))
    else:
        pct = -2
    return comp, pct


def _cc(runner):
    try:
        ctx = runner.CompositeContext.ctx.get()
    except LookupError:
        return list(NO_CC)
    res = []
    for name in ("s1", "s2"):
        if name not in ctx:
            res.append(-1)
        elif ctx[name] is None:
            res.append(0)
        else:
            m = re.match(r"^as-(\d+)$", str(ctx[name]))
            res.append(int(m.group(1)) if m else -2)
    return res


def _why(ex, run):
    from esrally import exceptions

    w = getattr(ex, "verif_why", None)
    if w:
        return w
    if isinstance(ex, exceptions.RallyAssertionError):
        return "assert"
    run.internal.append("%s: %s" % (type(ex).__name__, str(ex)[:100]))
    return "internal"


def _loop_run(coro):
    loop = asyncio.new_event_loop()
    try:
        asyncio.set_event_loop(loop)
        return loop.run_until_complete(coro)
    finally:
        asyncio.set_event_loop(None)
        loop.close()


def execute(scn, script=None, seed=0, p_env=0.3, script_end=None):
    """The segment of the scenario on the registered runners; returns (trace item without id, run)."""
    global _CUR
    runner = _setup()
    # a fresh process: the runners are registered once per (worker) process
    runner.register_default_runners()
    run = Run(scn, script or {}, seed, p_env, script_end)
    es = _client_class(run)
    ops = seg_ops(scn)

    async def call(k, op):
        gap = scn["gap"] if k > 1 and op == "tstart" else 0
        run.es["now"] += gap
        run.events.append({"a": "B", "k": k, "op": op, "gap": gap})
        run.sleeps_in_call = 0
        r = runner.runner_for(OP_TYPE[op])
        params = build_params(scn, op, k)
        try:
            with es.new_request_context():
                async with r:
                    ret = await r({"default": es}, params)
        except (Cut, tlc.MachineryError):
            raise
        except Exception as ex:  # pylint: disable=broad-except
            comp, pct = _comp(r)
            run.events.append({"a": "R", "st": "err", "why": _why(ex, run), "meta": dict(NO_META), "comp": comp, "pct": pct, "cc": _cc(runner)})
            return False, comp
        comp, pct = _comp(r)
        run.events.append({"a": "R", "st": "ok", "why": "", "meta": meta_of(op, ret, run), "comp": comp, "pct": pct, "cc": _cc(runner)})
        return True, comp

    async def segment():
        k = 1
        ncalls = 0
        while k <= len(ops):
            op = ops[k - 1]
            ok, comp = await call(k, op)
            ncalls += 1
            if not ok:
                return
            if op == "twait" and comp != "T":
                # the driver's loop: a runner with a completion state is called until it reports completed
                if ncalls > 60:
                    raise tlc.MachineryError("wait-for-transform task does not complete: %s" % scn)
                continue
            k += 1

    async def task():
        if scn["fam"] == "as":
            async with runner.CompositeContext():
                await segment()
        else:
            await segment()

    _CUR = run
    asyncio.sleep = _fake_sleep
    _time.monotonic = _fake_monotonic
    try:
        _loop_run(task())
    except Cut:
        pass
    finally:
        asyncio.sleep = _orig_sleep
        _time.monotonic = _orig_monotonic
        _CUR = None
    item = {"scn": {k: scn[k] for k in SCN_KEYS}, "cut": run.cut, "skip": [], "events": run.events}
    return item, run


# ---------------------------------------------------------------------------------------------------
# case sources
# ---------------------------------------------------------------------------------------------------
_SIM_STATE = re.compile(r"^STATE_(\d+) ==\s*$", re.M)


def _last_state(path):
    with open(path, "r", encoding="utf-8") as f:
        text = f.read()
    ms = list(_SIM_STATE.finditer(text))
    body = text[ms[-1].end() :]
    lines = [ln for ln in body.splitlines() if not ln.startswith("\\*") and not ln.startswith("====")]
    return parse_state("\n".join(lines))


def _project(events):
    """What the model's histories h / calls say about a run, from recorded events."""
    hist, calls = [], []
    for e in events:
        if e["a"] == "Q":
            hist.append({"a": "Q", "req": e["req"], "resp": e["resp"], "chg": e["chg"]})
        elif e["a"] == "S":
            hist.append({"a": "S", "d": e["d"]})
        elif e["a"] == "E":
            hist.append({"a": "E", "lab": e["lab"], "n": e["n"]})
        elif e["a"] == "B":
            calls.append({"k": e["k"], "op": e["op"], "st": "run", "why": "", "meta": dict(NO_META), "comp": "N", "pct": -1, "cc": list(NO_CC)})
        elif e["a"] == "R":
            calls[-1].update({k: e[k] for k in ("st", "why", "meta", "comp", "pct", "cc")})
    return hist, calls


def _model_history(state):
    hist = []
    for ev in to_json(state["h"]) or []:
        if ev["a"] == "Q":
            hist.append({"a": "Q", "req": ev["req"], "resp": ev["resp"], "chg": ev["chg"]})
        elif ev["a"] == "S":
            hist.append({"a": "S", "d": ev["d"]})
        else:
            hist.append({"a": "E", "lab": ev["lab"], "n": ev["n"]})
    calls = [{k: c[k] for k in ("k", "op", "st", "why", "meta", "comp", "pct", "cc")} for c in (to_json(state["calls"]) or [])]
    return hist, calls


def _scn_json(v):
    s = to_json(v)
    s = {k: s[k] for k in SCN_KEYS}
    s["items"] = list(s["items"] or [])
    s["es0"]["srch"] = list(s["es0"]["srch"] or [])
    s["es0"]["rec"]["sh"] = list(s["es0"]["rec"]["sh"] or [])
    s["es0"]["shr"] = list(s["es0"]["shr"] or [])
    s["sfx"] = list(s["sfx"] or [])
    return s


def behaviours_from_tlc(res):
    cases = []
    for fn in sorted(glob.glob(os.path.join(res.wd, "sim", "b_*"))):
        last = _last_state(fn)
        if last["rn"]["stage"] in ("cfgA", "cfgB"):
            continue
        hist, calls = _model_history(last)
        script = {}
        vis = 0
        for ev in hist:
            if ev["a"] == "E":
                script.setdefault(vis, []).append((ev["lab"], ev["n"]))
            else:
                vis += 1
        cases.append({"src": "tlc-simulate", "scn": _scn_json(last["scn"]), "script": script, "script_end": vis, "model": {"h": hist, "calls": calls, "complete": last["rn"]["stage"] == "end"}})
    return cases


def _objs(names):
    return {"a": "a" in names, "b": "b" in names}


def suffixes(names):
    """What is left of each name without the common prefix of all of them (character-wise, like os.path.commonprefix)."""
    n = 0
    while all(len(x) > n for x in names) and len({x[n] for x in names}) == 1:
        n += 1
    return [x[n:] for x in names]


SHRINK_SOURCES = [["src"], ["src-a", "src-b"], ["src1", "src2", "src-2020"], ["ab", "abc"], ["x", "y"], ["logs-1", "logs-10", "logs-2"], ["idx"]]


def random_scenario(rnd):
    """Wider than the sets of MC_Polling*.tla: other item lists, periods, sizes, three shards, bigger gaps, threshold step sizes."""
    fam = rnd.choice(["obj", "obj", "obj", "fm", "snap", "snap", "cur", "rec", "rec", "tf", "tf", "tf", "tf", "as", "as", "hl", "hl", "shr", "shr"])
    sub = lambda: [n for n in ("a", "b") if rnd.random() < 0.5]  # noqa: E731
    e = es0()
    kw = {"fam": fam, "fail": rnd.choice([0, 0, 0, 0] + list(range(1, 13)))}
    if fam == "obj":
        op = rnd.choice(CREATE_OPS + DELETE_OPS + ("dpt", "dit", "di"))
        kw.update(op=op, items=rnd.choice([["a"], ["b"], ["a", "b"], ["b", "a"], ["a", "b"], [] if op in CREATE_OPS else ["a"]]))
        e[KIND_OF[op]] = _objs(sub())
        if op in DELETE_OPS:
            kw["oie"] = rnd.random() < 0.5
            e["drn"] = rnd.choice(["none", "true", "false"])
        if op in ("dpt", "dit"):
            kw["dmi"], kw["pat"] = rnd.choice([(False, ""), (True, "*"), (True, "*"), (True, ""), (False, "*")])
            e["idx"] = _objs(sub())
    elif fam == "fm":
        kw.update(mode=rnd.choice(["blocking", "polling", "polling"]), mo=rnd.choice(["ok", "timeout", "timeout"]), pp=rnd.choice([1, 2, 7, 20, 40]))
    elif fam == "snap":
        kw.update(op=rnd.choice(["cw", "w"]), wfc=rnd.random() < 0.3, fin=rnd.choice(["SUCCESS", "FAILED", "PARTIAL"]), dur=rnd.choice([0, 1, 2, 8, 1000]))
        kw.update(size=rnd.choice([0, 1, 4000, 123456]), pp=rnd.choice([1, 2, 3]), mshape=rnd.choice(["nokey", "empty"]))
        if kw["op"] == "w":
            e["snap"]["st"] = rnd.choice(["none", "run", "run", "SUCCESS", "FAILED", "PARTIAL"])
    elif fam == "cur":
        kw.update(ver=rnd.choice(["7.17.3", "8.3.0", "nonum"]), pp=rnd.choice([1, 2, 4]))
        e["snap"] = {"st": rnd.choice(["none", "run", "SUCCESS"]), "others": rnd.randint(0, 3)}
    elif fam == "rec":
        kw.update(op=rnd.choice(["rw", "rw", "w"]), wfc=rnd.random() < 0.25, n=rnd.randint(1, 3), dur=rnd.choice([0, 1, 2, 5]), pp=rnd.choice([1, 2, 6]))
        if kw["op"] == "w":
            e["rec"] = {"req": True, "sched": True, "sh": [rnd.randint(0, 2) for _ in range(kw["n"])]}
    elif fam == "tf":
        ds, ps = rnd.choice([(6000, 600), (100, 30), (5001, 501), (5000, 500), (5001, 500), (7000, 0), (3000, 300)])
        kw.update(n=rnd.choice([1, 2]), wfc=rnd.random() < 0.8, wfcp=rnd.random() < 0.7, cont=rnd.random() < 0.5, dstep=ds, pstep=ps)
        kw.update(tmo=rnd.choice([1, 2, 3, 5, 100, 7200]), pp=rnd.choice([1, 1, 2]), gap=rnd.choice([0, 0, 4, 10, 50]) if kw["n"] == 2 else 0)
    elif fam == "as":
        n = rnd.randint(1, 2)
        kw.update(n=n, m=rnd.randint(1, n), sync=[rnd.random() < 0.3, n == 2 and rnd.random() < 0.3], rus=rnd.random() < 0.75)
    elif fam == "shr":
        src = rnd.choice(SHRINK_SOURCES)
        kw.update(items=list(src), sfx=suffixes(src), tgt=rnd.choice(["tgt", "target-"]), pat=rnd.choice(["", "", "n0"]), n=rnd.randint(0, 3))
        kw.update(rl=rnd.randint(0, 2), mo=rnd.choice(["ok", "timeout", "timeout", "stale"]), fail=rnd.choice([0, 0, 0] + list(range(1, 16))))
    else:
        kw.update(exp=rnd.choice(["", "yellow", "green", "GREEN", "purple", "red"]), wfnrs=rnd.random() < 0.5, rus=rnd.random() < 0.6)
        e["hl"] = {"status": rnd.choice(["red", "yellow", "green"]), "reloc": rnd.randint(0, 3)}
    kw["es0"] = e
    return base_scn(**kw)


# ---------------------------------------------------------------------------------------------------
# verdicts
# ---------------------------------------------------------------------------------------------------
def _signature(clauses, scn):
    return {
        "clauses": sorted(clauses),
        "fam": scn["fam"],
        "ops": seg_ops(scn),
        "pinned_switches": sorted({PINNED[c][0] for c in clauses if c in PINNED}),
        "unexpected": sorted(c for c in clauses if c not in PINNED),
        "scripted_failure": scn["fail"] != 0,
    }


def _small(case):
    scn = case["scn"]
    d = base_scn()
    diff = {k: v for k, v in scn.items() if k != "es0" and d[k] != v}
    diff["es0"] = {k: v for k, v in scn["es0"].items() if es0()[k] != v}
    return {"scn": diff, "script": {str(k): v for k, v in sorted((case.get("script") or {}).items())}, "seed": case.get("seed"), "p_env": case.get("p_env")}


def _report_l1(out, stats, tid, fails, case, has_l2):
    """Clauses in PINNED are strong forms which /repo is known not to meet: a run that fails only those AND is step by step a
    behaviour of the model of the code as it is (no L2 verdict) shows pinned behaviour (counted, one small example each).  Everything
    else - another clause, or a pinned clause in a run that is not a behaviour of the model - is a violation."""
    clauses = sorted({c for _, cl in fails for c in cl})
    for c in clauses:
        stats["l1"][c] = stats["l1"].get(c, 0) + 1
    fresh = [c for c in clauses if c not in PINNED]
    if fresh or has_l2:
        key = ",".join(c + ("(pinned clause, but the run is not a behaviour of the model)" if c in PINNED and not fresh else "") for c in (fresh or clauses))
        if fresh and len(fresh) < len(clauses):
            key += " (+ %s)" % ",".join(c for c in clauses if c in PINNED)
        stats["l1_new"][key] = stats["l1_new"].get(key, 0) + 1
        if stats["l1_new"][key] <= MAX_VIOLATIONS_PER_KIND:
            out.violations.append(
                Violation(key, _small(case), signature=_signature(clauses, case["scn"]), detail="run %s, first failing event %d, clauses %s" % (tid, fails[0][0], clauses))
            )
        return True
    for c in clauses:
        rec = out.extra.setdefault("pinned_behaviour_observed", {}).setdefault(c, {"switch": PINNED[c][0], "what": PINNED[c][1], "runs": 0, "example": None, "size": None})
        rec["runs"] += 1
        size = len(json.dumps(_small(case)))
        if rec["example"] is None or size < rec["size"]:
            rec["example"] = {"run": tid, "event": min(ln for ln, cl in fails if c in cl), "case": _small(case)}
            rec["size"] = size
    return False


def _explain_drift(out, items, label):
    """Runs that are not behaviours of the model of the code as it is: do they all fit the model with one switch flipped,
    i.e. has a pinned behaviour been repaired in the tree under test?"""
    if not items:
        return
    with open(os.path.join(tlc.SPECS, SPEC, "TracePolling.cfg"), encoding="utf-8") as f:
        base = f.read()
    for switch in SWITCHES:
        txt = base.replace("%s = FALSE" % switch, "%s = TRUE" % switch)
        v = tracecheck.validate(SPEC, "TracePolling", "TracePolling.cfg", copy.deepcopy(items[:100]), name="xpovar", cfg_text=txt, timeout=300, skip_field="skip")
        if not v.l2:
            out.drift.append(
                "%s: the %d runs that are not steps of the model of the code as it is are all accepted with %s = TRUE: this behaviour seems to have been repaired; switch the cfgs of specs/Polling over"
                % (label, len(items), switch)
            )
            return


def run_cases(cases, out, label, stats):
    items, index = [], {}
    for ci, case in enumerate(cases):
        scn = case["scn"]
        item, run = execute(scn, case.get("script"), seed=case.get("seed", 0), p_env=case.get("p_env", 0.3), script_end=case.get("script_end"))
        item["id"] = "%s-%d" % (label, ci)
        items.append(item)
        index[item["id"]] = (case, item)
        evs = item["events"]
        nq = sum(1 for e in evs if e["a"] == "Q")
        out.add_case({"scn": scn, "script": sorted((case.get("script") or {}).items()), "seed": case.get("seed", 0)}, nontrivial=nq >= 2)
        stats["runs"] += 1
        stats["requests"] += nq
        stats["sleeps"] += sum(1 for e in evs if e["a"] == "S")
        stats["cluster_steps"] += sum(1 for e in evs if e["a"] == "E")
        stats["by_family"][scn["fam"]] = stats["by_family"].get(scn["fam"], 0) + 1
        stats["failed_calls"] += any(e["a"] == "R" and e["st"] == "err" for e in evs)
        stats["assertion_errors"] += any(e["a"] == "R" and e["why"] == "assert" for e in evs)
        stats["cut"] += run.cut
        stats["runaway"] += run.runaway
        stats["script_misses"] += run.script_misses
        stats["polled_more_than_once"] += sum(1 for e in evs if e["a"] == "S") >= 2
        stats["ignored_404"] += any(e["a"] == "Q" and e["req"]["api"] == "delete" and e["resp"]["ok"] and not e["resp"]["val"] for e in evs)
        stats["pattern_delete"] += any(e["a"] == "Q" and e["req"]["api"] == "deletepat" for e in evs)
        stats["completed_tasks"] += sum(1 for e in evs if e["a"] == "R" and e["comp"] == "T")
        stats["second_task"] += any(e["a"] == "B" and e["op"] == "twait" and e["k"] == 4 for e in evs)
        stats["ctx_removed"] += any(e["a"] == "Q" and e["req"]["api"] == "as.delete" and e["resp"]["ok"] for e in evs)
        for a in run.anomalies:
            stats["anomalies"][a[:160]] = stats["anomalies"].get(a[:160], 0) + 1
        for a in run.internal:
            key = re.sub(r"\d+", "N", a)[:100]
            stats["internal_errors"][key] = stats["internal_errors"].get(key, 0) + 1
        if case.get("model") is not None:
            hist, calls = _project(evs)
            mh, mc = case["model"]["h"], case["model"]["calls"]
            stats["s2c"] += 1
            if case["model"]["complete"]:
                stats["s2c_complete"] += 1
                same = hist == mh and calls == mc
            else:
                same = hist[: len(mh)] == mh
            stats["s2c_followed"] += same
            if not same and len(out.drift) < 6:
                out.drift.append("%s: the real runners do not reproduce the TLC behaviour of scenario %s" % (item["id"], _small(case)))
    if not items:
        raise tlc.MachineryError("no runs for %s" % label)
    verdicts = tracecheck.validate(SPEC, "TracePolling", "TracePolling.cfg", items, name="xpotrace", chunk=1500, skip_field="skip", timeout=600)
    out.states += verdicts.n_events
    out.transitions += verdicts.n_events
    bad = set(verdicts.l2)
    for tid, fails in sorted(verdicts.l1.items()):
        case, item = index[tid]
        if _report_l1(out, stats, tid, fails, case, tid in verdicts.l2):
            bad.add(tid)
    out.traces_validated += len(items) - len(bad)
    drifted = []
    for tid, lines in sorted(verdicts.l2.items()):
        case, item = index[tid]
        ln = lines[0]
        what = item["events"][ln - 1] if 1 <= ln <= len(item["events"]) else "end of run"
        if isinstance(what, dict):
            what = {k: v for k, v in what.items() if k != "es"}
        if len(out.drift) < 12:
            out.drift.append("run %s: event %d (%s) is not a step of Polling.tla (code as it is); case %s" % (tid, ln, json.dumps(what, sort_keys=True)[:300], _small(case)))
        stats["l2"] += 1
        drifted.append(item)
    stats["drifted_items"].extend(drifted[:60])
    return items


def _binding_selftest(out, items):
    """Tampered recordings must be rejected: a recording without one of its sleeps (L1 SleepBetweenPolls), one whose last poll is
    answered by a cluster that is not there yet but still returns (L2), one with a delete request that nobody guarded (L1)."""
    tampered = []
    for it in items:
        evs = it["events"]
        # a sleep between two identical polls of one call
        sl = []
        for i, e in enumerate(evs):
            if e["a"] != "S" or it["scn"]["fam"] in ("shr", "fm"):
                continue
            before = [x for x in evs[:i] if x["a"] != "E"]
            after = [x for x in evs[i + 1 :] if x["a"] != "E"]
            if before and after and before[-1]["a"] == "Q" and after[0]["a"] == "Q" and before[-1]["req"] == after[0]["req"]:
                sl.append(i)
        if sl and not any(t["id"] == "tamper-sleep" for t in tampered):
            t = copy.deepcopy(it)
            del t["events"][sl[0]]
            t["id"] = "tamper-sleep"
            tampered.append(t)
        gd = [i for i, e in enumerate(evs) if e["a"] == "Q" and e["req"]["api"] == "exists" and e["resp"]["val"]]
        if gd and not any(t["id"] == "tamper-exists" for t in tampered):
            t = copy.deepcopy(it)
            del t["events"][gd[0]]
            t["id"] = "tamper-exists"
            tampered.append(t)
        rs = [i for i, e in enumerate(evs) if e["a"] == "R" and e["st"] == "ok" and e["meta"]["w"] >= 0]
        if rs and not any(t["id"] == "tamper-weight" for t in tampered):
            t = copy.deepcopy(it)
            t["events"][rs[0]]["meta"]["w"] += 1
            t["id"] = "tamper-weight"
            tampered.append(t)
    if len(tampered) < 3:
        out.vacuous.append("binding self-test: only %d of 3 tampered recordings could be built" % len(tampered))
    if not tampered:
        return
    v = tracecheck.validate(SPEC, "TracePolling", "TracePolling.cfg", tampered, name="xpotamper", skip_field="skip", timeout=300)
    missed = [t["id"] for t in tampered if t["id"] not in v.l1 and t["id"] not in v.l2]
    if missed:
        raise tlc.MachineryError("binding self-test failed: tampered recordings %s are accepted by TracePolling.tla" % missed)
    want = {"tamper-sleep": "SleepBetweenPolls", "tamper-exists": "DeleteGuarded"}
    for tid, clause in want.items():
        if any(t["id"] == tid for t in tampered) and not any(clause in cl for _, cl in v.l1.get(tid, [])):
            raise tlc.MachineryError("binding self-test failed: %s is not rejected by L1 clause %s (%s)" % (tid, clause, v.l1.get(tid)))
    out.extra["binding_selftest"] = "tampered recordings (a sleep removed: L1 SleepBetweenPolls; the exists check removed: L1 DeleteGuarded; weight + 1: L2) are rejected by TLC: %s" % sorted(t["id"] for t in tampered)


# ---------------------------------------------------------------------------------------------------
SELFTESTS = [
    ("weight", "WeightIsEffect", "WeightAsDocumented=FALSE (code): ignored 404s, settings round trips and pattern deletes are counted as deleted objects"),
    ("restore", "SettingRestored", "RestoreOnlyIfChanged=FALSE (code): a failing read of the destructive setting makes `finally` reset it to null"),
    ("partial", "NoPollAfterTerminal", "PartialTerminates=FALSE (code): wait-for-snapshot-create goes on polling a PARTIAL snapshot"),
    ("missing", "NoInternalError", "MissingSnapshotChecked=FALSE (code): {'snapshots': []} -> IndexError"),
    ("zerodur", "NoInternalError", "ZeroDurationSafe=FALSE (code): a snapshot / recovery of 0 ms -> ZeroDivisionError"),
    ("fresh.stop", "StopOncePerTask", "FreshPerTask=FALSE (code): the second wait-for-transform task sends no stop request"),
    ("fresh.holds", "ReturnsOnlyWhenHolds", "FreshPerTask=FALSE (code): the second task reports completed while the transform is indexing"),
    ("fresh.completion", "CompletionProtocol", "FreshPerTask=FALSE (code): completed with percent_completed < 1"),
    ("fresh.timeout", "AssertHasCause", "FreshPerTask=FALSE (code): transform-timeout of the second task counted from the start of the first"),
]


def _jobs(ctx):
    q = ctx.quick
    jobs = [("sim", "MC_PollingL", "Polling.sim.cfg", {"timeout": 300, "workers": 1, "sim": (260 if q else 3000, 90), "seed": ctx.seed + 47})]
    if q:
        jobs.append(("mc", "MC_Polling", "Polling.quick.cfg", {"timeout": 200, "workers": 3, "allow_violation": True}))
        jobs.append(("mc", "MC_Polling", "Polling.intended.cfg", {"timeout": 200, "workers": 3, "allow_violation": True}))
    else:
        jobs.append(("mc", "MC_PollingL", "Polling.thorough.cfg", {"timeout": 1500, "workers": 6, "allow_violation": True}))
        jobs.append(("mc", "MC_PollingL", "Polling.intended.thorough.cfg", {"timeout": 1500, "workers": 6, "allow_violation": True}))
    for name, _inv, _text in SELFTESTS:
        jobs.append(("self", "MC_Polling", "Polling.pinned.%s.cfg" % name, {"timeout": 200, "workers": 2, "allow_violation": True}))
    return jobs


def _run_job(job):
    kind, module, cfg, kw = job
    kw = dict(kw)
    try:
        wd = tlc.prepare_workdir(SPEC, "xpo")
        sim = kw.pop("sim", None)
        if sim:
            os.makedirs(os.path.join(wd, "sim"))
            kw["simulate"] = {"num": sim[0], "file": os.path.join(wd, "sim", "b")}
            kw["depth"] = sim[1]
        res = tlc.run_tlc(wd, module, cfg, **kw)
        res.wd = wd
        return res
    except Exception as ex:  # pylint: disable=broad-except
        return ex


def _get(fut):
    res = fut.result()
    if isinstance(res, Exception):
        raise res
    return res


def run(ctx, out):
    out.rule = (
        "case = one scenario (family, operation, its parameters, the initial cluster, the position of one failing request) + the steps the "
        "cluster takes by itself and when (script / seed); distinct by hash; non-trivial = at least 2 requests. Sources: TLC -simulate "
        "behaviours (S2C) and seeded random scenarios with random cluster timing and wider parameters (C2S only)."
    )
    out.assumptions = [
        "the fake Elasticsearch is the Python twin of Serve / EnvSucc in Polling.tla (L2 compares them on every request and step): objects "
        "a, b per kind; HEAD index is true for a data stream; a wildcard delete needs action.destructive_requires_name=false; PUT template "
        "overwrites, PUT index / data stream of an existing name is a 400; an ignored 404 returns the error body; the status API answers "
        "{'snapshots': []} for an unknown snapshot with ignore_unavailable (or no key at all, as the unit tests of /repo assume)",
        "the client is faked at the level of the elasticsearch-py API methods the runners call (argument shapes are checked, unexpected ones "
        "are reported as drift); request-timeout / headers / opaque-id handling and the deprecated-parameter rewriting of elasticsearch-py are not exercised",
        "the runners are the registered ones (runner_for after register_default_runners, registered anew for every run like in a fresh worker "
        "process), called like driver.execute_single; a runner with a completion state is called again until it reports completed",
        "time passes only in asyncio.sleep (requests take no time); time.monotonic is the virtual clock; between two transform tasks scn.gap ticks pass",
        "shrink-index: cluster health with wait_for_no_relocating_shards either waits inside the request, answers 408 while shards move (retried by the "
        "runner's own Retry) or answers 200 with shards still moving; source names come from a table, their suffixes (name without the common prefix) are scenario data",
        "one client per task; serverless mode, retries > 0 / retry-on-timeout of runner.Retry (property C16) and composite scheduling (extra Composite) are not varied here",
    ]
    _setup()
    stats = {
        k: 0
        for k in (
            "runs requests sleeps cluster_steps failed_calls assertion_errors cut script_misses polled_more_than_once ignored_404 pattern_delete "
            "completed_tasks second_task ctx_removed s2c s2c_complete s2c_followed l2 runaway"
        ).split()
    }
    stats.update(l1={}, l1_new={}, anomalies={}, internal_errors={}, by_family={}, drifted_items=[])
    jobs = _jobs(ctx)
    pool = ThreadPoolExecutor(4)
    try:
        futs = [(job, pool.submit(_run_job, job)) for job in jobs]
        # ---- Leg S2C
        sim_res = _get(futs[0][1])
        if not sim_res.ok:
            raise tlc.MachineryError("simulation reported a model violation: %s" % sim_res.out[-2000:])
        out.add_tlc(sim_res)
        sim = behaviours_from_tlc(sim_res)
        for i, c in enumerate(sim):
            c["seed"] = ctx.seed * 1000003 + i
        out.note("leg S2C: %d TLC -simulate behaviours (%d complete)" % (len(sim), sum(1 for c in sim if c["model"]["complete"])))
        items = run_cases(sim, out, "sim", stats)
        out.sample({"source": "tlc-simulate", "case": _small(sim[0]), "recorded_events": [{k: v for k, v in e.items() if k != "es"} for e in items[0]["events"][:8]]})
        # ---- Leg C2S: seeded random scenarios, random cluster timing
        rnd = random.Random(ctx.seed + 53)
        rc = []
        for i in range(700 if ctx.quick else 9000):
            rc.append({"src": "random", "scn": random_scenario(rnd), "script": {}, "seed": ctx.seed * 7919 + i, "p_env": rnd.choice([0.0, 0.15, 0.3, 0.6, 1.0])})
        items = run_cases(rc, out, "rnd", stats)
        out.sample({"source": "random", "case": _small(rc[0]), "recorded_events": [{k: v for k, v in e.items() if k != "es"} for e in items[0]["events"][:8]]})
        # ---- Leg M
        for (kind, module, cfg, _kw), fut in futs[1:]:
            res = _get(fut)
            if kind == "mc":
                out.add_tlc(res)
                if not res.ok:
                    raise tlc.MachineryError("model violates %s in %s: %s" % (res.invariant_violated or res.property_violated or "?", cfg, res.out[-1500:]))
                out.note("leg M %s: %d distinct states, depth %d, %.1fs" % (cfg, res.distinct, res.depth, res.wall_s))
            else:
                name = cfg[len("Polling.pinned.") : -len(".cfg")]
                inv, text = next((i, t) for n, i, t in SELFTESTS if n == name)
                if res.invariant_violated != inv:
                    raise tlc.MachineryError("self-test failed: %s no longer violates %s (%s)" % (cfg, inv, res.invariant_violated or res.error or "no violation"))
                out.extra.setdefault("model_selftests", []).append("%s violates %s in the model, as expected: %s" % (cfg, inv, text))
    finally:
        pool.shutdown(wait=True)
    _binding_selftest(out, items)
    _explain_drift(out, stats.pop("drifted_items"), "sim+rnd")
    out.exhaustive = False
    out.extra["coverage_of_runs"] = stats
    out.note(
        "leg C2S: %d runs (%d requests, %d sleeps, %d cluster steps) validated, %d accepted without any new verdict; S2C: %d/%d TLC behaviours "
        "reproduced event by event (%d complete); runs per family %s; with: failed call %d, assertion error %d, >= 2 sleeps %d, ignored 404 %d, "
        "pattern delete %d, second transform task %d, context entry removed %d, cancelled as endless %d"
        % (
            stats["runs"],
            stats["requests"],
            stats["sleeps"],
            stats["cluster_steps"],
            out.traces_validated,
            stats["s2c_followed"],
            stats["s2c"],
            stats["s2c_complete"],
            json.dumps(stats["by_family"], sort_keys=True),
            stats["failed_calls"],
            stats["assertion_errors"],
            stats["polled_more_than_once"],
            stats["ignored_404"],
            stats["pattern_delete"],
            stats["second_task"],
            stats["ctx_removed"],
            stats["cut"],
        )
    )
    for c, rec in sorted(out.extra.get("pinned_behaviour_observed", {}).items()):
        rec.pop("size", None)
        out.note("pinned behaviour of /repo (strong clause %s fails in %d runs; model switch %s = FALSE): %s; smallest example %s" % (c, rec["runs"], rec["switch"], rec["what"], json.dumps(rec["example"], sort_keys=True)[:500]))
    if stats["l1_new"]:
        out.note("L1 violations that are NOT pinned behaviour: %s" % json.dumps(stats["l1_new"], sort_keys=True))
    if stats["anomalies"]:
        out.drift.append("requests with an unexpected shape: %s" % json.dumps(stats["anomalies"], sort_keys=True)[:600])
    expected_internal = ("IndexError: list index out of range", "ZeroDivisionError: float division by zero", "ZeroDivisionError: division by zero")
    unexpected_internal = {k: v for k, v in stats["internal_errors"].items() if not k.startswith(expected_internal)}
    if unexpected_internal:
        out.note("internal errors of the runners outside the pinned ones: %s" % json.dumps(unexpected_internal, sort_keys=True)[:600])
    if stats["runaway"]:
        out.drift.append("%d runs were cancelled after %d events (a polling loop that neither sleeps nor ends?)" % (stats["runaway"], MAX_EVENTS))
    if stats["script_misses"]:
        out.drift.append("%d scripted cluster steps of TLC behaviours were not enabled when the real run reached their position" % stats["script_misses"])
    for key in ("failed_calls", "assertion_errors", "polled_more_than_once", "ignored_404", "pattern_delete", "second_task", "ctx_removed", "completed_tasks", "s2c_followed", "cluster_steps"):
        if not stats[key]:
            out.vacuous.append("no executed run exercised: " + key)
    if out.vacuous:
        out.note("VACUOUS (kinds of runs this seed did not produce): %s" % out.vacuous)
    out.drift.sort(key=lambda d: 0 if "seems to have been repaired" in d else 1)
    if out.drift:
        out.note("MODEL-DRIFT in %d places, first: %s" % (len(out.drift), out.drift[0][:600]))
    stats["l1_new"] = dict(stats["l1_new"])
