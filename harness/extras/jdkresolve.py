"""Extra module JdkResolve: WHICH JDK Rally uses and what it hands on (esrally/utils/jvm.py resolve_path / major_version / system_property /
is_early_access_release / supports_option, esrally/mechanic/java_resolver.py java_home, the build side ElasticsearchSourceSupplier.prepare ->
resolve_build_jdk_major (.ci/java-versions.properties) -> Builder.java_home, provisioner.local -> installers' hook environment,
ProcessLauncher._start_node -> _prepare_env; specs/JdkResolve).  Function-like: (environment = JAVA_HOME / JAVAx_HOME -> unset | "" | no
bin/java | not executable | no JVM | JDK major m | JDK below a path with a blank ; request = car's runtime.jdk list, --runtime-jdk unset /
number / bundled, runtime.jdk.bundled, system/passenv | resolve_path(list) | resolve_path(int) | build | ea | option probe) -> result.
Invariants (TLC over the whole small space + L1 on every recorded call of the REAL functions): AcceptableMajor, RealMajorMatches (a variable is
used only if the JDK behind it really has that major; JAVA_HOME too), FirstPreferred (the FIRST installed major of the car's list wins, not the
highest), SpecificBeforeGeneric (JAVAx_HOME beats JAVA_HOME), NotFoundJustified, ErrorNamesLookedFor (SystemSetupError names every acceptable
major and only candidate variables), BundledHonoured / BundledOnRequestOnly (bundled -> no JAVA_HOME, needs runtime.jdk.bundled; never chosen
silently), CarInvalidExplicit, LaunchEnvConsistent (JAVA_HOME = ES_JAVA_HOME = the chosen path, PATH starts with its bin, GC log flags fit its
major, installers / build command get the same path), SameChoice (direct call, provisioner and launcher agree), EaClassified, OptionProbed.
--runtime-jdk=<n> forces n even if the car does not list it (docs: "force").  /repo does not meet four strong forms: each is pinned behind a
model switch (SingleFallsBack, BrokenIsSkipped, QuotePath, BundledDropsJavaHome; FALSE = /repo) with a self-test cfg and shown as a note.

Leg M   : TLC on JdkResolve.quick.cfg (code as it is, weak clauses) / thorough, JdkResolve.intended.cfg (all switches TRUE: weak AND strong clauses
          AND DocChoice = the complete documented selection), 6 pinned self-tests (one switch FALSE -> the named strong clause is violated).
Leg S2C : every state of the TLC run (-dump) = one (environment, request) pair executed on the REAL functions: os.environ replaced, the JDKs are
          (a) answered by a fake subprocess.Popen inside esrally.utils.process (the real run_subprocess_with_output / system_property regex run on
          `java -XshowSettings:properties`-style text), (b) a fake sysprop_reader (resolve_path(list|int), ea), (c) for a seeded sample REAL
          directories with a bin/java shell script executed by the real subprocess module.
Leg C2S : every recorded result (S2C ones and seeded random ones: other majors / variables / list orders / spellings of the car value and of the
          properties file) is validated by TLC against TraceJdkResolve.tla (L1 all clauses, L2 = Code / LaunchEnv of the model as it is);
          results that are not the transcription's are re-validated with one switch flipped (repaired tree or broken tree?).
"""
import copy
import json
import os
import random
import re
import shlex
import shutil
import stat
import subprocess
from unittest import mock

from .. import fastdump, tlc, tracecheck
from ..core import Violation

SPEC = "JdkResolve"
SWITCHES = ["SingleFallsBack", "BrokenIsSkipped", "QuotePath", "BundledDropsJavaHome"]
MAX_VIOLATIONS_PER_KIND = 10
OUTER_PATH = "/usr/bin:/bin"
OUTER_ES_JAVA_HOME = "/verif-outer/es-java-home"
KNOWN_OPT = "-XX:+VerifKnownOption"
UNKNOWN_OPT = "-XX:+VerifUnknownOption"
CAR_BUILD_JDK = 9  # the car's build.jdk; ElasticsearchSourceSupplier.prepare replaces it by what the source tree says
BAD_CARS = ["17,x", "", "17;11", "eleven", "17,", "1.8"]
NO_ENV = {"jh": "-", "esjh": "-", "path": "-", "inst": "-", "gc": "-", "same": True}
# strong L1 clauses which the code as it is does not meet: clause -> (model switch that repairs it, what happens)
PINNED = {
    "FoundIfAvailable": (
        "SingleFallsBack / BrokenIsSkipped / QuotePath",
        "a fitting JDK is installed and pointed to, yet nothing is found: resolve_path(<int>) (build JDK) stops at a JAVAx_HOME that holds another major instead of "
        "falling back to JAVA_HOME as the list form does; a candidate variable whose path has no usable bin/java (or contains a blank) aborts the search with a raw exception",
    ),
    "ErrorsExplicit": ("BrokenIsSkipped / QuotePath", "a JAVA_HOME / JAVAx_HOME without usable bin/java ends in FileNotFoundError / PermissionError / AttributeError ('NoneType' has no attribute 'startswith') instead of a SystemSetupError naming the variable"),
    "BundledIgnoresJavaHome": ("BundledDropsJavaHome", "--runtime-jdk=bundled with JAVA_HOME / ES_JAVA_HOME listed in system/passenv: the outer value reaches Elasticsearch (docs/migrate.rst: 'not honor any JAVA_HOME settings')"),
    "BlankPathUsable": ("QuotePath", "is_early_access_release raises / supports_option says False for a working JDK below a directory with a blank (command line is split by shlex without quoting)"),
}

RE_VAR = re.compile(r"\bJAVA\d*_HOME\b")
RE_INT = re.compile(r"(?<!\w)(?<!\d\.)\d+(?!\w|\.\d)")
MESSAGES = [
    ("wrong", re.compile(r"JAVA\d*_HOME points to JDK \d+ but it should point to JDK \d+\.")),
    ("neither", re.compile(r"Neither JAVA\d+_HOME nor JAVA_HOME point to a JDK \d+ installation\.")),
    ("unusable", re.compile(r"JAVA\d*_HOME does not point to a usable JDK.* JDK \d+\.")),  # not in /repo: the message of the proposed patch
    ("install", re.compile(r"Install a JDK with one of the versions \[.*\] and point to it with one of \[.*\]\.")),
    ("nobundle", re.compile(r"This Elasticsearch version does not contain a bundled JDK\..*")),
    ("carinvalid", re.compile(r'Car config key "runtime\.jdk" is invalid: .*')),
]


class _Captured(Exception):
    """Raised by the stand-in for ProcessLauncher._start_process: carries the environment Elasticsearch would have been started with."""

    def __init__(self, binary_path, env):
        super().__init__("captured")
        self.binary_path = binary_path
        self.env = dict(env)


# ===================================================================================================
# the modelled JDKs: text of `java -XshowSettings:properties -version`, virtual and real installations
# ===================================================================================================
def jdk_output(t, home):
    maj = t["maj"]
    old = maj <= 8
    specv = "1.%d" % maj if old else str(maj)
    if t["ea"]:
        version = "1.%d.0-ea" % maj if old else "%d-ea" % maj
    else:
        version = "1.%d.0_292" % maj if old else "%d.0.2" % maj
    specvendor = "Oracle Corporation" if t["ora"] else "Acme Runtime Corp"
    vendor = "Eclipse Adoptium" if not t["ora"] else "Oracle Corporation"
    lines = [
        "Property settings:",
        "    file.encoding = UTF-8",
        "    file.separator = /",
        "    java.class.path = ",
        "    java.class.version = %d.0" % (44 + maj),
        "    java.home = %s" % home,
        "    java.io.tmpdir = /tmp",
        "    java.library.path = /usr/java/packages/lib",
        "        /usr/lib64",
        "        /lib64",
        "    java.runtime.name = OpenJDK Runtime Environment",
        "    java.runtime.version = %s+7" % version,
        "    java.specification.name = Java Platform API Specification",
        "    java.specification.vendor = Oracle Corporation",
        "    java.specification.version = %s" % specv,
        "    java.vendor = %s" % vendor,
        "    java.vendor.url = https://example.org/",
        "    java.version = %s" % version,
        "    java.version.date = 2021-07-20",
        "    java.vm.compressedOopsMode = Zero based",
        "    java.vm.info = mixed mode, sharing",
        "    java.vm.name = OpenJDK 64-Bit Server VM",
        "    java.vm.specification.name = Java Virtual Machine Specification",
        "    java.vm.specification.vendor = %s" % specvendor,
        "    java.vm.specification.version = %s" % specv,
        "    java.vm.vendor = %s" % vendor,
        "    java.vm.version = %s+7" % version,
        "    line.separator = \\n ",
        "    os.arch = amd64",
        "    user.language = en",
        "",
    ]
    return lines + banner(t)


def banner(t):
    return ['openjdk version "%d" 2021-07-20' % t["maj"], "OpenJDK Runtime Environment (build %d+7)" % t["maj"], "OpenJDK 64-Bit Server VM (build %d+7, mixed mode, sharing)" % t["maj"]]


ANCIENT = ["Unrecognized option: %s", "Could not create the Java virtual machine."]
UNKNOWN = ["Unrecognized VM option '%s'", "Error: Could not create the Java Virtual Machine.", "Error: A fatal exception has occurred. Program will exit."]


def java_behaviour(t, home, args):
    """What bin/java of target t prints (stdout + stderr) and its exit status."""
    if t["k"] == "noprop":
        bad = next((a for a in args if a.startswith("-X")), None)
        if bad:
            return [ANCIENT[0] % bad, ANCIENT[1]], 1
        return ['java version "1.6.0_45"'], 0
    if "-XshowSettings:properties" in args:
        return jdk_output(t, home), 0
    for a in args:
        if a.startswith("-XX:") and a != KNOWN_OPT:
            return [UNKNOWN[0] % a[5:]] + UNKNOWN[1:], 1
    return banner(t), 0


def dir_name(t):
    k = t["k"]
    if k in ("jdk", "sjdk"):
        return "jdk%s%d%s%s" % (" " if k == "sjdk" else "-", t["maj"], "-ea" if t["ea"] else "", "" if t["ora"] else "-acme")
    return {"missing": "gone", "noexec": "noexec", "noprop": "ancient"}[k]


class World:
    """The JDK installations behind one environment.  root: a virtual prefix (routes popen / reader) or a real scratch directory (route exec)."""

    def __init__(self, root, real):
        self.root = root
        self.real = real
        self.exes = {}  # path of bin/java -> (target, home) | "noexec"
        self.homes = {}  # home -> (var, target)
        self.made = set()
        self.spawned = []  # argv of every java started (route reader: the property asked for)

    def home(self, var, t):
        if t["k"] == "unset":
            return None
        if t["k"] == "empty":
            return ""
        h = os.path.join(self.root, var, dir_name(t))
        if h not in self.homes:
            self.homes[h] = (var, t)
            exe = os.path.join(h, "bin", "java")
            if t["k"] == "noexec":
                self.exes[exe] = "noexec"
            elif t["k"] != "missing":
                self.exes[exe] = (t, h)
            if self.real:
                self._materialise(h, t)
        return h

    def var_of(self, home):
        return self.homes[home][0] if home in self.homes else "?"

    def _materialise(self, h, t):
        if h in self.made:
            return
        self.made.add(h)
        os.makedirs(h, exist_ok=True)
        if t["k"] == "missing":
            return
        os.makedirs(os.path.join(h, "bin"), exist_ok=True)
        exe = os.path.join(h, "bin", "java")
        if t["k"] == "noexec":
            with open(exe, "w", encoding="utf-8") as f:
                f.write("#!/bin/sh\nexit 0\n")
            os.chmod(exe, stat.S_IRUSR | stat.S_IWUSR)
            return
        outs = {}
        for key, args in (("props", ["-XshowSettings:properties", "-version"]), ("known", [KNOWN_OPT, "-version"]), ("unknown", [UNKNOWN_OPT, "-version"]), ("plain", ["-version"])):
            lines, rc = java_behaviour(t, h, args)
            with open(os.path.join(h, key + ".txt"), "w", encoding="utf-8") as f:
                f.write("\n".join(lines) + "\n")
            outs[key] = rc
        with open(exe, "w", encoding="utf-8") as f:
            f.write(
                "#!/bin/sh\nd=$(dirname \"$0\")/..\ncase \"$*\" in\n"
                "  *-XshowSettings:properties*) cat \"$d/props.txt\" >&2; exit %d;;\n"
                "  *%s*) cat \"$d/known.txt\" >&2; exit %d;;\n"
                "  *-XX:*) cat \"$d/unknown.txt\" >&2; exit %d;;\n"
                "  *) cat \"$d/plain.txt\" >&2; exit %d;;\nesac\n" % (outs["props"], KNOWN_OPT, outs["known"], outs["unknown"], outs["plain"])
            )
        os.chmod(exe, 0o755)


class _FakeStdout:
    def __init__(self, lines):
        self._lines = [(ln + "\n").encode("utf-8") for ln in lines]
        self._i = 0

    def readline(self):
        if self._i < len(self._lines):
            self._i += 1
            return self._lines[self._i - 1]
        return b""

    def read(self):
        rest = b"".join(self._lines[self._i :])
        self._i = len(self._lines)
        return rest

    def close(self):
        pass


class _FakePopen:
    """subprocess.Popen for the virtual JDKs: raises what os.execve reports for a path without (executable) file."""

    def __init__(self, world, args, **kw):
        if isinstance(args, str) or kw.get("shell"):
            raise tlc.MachineryError("fake Popen: shell command lines are not modelled: %r" % (args,))
        args = list(args)
        world.spawned.append(args)
        beh = world.exes.get(args[0])
        if beh is None:
            raise FileNotFoundError(2, "No such file or directory", args[0])
        if beh == "noexec":
            raise PermissionError(13, "Permission denied", args[0])
        lines, rc = java_behaviour(beh[0], beh[1], args[1:])
        self.args = args
        self.returncode = rc
        self.pid = 4242
        self._text = bool(kw.get("universal_newlines") or kw.get("text"))
        self._lines = lines
        self.stdout = _FakeStdout(lines) if kw.get("stdout") == subprocess.PIPE else None
        self.stderr = None

    def __enter__(self):
        return self

    def __exit__(self, *a):
        return False

    def communicate(self, *a, **kw):
        out = "\n".join(self._lines) + "\n"
        return (out if self._text else out.encode("utf-8")), None

    def wait(self, *a, **kw):
        return self.returncode

    def poll(self):
        return self.returncode


class _SubprocessShim:
    """Stands in for the module `subprocess` inside esrally.utils.process (route popen)."""

    def __init__(self, world):
        self._world = world

    def Popen(self, args, **kw):  # pylint: disable=invalid-name
        return _FakePopen(self._world, args, **kw)

    def __getattr__(self, name):
        if name in ("run", "call", "check_call", "check_output"):
            raise tlc.MachineryError("fake subprocess: %s is not modelled" % name)
        return getattr(subprocess, name)


def make_reader(world):
    """A sysprop_reader as the tests of /repo inject it: answers from the table of installations; behaves like jvm.system_property for paths
    without usable java (OSError of the spawn / None when the property is not printed)."""

    def reader(java_home, prop):
        world.spawned.append(["reader", java_home, prop])
        exe = os.path.join(java_home, "bin", "java")
        beh = world.exes.get(exe)
        if beh is None:
            raise FileNotFoundError(2, "No such file or directory", exe)
        if beh == "noexec":
            raise PermissionError(13, "Permission denied", exe)
        t = beh[0]
        if t["k"] == "noprop":
            return None
        for ln in jdk_output(t, beh[1]):
            m = re.fullmatch(r"\s*%s = (.*)" % re.escape(prop), ln)
            if m:
                return m.group(1)
        return None

    return reader


# ===================================================================================================
# the real code under a recording harness
# ===================================================================================================
class _Rt:
    """Imports of the code under test + scratch directories + cached objects."""

    def __init__(self):
        from .. import clientloop

        clientloop.ensure_rally_home()
        from esrally import config, exceptions
        from esrally.mechanic import java_resolver, launcher, provisioner, supplier, team
        from esrally.utils import console, jvm, process

        self.config, self.exceptions, self.java_resolver, self.launcher, self.provisioner = config, exceptions, java_resolver, launcher, provisioner
        self.supplier, self.team, self.console, self.jvm, self.process = supplier, team, console, jvm, process
        self.scratch = tlc.scratch("xjvm")
        self.virtual = World("/verif-jdks", real=False)
        self.realworld = World(os.path.join(self.scratch, "jdks"), real=True)
        self.srcdirs = {}
        self.cfgs = {}
        self.base_env = {k: os.environ[k] for k in ("RALLY_HOME", "HOME") if k in os.environ}
        self.base_env.update({"PATH": OUTER_PATH, "ES_JAVA_HOME": OUTER_ES_JAVA_HOME, "LANG": "C"})
        self.node_root = os.path.join(self.scratch, "node")
        self.binary = os.path.join(self.scratch, "node", "install", "elasticsearch-9.9.9")
        self.old_quiet = console.QUIET
        console.QUIET = True

    def close(self):
        self.console.QUIET = self.old_quiet

    def cfg(self, spec, passenv):
        key = (spec, passenv)
        if key not in self.cfgs:
            c = self.config.Config()
            s = self.config.Scope.application
            c.add(s, "mechanic", "runtime.jdk", spec)
            c.add(s, "mechanic", "cluster.name", "xjvm")
            c.add(s, "telemetry", "devices", ["gc"])
            c.add(s, "telemetry", "params", {})
            c.add(s, "system", "passenv", passenv)
            self.cfgs[key] = c
        return self.cfgs[key]

    def srcdir(self, fk, n, variant):
        """A source tree whose .ci/java-versions.properties says what the request says."""
        key = (fk, n, variant)
        if key in self.srcdirs:
            return self.srcdirs[key]
        d = os.path.join(self.scratch, "src", "%s-%d-%d" % (fk, n, variant))
        os.makedirs(d, exist_ok=True)
        prefix = {"openjdk": ["openjdk", "adoptopenjdk", "openjdk"], "java": ["java", "graalvm-java", "java"], "vendor": ["zulu", "corretto", "temurin-"]}
        if fk != "nofile":
            os.makedirs(os.path.join(d, ".ci"), exist_ok=True)
            head = ["# This file is used with all of the non-matrix tests in Jenkins.", "", "# Valid Java versions are 'java' or 'openjdk' followed by the major release number.", ""]
            if fk == "noline":
                body = ["ES_RUNTIME_JAVA=openjdk%d" % (n or 11)]
            else:
                val = "%s%d" % (prefix[fk][variant % 3], n if fk != "vendor" else (n or 11))
                eq = ["=", " = ", "= "][(variant // 3) % 3] if variant else "="
                body = ["ES_BUILD_JAVA%s%s" % (eq, val), "ES_RUNTIME_JAVA=openjdk11"]
                if variant % 2:
                    body.reverse()
            with open(os.path.join(d, ".ci", "java-versions.properties"), "w", encoding="utf-8") as f:
                f.write("\n".join((head if variant != 1 else []) + body) + "\n")
        self.srcdirs[key] = d
        return d


def classify_error(ex):
    name = type(ex).__name__
    rec = {"exc": name, "msg": "-", "mvars": [], "mmajs": []}
    if name == "SystemSetupError":
        text = str(getattr(ex, "message", None) or (ex.args[0] if ex.args else ""))
        rec["msg"] = next((k for k, rx in MESSAGES if rx.fullmatch(text)), "other")
        if rec["msg"] not in ("nobundle", "carinvalid"):
            rec["mvars"] = RE_VAR.findall(text)
            rec["mmajs"] = [int(x) for x in RE_INT.findall(RE_VAR.sub(" ", text)) if len(x) < 9]
    return rec


def _res(r="err", major=0, var="-", exc="-", msg="-", mvars=(), mmajs=(), b=False):
    return {"r": r, "major": major, "var": var, "exc": exc, "msg": msg, "mvars": list(mvars), "mmajs": list(mmajs), "b": bool(b)}


def _call(fn):
    try:
        return "val", fn()
    except (tlc.MachineryError, _Captured):
        raise
    except Exception as ex:  # pylint: disable=broad-except
        return "exc", ex


def _same_exc(a, b):
    return type(a) is type(b) and str(a) == str(b)


def _res_of(kind, val, world):
    """(major, home) | exception -> result record"""
    if kind == "exc":
        return _res("err", **classify_error(val))
    try:
        major, home = val
    except (TypeError, ValueError):
        return _res("ok", -1, "?")
    major = major if isinstance(major, int) and not isinstance(major, bool) and abs(major) < 10**6 else -1
    if home is None:
        return _res("bundled", major)
    return _res("ok", major, world.var_of(home))


def car_string(q, variant):
    if q["car"] == "bad":
        return BAD_CARS[variant % len(BAD_CARS)]
    sep = [",", ", ", " ,"][variant % 3] if variant else ","
    return sep.join(str(m) for m in q["majors"])


def execute(rt, case, route):
    """Runs one (environment, request) pair on the real code.  Returns (r, le, info)."""
    e, q = case["e"], case["q"]
    variant = case.get("variant", 0)
    world = rt.realworld if route == "exec" else rt.virtual
    world.spawned.clear()
    environ = dict(rt.base_env)
    homes = {}
    for var in sorted(e):
        h = world.home(var, e[var])
        homes[var] = h
        if h is not None:
            environ[var] = h
    reader = make_reader(world) if route == "reader" else None
    info = {"spawns": 0}
    patches = [mock.patch.dict(os.environ, environ, clear=True)]
    if route in ("popen", "reader"):
        patches.append(mock.patch.object(rt.process, "subprocess", _SubprocessShim(world)))
    kw = {"sysprop_reader": reader} if reader else {}
    le = dict(NO_ENV)
    for p in patches:
        p.start()
    try:
        k = q["k"]
        if k == "list":
            kind, val = _call(lambda: rt.jvm.resolve_path(list(q["majors"]), **kw))
            r = _res_of(kind, val, world)
        elif k == "single":
            kind, val = _call(lambda: rt.jvm.resolve_path(q["n"], **kw))
            r = _res_of(kind, val, world)
        elif k == "ea":
            kind, val = _call(lambda: rt.jvm.is_early_access_release(homes["JAVA_HOME"], **kw))
            r = _res("bool", b=val) if kind == "val" and isinstance(val, bool) else _res("err", **classify_error(val)) if kind == "exc" else _res("?")
        elif k == "opt":
            kind, val = _call(lambda: rt.jvm.supports_option(homes["JAVA_HOME"], KNOWN_OPT if q["known"] else UNKNOWN_OPT))
            r = _res("bool", b=val) if kind == "val" and isinstance(val, bool) else _res("err", **classify_error(val)) if kind == "exc" else _res("?")
        elif k == "build":
            r, le = _run_build(rt, q, variant, world)
        elif k == "rt":
            r, le = _run_runtime(rt, q, variant, world, environ)
        else:
            raise tlc.MachineryError("unknown request kind %r" % (k,))
    finally:
        for p in reversed(patches):
            p.stop()
    info["spawns"] = len(world.spawned)
    return r, le, info


def _run_build(rt, q, variant, world):
    """ElasticsearchSourceSupplier.prepare as mechanic runs it for a source build: the build JDK comes from the source tree, the Builder resolves
    JAVA_HOME for it and exports it in front of every build command."""
    src = rt.srcdir(q["fk"], q["n"], variant)
    car = rt.team.Car("default", None, [], variables={"clean_command": "./gradlew clean", "system.build_command": "./gradlew :distribution:archives:{{OSNAME}}-tar:assemble", "build.jdk": str(CAR_BUILD_JDK)})
    builder = rt.supplier.Builder(src_dir=src, build_jdk=CAR_BUILD_JDK, log_dir=os.path.join(rt.scratch, "logs"))
    sup = rt.supplier.ElasticsearchSourceSupplier("current", src, None, car, builder, rt.supplier.TemplateRenderer(version="9.9.9", os_name="linux", arch="x86_64"))
    cmds = []

    def run_subprocess(command_line):
        cmds.append(command_line)
        return 0

    with mock.patch.object(rt.process, "run_subprocess", run_subprocess):
        kind, val = _call(sup.prepare)
    le = dict(NO_ENV)
    if kind == "exc":
        return _res("err", **classify_error(val)), le
    home = builder.java_home  # cached by the build
    r = _res_of("val", (builder.build_jdk, home), world)
    exported = []
    for c in cmds:
        # what a POSIX shell makes of the first command of the line
        try:
            words = shlex.split(c.split(";")[0])
        except ValueError:
            words = []
        exported.append(words[1][len("JAVA_HOME=") :] if len(words) == 2 and words[0] == "export" and words[1].startswith("JAVA_HOME=") else None)
    le["inst"] = "chosen" if len(exported) == 2 and all(x == home for x in exported) else "other"
    return r, le


def _run_runtime(rt, q, variant, world, environ):
    """java_resolver.java_home called directly, through provisioner.local (installers) and through ProcessLauncher._start_node."""
    carstr = car_string(q, variant)
    spec = None if q["spec"] == "none" else "bundled" if q["spec"] == "bundled" else q["n"]
    passenv = ",".join(["LANG"] + [n for n, f in (("PATH", q["ppath"]), ("JAVA_HOME", q["pjh"]), ("ES_JAVA_HOME", q["pes"])) if f])
    cfg = rt.cfg(spec, passenv)
    kind, val = _call(lambda: rt.java_resolver.java_home(carstr, spec, q["bcar"]))
    r = _res_of(kind, val, world)
    le = dict(NO_ENV)
    same = True
    # ---- provisioner: installers
    car = rt.team.Car("default", None, [], variables={"runtime.jdk": carstr, "runtime.jdk.bundled": "true" if q["bcar"] else "false"})
    plugin = rt.team.PluginDescriptor("xjvm-plugin")
    pkind, pval = _call(lambda: rt.provisioner.local(cfg, car, [plugin], "127.0.0.1", 39200, ["127.0.0.1"], ["xjvm-node"], os.path.join(rt.scratch, "root"), "xjvm-node"))
    # ---- launcher
    ncfg = rt.provisioner.NodeConfiguration("tar", carstr, bool(q["bcar"]), "127.0.0.1", "xjvm-node", rt.node_root, rt.binary, [os.path.join(rt.binary, "data")])

    def start_process(binary_path, env):
        raise _Captured(binary_path, env)

    lenv = None
    lkind, lval = "val", None
    with mock.patch.object(rt.launcher.ProcessLauncher, "_start_process", staticmethod(start_process)):
        try:
            lkind, lval = _call(lambda: rt.launcher.ProcessLauncher(cfg)._start_node(ncfg, 1))  # pylint: disable=protected-access
        except _Captured as cap:
            lkind, lenv = "cap", cap.env
    if kind == "exc":
        same = pkind == "exc" and _same_exc(val, pval) and lkind == "exc" and _same_exc(val, lval)
        return r, dict(le, same=same)
    try:
        home = val[1]
    except (TypeError, IndexError):
        home = "?"
    # installers: constructor argument, environment of the plugin installer, environment the install hooks of car and plugin get
    if pkind != "val":
        same = False
        le["inst"] = "other"
    else:
        seen = []
        ei, pis = pval.es_installer, pval.plugin_installers
        for comp in [ei] + list(pis):
            got = []
            comp.hook_handler.register("post_install", lambda config_names, variables, env, got=got, **kwargs: got.append(dict(env)))
            comp.invoke_install_hook(rt.team.BootstrapPhase.post_install, {})
            seen.append(got[0].get("JAVA_HOME") if len(got) == 1 else "?")
            seen.append(comp.java_home)
        seen += [pi.env().get("JAVA_HOME") for pi in pis]
        le["inst"] = "chosen" if home and all(x == home for x in seen) else "absent" if not home and all(x is None for x in seen) else "other"
        same = same and all(x == home for x in [ei.java_home] + [pi.java_home for pi in pis])
    # launcher: the environment of the Elasticsearch process
    if lkind != "cap":
        same = False
        le.update(jh="other", esjh="other", path="other", gc="other")
    else:
        def where(name, outer):
            if name not in lenv:
                return "absent"
            if home and lenv[name] == home:
                return "chosen"
            if outer is not None and lenv[name] == outer:
                return "inherited"
            return "other"

        le["jh"] = where("JAVA_HOME", environ.get("JAVA_HOME"))
        le["esjh"] = where("ES_JAVA_HOME", environ.get("ES_JAVA_HOME"))
        pv = lenv.get("PATH")
        if pv is None:
            le["path"] = "absent"
        elif home and pv == os.path.join(home, "bin") + os.pathsep + OUTER_PATH:
            le["path"] = "prefixed"
        elif home and pv == os.path.join(home, "bin"):
            le["path"] = "bare"
        elif pv == OUTER_PATH:
            le["path"] = "inherited"
        else:
            le["path"] = "other"
        opts = lenv.get("ES_JAVA_OPTS", "")
        le["gc"] = "old" if "-Xloggc:" in opts and "-Xlog:" not in opts else "new" if "-Xlog:" in opts and "-Xloggc:" not in opts else "other"
    le["same"] = bool(same)
    return r, le


# ===================================================================================================
# case sources
# ===================================================================================================
def _run_tlc(cfg, name, dump=False, **kw):
    wd = tlc.prepare_workdir(SPEC, name)
    d = os.path.join(wd, "states") if dump else None
    res = tlc.run_tlc(wd, "MC_JdkResolve", cfg, dump=d, **kw)
    if dump:
        res.dump = d if os.path.exists(d) else d + ".dump"
    res.wd = wd
    return res


def table_from_tlc(res):
    """Every reachable state after Eval = (environment, request, the model's result)."""
    rows = []
    for st in fastdump.parse_dump(res.dump, skip_containing="done = FALSE"):
        if st is None:
            continue
        st = fastdump._norm(st)  # pylint: disable=protected-access
        rows.append({"src": "tlc", "e": st["env"], "q": st["req"], "model": {"r": st["res"], "le": st["lenv"]}})
    rows.sort(key=lambda c: json.dumps([c["q"], c["e"]], sort_keys=True))
    return rows


UNIVERSE = [7, 8, 9, 11, 12, 15, 17, 19, 21]
Q0 = {"k": "rt", "car": "ok", "majors": [], "spec": "none", "n": 0, "bcar": False, "pjh": False, "pes": False, "ppath": True, "fk": "-", "known": False}


def _target(rnd, m_hint, fancy):
    x = rnd.random()
    if x < 0.22:
        return {"k": "unset", "maj": 0, "ea": False, "ora": False}
    if x < 0.27:
        return {"k": "empty", "maj": 0, "ea": False, "ora": False}
    if x < 0.40:
        return {"k": rnd.choice(["missing", "noexec", "noprop"]), "maj": 0, "ea": False, "ora": False}
    maj = m_hint if m_hint and rnd.random() < 0.65 else rnd.choice(UNIVERSE)
    return {"k": "sjdk" if rnd.random() < 0.12 else "jdk", "maj": maj, "ea": fancy and rnd.random() < 0.4, "ora": not fancy or rnd.random() < 0.6}


def random_case(rnd):
    """(environment, request) pairs outside the alphabets of the TLC configurations: other majors, more variables, longer lists in any order,
    JDK attributes the selection must not look at, other spellings of the car value / the properties file."""
    pool = rnd.sample(UNIVERSE, rnd.randint(1, 5))
    fancy = rnd.random() < 0.5
    e = {"JAVA_HOME": _target(rnd, rnd.choice(pool), fancy)}
    for m in pool:
        if rnd.random() < 0.7:
            e["JAVA%d_HOME" % m] = _target(rnd, m, fancy)
    wanted = rnd.sample(UNIVERSE, rnd.randint(1, 5))
    if rnd.random() < 0.6:
        wanted.sort(reverse=True)
    if rnd.random() < 0.5:
        wanted = [m for m in wanted if m in pool or rnd.random() < 0.3] or [rnd.choice(pool)]
    q = dict(Q0)
    x = rnd.random()
    if x < 0.55:
        q.update(k="rt", majors=wanted, spec=rnd.choice(["none", "none", "none", "num", "num", "bundled"]), bcar=rnd.random() < 0.5, pjh=rnd.random() < 0.3, pes=rnd.random() < 0.3, ppath=rnd.random() < 0.8)
        if q["spec"] == "num":
            q["n"] = rnd.choice(pool + UNIVERSE)
        if rnd.random() < 0.06:
            q.update(car="bad", majors=[])
    elif x < 0.68:
        q.update(k="list", majors=wanted if rnd.random() < 0.95 else [])
    elif x < 0.78:
        q.update(k="single", n=rnd.choice(pool + UNIVERSE))
    elif x < 0.92:
        fk = rnd.choice(["openjdk", "openjdk", "java", "vendor", "noline", "nofile"])
        q.update(k="build", fk=fk, n=rnd.choice(pool + UNIVERSE) if fk in ("openjdk", "java", "vendor") else 0)
    else:
        q.update(k=rnd.choice(["ea", "opt"]), known=rnd.random() < 0.5)
        if q["k"] == "ea":
            q["known"] = False
        while e["JAVA_HOME"]["k"] in ("unset", "empty"):
            e["JAVA_HOME"] = _target(rnd, rnd.choice(pool), True)
    return {"src": "random", "e": e, "q": q, "variant": rnd.randrange(1, 18)}


# ===================================================================================================
# running + judging
# ===================================================================================================
def _replay_of(case, route):
    return {"e": case["e"], "q": case["q"], "variant": case.get("variant", 0), "route": route}


def _signature(clauses, case, item):
    return {
        "clauses": sorted(clauses),
        "request": case["q"]["k"],
        "spec": case["q"]["spec"],
        "result": item["r"]["r"],
        "exc": item["r"]["exc"],
        "targets": sorted({t["k"] for t in case["e"].values()}),
        "pinned": sorted({PINNED[c][0] for c in clauses if c in PINNED}),
    }


def _size(case):
    """smallest example = fewest variables set, shortest list; the runtime path (what a user of `esrally race` meets) is preferred"""
    return sum(1 for t in case["e"].values() if t["k"] != "unset") * 10 + len(case["q"]["majors"]) + (0 if case["q"]["k"] == "rt" else 35)


def _report_l1(out, stats, tid, fails, case, item, route, drifted):
    """Clauses in PINNED are the strong forms which the code as it is is known not to meet (the forms it does meet are L1 clauses of their own):
    counted and shown as notes with the smallest replayable example per kind of result - but only for results that ARE the transcription's
    (L2 holds): a strong clause failing on a result the model of /repo does not predict is a violation like any other."""
    clauses = sorted({c for _, cl in fails for c in cl})
    fresh = [c for c in clauses if c not in PINNED or drifted]
    for c in clauses:
        stats["l1"][c] = stats["l1"].get(c, 0) + 1
    if fresh:
        key = ",".join(fresh)
        stats["l1_new"][key] = stats["l1_new"].get(key, 0) + 1
        if stats["l1_new"][key] <= MAX_VIOLATIONS_PER_KIND:
            out.violations.append(
                Violation(key, _replay_of(case, route), signature=_signature(clauses, case, item), detail="case %s (%s, route %s): %s -> %s / %s" % (tid, case["src"], route, json.dumps(case["q"], sort_keys=True), json.dumps(item["r"], sort_keys=True), json.dumps(item["le"], sort_keys=True)))
            )
        return
    r = item["r"]
    how = r["msg"] if r["exc"] == "SystemSetupError" else r["exc"] if r["r"] == "err" else r["r"]
    for c in clauses:
        rec = out.extra.setdefault("pinned_behaviour_observed", {}).setdefault("%s/%s" % (c, how), {"clause": c, "switch": PINNED[c][0], "what": PINNED[c][1], "cases": 0, "example": None, "size": None})
        rec["cases"] += 1
        size = _size(case)
        if rec["example"] is None or size < rec["size"]:
            rec["example"] = {"case": tid, "input": _replay_of(case, route), "result": item["r"], "handed_on": item["le"]}
            rec["size"] = size


def _explain_drift(out, items, label):
    """Recorded results that are not the transcription's: do they all fit a variant with some switches flipped (i.e. has pinned behaviour been
    repaired in the tree under test)?  Smallest set of switches first."""
    if not items:
        return
    import itertools

    with open(os.path.join(tlc.SPECS, SPEC, "TraceJdkResolve.cfg"), encoding="utf-8") as f:
        base = f.read()
    sample = items if len(items) <= 1500 else items[:: len(items) // 1500 + 1]
    for k in range(1, len(SWITCHES) + 1):
        for combo in itertools.combinations(SWITCHES, k):
            txt = base
            for switch in combo:
                txt = txt.replace("%s = FALSE" % switch, "%s = TRUE" % switch)
            v = tracecheck.validate(SPEC, "TraceJdkResolve", "TraceJdkResolve.cfg", copy.deepcopy(sample), name="xjvariant", cfg_text=txt, timeout=300)
            if not v.l2:
                out.drift.append("%s: the %d results that are not the transcription's are all accepted with %s = TRUE: this behaviour seems to have been repaired; switch the cfgs of specs/JdkResolve over" % (label, len(items), " and ".join(combo)))
                return


def _fits_tlc(obj):
    if isinstance(obj, (bool, str)):
        return True
    if isinstance(obj, int):
        return abs(obj) < 2**31
    if isinstance(obj, dict):
        return all(_fits_tlc(v) for v in obj.values())
    if isinstance(obj, list):
        return all(_fits_tlc(v) for v in obj)
    return False


def _routes(case, idx, exec_sample):
    routes = ["popen"]
    if case["q"]["k"] in ("list", "single", "ea") and not any(t["k"] == "sjdk" for t in case["e"].values()):
        routes.append("reader")
    if idx in exec_sample:
        routes.append("exec")
    return routes


def run_cases(rt, cases, out, label, stats, exec_sample):
    items, index = [], {}
    for ci, case in enumerate(cases):
        for route in _routes(case, ci, exec_sample):
            tid = "%s-%d-%s" % (label, ci, route[0])
            r, le, info = execute(rt, case, route)
            item = {"id": tid, "e": case["e"], "q": case["q"], "r": r, "le": le}
            q = case["q"]
            out.add_case(_replay_of(case, route), nontrivial=sum(1 for t in case["e"].values() if t["k"] != "unset") >= 1)
            stats["cases"] += 1
            stats["route_" + route] += 1
            if not _fits_tlc(item):
                out.drift.append("%s: the result does not fit TLC's integers: %s" % (tid, json.dumps(r, sort_keys=True)[:300]))
                continue
            items.append(item)
            index[tid] = (case, item, route, info)
            stats["spawns"] += info["spawns"]
            stats["req_" + q["k"]] = stats.get("req_" + q["k"], 0) + 1
            stats["res_" + r["r"]] = stats.get("res_" + r["r"], 0) + 1
            if r["r"] == "ok":
                stats["ok_via_generic" if r["var"] == "JAVA_HOME" else "ok_via_specific"] += 1
                w = q["majors"] if q["k"] in ("rt", "list") and q["spec"] != "num" else []
                stats["ok_not_first_of_list"] += bool(w) and r["major"] != w[0]
                stats["ok_not_highest_of_list"] += bool(w) and r["major"] != max(w)
                stats["forced_outside_car_list"] += q["k"] == "rt" and q["spec"] == "num" and q["n"] not in q["majors"]
            elif r["r"] == "err":
                key = "err_" + (r["msg"] if r["exc"] == "SystemSetupError" else r["exc"])
                stats[key] = stats.get(key, 0) + 1
            elif r["r"] == "bundled":
                stats["bundled_java_home_inherited"] += le["jh"] == "inherited"
            if q["k"] == "build":
                stats["build_default_17"] += q["fk"] in ("vendor", "noline", "nofile")
            if case.get("model") is not None and route != "reader":
                stats["s2c"] += 1
                m = case["model"]
                stats["s2c_followed"] += json.dumps([m["r"], m["le"]], sort_keys=True) == json.dumps([r, le], sort_keys=True)
    if not items:
        raise tlc.MachineryError("no cases for %s" % label)
    v = tracecheck.validate(SPEC, "TraceJdkResolve", "TraceJdkResolve.cfg", items, name="xjtrace", timeout=900, chunk=25000)
    out.states += v.n_events
    out.transitions += v.n_events
    bad = set(v.l2) | {tid for tid, fails in v.l1.items() if any(c not in PINNED for _, cl in fails for c in cl)}
    out.traces_validated += max(0, v.n_items - len(bad))
    for tid, fails in sorted(v.l1.items()):
        case, item, route, info = index[tid]
        _report_l1(out, stats, tid, fails, case, item, route, tid in v.l2)
    _explain_drift(out, [index[tid][1] for tid in sorted(v.l2)], label)
    for tid in sorted(v.l2):
        case, item, route, info = index[tid]
        stats["l2"] += 1
        if len(out.drift) < 25:
            out.drift.append(
                "case %s (%s, route %s): the recorded result is not the one of JdkResolve.tla (code as it is): request %s, environment %s -> recorded %s / %s"
                % (tid, case["src"], route, json.dumps(case["q"], sort_keys=True), json.dumps({k: (t["k"], t["maj"]) for k, t in case["e"].items() if t["k"] != "unset"}, sort_keys=True), json.dumps(item["r"], sort_keys=True), json.dumps(item["le"], sort_keys=True))
            )
    return items


SELFTESTS = [
    ("JdkResolve.pinned.single.cfg", "IFoundIfAvailable", "SingleFallsBack=FALSE (code): resolve_path(8) with JAVA8_HOME -> JDK 11 and JAVA_HOME -> JDK 8 raises 'JAVA8_HOME points to JDK 11 ...'"),
    ("JdkResolve.pinned.broken.cfg", "IErrorsExplicit", "BrokenIsSkipped=FALSE (code): a candidate variable without usable bin/java ends in a raw FileNotFoundError / AttributeError"),
    ("JdkResolve.pinned.brokenfound.cfg", "IFoundIfAvailable", "BrokenIsSkipped=FALSE (code): car 17,8 with a stale JAVA17_HOME and a fine JAVA8_HOME finds nothing"),
    ("JdkResolve.pinned.quote.cfg", "IFoundIfAvailable", "QuotePath=FALSE (code): a JDK below a directory with a blank is not recognised"),
    ("JdkResolve.pinned.quoteprobe.cfg", "IBlankPathUsable", "QuotePath=FALSE (code): supports_option / is_early_access_release on such a JDK"),
    ("JdkResolve.pinned.bundled.cfg", "IBundledIgnoresJavaHome", "BundledDropsJavaHome=FALSE (code): bundled + passenv=..,JAVA_HOME passes the outer JAVA_HOME on"),
]


class _Prefetch:
    """Every TLC run that does not depend on an execution of the real code is started at once (at most four at a time)."""

    def __init__(self, ctx):
        from concurrent.futures import ThreadPoolExecutor

        tlc.scratch_root()
        self.pool = ThreadPoolExecutor(4)
        self.fut = {}
        self.main = "JdkResolve.quick.cfg" if ctx.quick else "JdkResolve.thorough.cfg"
        self.fut[self.main] = self.pool.submit(_run_tlc, self.main, "xjmc", dump=True, timeout=600, workers=4, allow_violation=True)
        self.fut["JdkResolve.intended.cfg"] = self.pool.submit(_run_tlc, "JdkResolve.intended.cfg", "xjmc", timeout=200, workers=2, allow_violation=True)
        for cfg, _i, _t in SELFTESTS:
            self.fut[cfg] = self.pool.submit(_run_tlc, cfg, "xjmc", timeout=200, workers=1, allow_violation=True)

    def get(self, key):
        return self.fut.pop(key).result()

    def close(self):
        self.pool.shutdown(wait=True)


def _leg_m(out, pre, main):
    for cfg, res in ((pre.main, main), ("JdkResolve.intended.cfg", pre.get("JdkResolve.intended.cfg"))):
        if cfg != pre.main:
            out.add_tlc(res)
        if not res.ok:
            raise tlc.MachineryError("model violates %s in %s: %s" % (res.invariant_violated or res.property_violated or "?", cfg, res.out[-1500:]))
        out.note("leg M %s: %d distinct states, %.1fs" % (cfg, res.distinct, res.wall_s))
    for cfg, inv, text in SELFTESTS:
        res = pre.get(cfg)
        if res.invariant_violated != inv:
            raise tlc.MachineryError("self-test failed: %s no longer violates %s (%s)" % (cfg, inv, res.invariant_violated or res.property_violated or res.error))
        out.extra.setdefault("model_selftests", []).append("%s violates %s in the model, as expected: %s" % (cfg, inv[1:], text))


def run(ctx, out):
    out.rule = (
        "case = environment (JAVA_HOME / JAVAx_HOME -> kind of target, major, early-access flag, vendor) + request (kind, car's runtime.jdk list and its spelling, "
        "runtime.jdk setting, bundling car, passenv, properties file of the source tree) + route (fake Popen | fake sysprop_reader | real shell scripts); distinct by hash "
        "of that input; non-trivial = at least one variable is set. Sources: every state of the TLC run (S2C, exhaustive for the configuration), seeded random pairs (C2S only)."
    )
    out.exhaustive = True
    out.assumptions = [
        "a JDK is what its bin/java answers to -XshowSettings:properties -version / <option> -version: text modelled on OpenJDK 8 ('1.8' scheme) and 11+; no real JDK is started",
        "route popen: the module subprocess inside esrally.utils.process is replaced (Popen raises FileNotFoundError / PermissionError as execve does); route exec (sample): real directories "
        "with a bin/java shell script, real subprocess; route reader: resolve_path / is_early_access_release with an injected sysprop_reader",
        "launcher: ProcessLauncher._start_node runs up to _start_process, which is replaced and captures the environment (telemetry device gc enabled); provisioner.local: real installers, "
        "a post_install hook registered on the real BootstrapHookHandler records the hook environment; build: ElasticsearchSourceSupplier.prepare with process.run_subprocess recording the command",
        "os.environ is replaced per case (PATH=/usr/bin:/bin, ES_JAVA_HOME=/verif-outer/es-java-home, LANG, RALLY_HOME, HOME + the modelled variables)",
        "not modelled: runtime.jdk given as a string number, java.vm.specification.version values other than 1.x / N, changes of the environment between provisioning and launch, "
        "DockerBuilder / docker provisioning, remote hosts (every host resolves on its own), Windows paths",
    ]
    pre = _Prefetch(ctx)
    rt = _Rt()
    try:
        _run(ctx, out, pre, rt)
    finally:
        pre.close()
        rt.close()
        shutil.rmtree(rt.scratch, ignore_errors=True)


def _run(ctx, out, pre, rt):
    stats = {
        k: 0
        for k in (
            "cases route_popen route_reader route_exec spawns ok_via_generic ok_via_specific ok_not_first_of_list ok_not_highest_of_list forced_outside_car_list "
            "bundled_java_home_inherited build_default_17 s2c s2c_followed l2"
        ).split()
    }
    stats.update(l1={}, l1_new={})
    main = pre.get(pre.main)
    out.add_tlc(main)
    if not main.ok:
        raise tlc.MachineryError("model violates %s in %s: %s" % (main.invariant_violated or "?", pre.main, main.out[-1500:]))
    table = table_from_tlc(main)
    if len(table) * 2 != main.distinct:
        raise tlc.MachineryError("dump has %d evaluated states, TLC reports %d distinct states" % (len(table), main.distinct))
    rnd = random.Random(ctx.seed + 17)
    n_exec = 150 if ctx.quick else 1500
    items = run_cases(rt, table, out, "tab", stats, set(rnd.sample(range(len(table)), min(n_exec, len(table)))))
    out.extra["table"] = {"rows": len(table), "real_code_equals_table": stats["s2c_followed"], "compared": stats["s2c"]}
    out.note("leg S2C: %d (environment, request) pairs from TLC, the real code gives the model's result in %d of %d executions" % (len(table), stats["s2c_followed"], stats["s2c"]))
    first_ok = next((it for it in items if it["r"]["r"] == "ok" and it["q"]["k"] == "rt"), items[0])
    out.sample({"source": "tlc", "environment": first_ok["e"], "request": first_ok["q"], "recorded": first_ok["r"], "handed_on": first_ok["le"]})
    rnd = random.Random(ctx.seed + 18)
    rc = [random_case(rnd) for _ in range(3000 if ctx.quick else 40000)]
    ritems = run_cases(rt, rc, out, "rnd", stats, set(rnd.sample(range(len(rc)), 100 if ctx.quick else 1000)))
    out.sample({"source": "random", "environment": ritems[0]["e"], "request": ritems[0]["q"], "recorded": ritems[0]["r"], "handed_on": ritems[0]["le"]})
    _leg_m(out, pre, main)
    out.extra["coverage_of_cases"] = stats
    out.note(
        "leg C2S: %d executions validated (%d popen, %d reader, %d real scripts; %d java invocations), %d accepted; results %s; errors %s; JDK via JAVAx_HOME %d / via JAVA_HOME %d; "
        "chosen major is not the first of the list in %d, not the highest in %d; --runtime-jdk outside the car's list honoured in %d; build JDK defaulted to 17 in %d"
        % (
            stats["cases"], stats["route_popen"], stats["route_reader"], stats["route_exec"], stats["spawns"], out.traces_validated,
            {k[4:]: v for k, v in sorted(stats.items()) if k.startswith("res_")}, {k[4:]: v for k, v in sorted(stats.items()) if k.startswith("err_")},
            stats["ok_via_specific"], stats["ok_via_generic"], stats["ok_not_first_of_list"], stats["ok_not_highest_of_list"], stats["forced_outside_car_list"], stats["build_default_17"],
        )
    )  # fmt: skip
    for key in (
        "route_popen route_reader route_exec ok_via_generic ok_via_specific ok_not_first_of_list ok_not_highest_of_list forced_outside_car_list build_default_17 s2c_followed "
        "res_ok res_bundled res_err res_bool err_wrong err_neither err_install err_nobundle err_carinvalid req_rt req_list req_single req_build req_ea req_opt"
    ).split():
        if not stats.get(key):
            out.vacuous.append("no executed case exercised: " + key)
    # ---- binding self-test: corrupted recordings must be rejected
    base = next((it for it in items if it["r"]["r"] == "ok" and it["q"]["k"] == "rt" and it["r"]["var"] != "JAVA_HOME" and it["e"].get("JAVA_HOME", {}).get("k") == "jdk" and it["e"]["JAVA_HOME"]["maj"] == it["r"]["major"]), None)
    if base is None:
        if not (out.violations or out.drift):
            raise tlc.MachineryError("binding self-test: no suitable recorded case")
        out.note("binding self-test skipped: no recorded case is suitable")
    else:
        m1 = copy.deepcopy(base)
        m1["id"] = "bind-var"
        m1["r"]["var"] = "JAVA_HOME"
        m2 = copy.deepcopy(base)
        m2["id"] = "bind-major"
        m2["r"]["major"] = 6
        m3 = copy.deepcopy(base)
        m3["id"] = "bind-env"
        m3["le"]["jh"] = "other"
        m4 = copy.deepcopy(base)
        m4["id"] = "bind-gc"
        m4["le"]["gc"] = "old" if base["le"]["gc"] == "new" else "new"
        v = tracecheck.validate(SPEC, "TraceJdkResolve", "TraceJdkResolve.cfg", [m1, m2, m3, m4], name="xjbind")
        want = {"bind-var": "SpecificBeforeGeneric", "bind-major": "AcceptableMajor", "bind-env": "LaunchEnvConsistent", "bind-gc": "LaunchEnvConsistent"}
        missed = [m for m, c in want.items() if not any(c in cl for _, cl in v.l1.get(m, [])) or m not in v.l2]
        if missed:
            raise tlc.MachineryError("binding self-test failed: corrupted recordings accepted: %s (l1 %s, l2 %s)" % (missed, sorted(v.l1.items()), sorted(v.l2)))
        out.extra["binding_selftest"] = "recordings with another variable (SpecificBeforeGeneric), another major (AcceptableMajor), a foreign JAVA_HOME in the launch environment and GC flags of the other JDK generation (LaunchEnvConsistent) are rejected by TLC (L1 and L2)"
    seen = set()
    for key, rec in sorted(out.extra.get("pinned_behaviour_observed", {}).items()):
        rec.pop("size", None)
        first = rec["clause"] not in seen
        seen.add(rec["clause"])
        ex = rec["example"]
        short = {"environment": {k: "%s%s" % (t["k"], t["maj"] or "") for k, t in ex["input"]["e"].items() if t["k"] != "unset"}, "request": {k: v for k, v in ex["input"]["q"].items() if v != Q0.get(k) or k == "k"}, "result": {k: v for k, v in ex["result"].items() if v not in ("-", 0, [], False)}, "handed_on": {k: v for k, v in ex["handed_on"].items() if v not in ("-", True)}}
        out.note("pinned behaviour of /repo (strong clause %s fails in %d cases; model switch %s = FALSE)%s; smallest example %s %s" % (key, rec["cases"], rec["switch"], ": " + rec["what"] if first else "", ex["case"], json.dumps(short, sort_keys=True)))
    for c in PINNED:
        if c not in seen and not (out.violations or out.drift):
            out.note("pinned behaviour %s (switch %s) was NOT observed on this tree" % (c, PINNED[c][0]))
    if stats["l1"]:
        out.note("L1 verdicts by clause: %s" % json.dumps(stats["l1"], sort_keys=True))
    if out.vacuous:
        out.note("VACUOUS (kinds of cases this seed did not produce): %s" % out.vacuous)
    out.drift.sort(key=lambda d: 0 if "seems to have been repaired" in d else 1)
    if out.drift:
        out.note("MODEL-DRIFT in %d places, first: %s" % (len(out.drift), out.drift[0][:900]))
