"""Extra module ActorSem: the actor-system semantics the actor-protocol specs and SimActorSystem ASSUME of Thespian.

ActorSem.tla states them (FIFO and exactly-once per (sender, receiver) pair with arbitrary interleaving across pairs, a failing handler
is retried once and then PoisonMessage(original) goes to the sender, wake-ups are never early and come from the actor itself, a
parent is told when its child exits, nothing is delivered to an actor that has exited). TLC model-checks the FIFO network model; the
same toy actors are run (1) under the REAL Thespian actor system (multiprocQueueBase, separate OS processes) and (2) under
harness/simactor.SimActorSystem with seeded random scheduling; both observation logs are validated by TLC against TraceActorSem.tla.
This binds the simulator, which C01/C07/C09/C12 trust, to the real actor system.
"""
import random
import time

from .. import tlc, tracecheck
from ..core import Violation
from . import toyactors


def observe_real(count):
    import thespian.actors as ta

    asys = ta.ActorSystem("multiprocQueueBase")
    try:
        r = asys.createActor(toyactors.Recv)
        a = asys.createActor(toyactors.Send)
        b = asys.createActor(toyactors.Send)
        asys.tell(a, {"cmd": "go", "count": count, "target": r, "name": "a"})
        asys.tell(b, {"cmd": "go", "count": count, "target": r, "name": "b"})
        asys.listen(10)
        asys.listen(10)
        log = None
        for _ in range(50):
            log = asys.ask(r, {"cmd": "dump"}, 10)["log"]
            if len(log) >= 2 * count:
                break
            time.sleep(0.1)
        poison = asys.ask(a, {"cmd": "provoke", "target": r}, 10)
        log2 = asys.ask(r, {"cmd": "dump"}, 10)["log"]
        wake = asys.ask(r, {"cmd": "wake", "d": 0.25}, 10)
        child = asys.ask(r, {"cmd": "spawn"}, 10)["child"]
        asys.tell(child, ta.ActorExitRequest())
        exited = False
        for _ in range(50):
            exited = asys.ask(r, {"cmd": "dump"}, 10)["child_exited"]
            if exited:
                break
            time.sleep(0.1)
        dead = asys.ask(child, {"cmd": "ping"}, 1)
        return _item("thespian", count, log, log2, poison, wake, exited, isinstance(dead, dict) and dead.get("pong") is True)
    finally:
        asys.shutdown()


def observe_sim(count, seed):
    import thespian.actors as ta

    from ..simactor import SimActorSystem
    from ..vclock import VirtualClock

    rnd = random.Random(seed)
    clock = VirtualClock()
    clock.install()
    try:
        sim = SimActorSystem(clock)
        user = sim.endpoint("user")
        r = sim.create(toyactors.Recv, name="r")
        a = sim.create(toyactors.Send, name="a")
        b = sim.create(toyactors.Send, name="b")

        def run():
            while True:
                en = sim.enabled()
                if not en:
                    return
                sim.step(rnd.choice(en))

        sim.send("user", a, {"cmd": "go", "count": count, "target": r, "name": "a"})
        sim.send("user", b, {"cmd": "go", "count": count, "target": r, "name": "b"})
        run()
        log = list(sim.actors["r"].instance.log)
        sim.send("user", a, {"cmd": "provoke", "target": r})
        run()
        poison = [m for _s, m in sim.endpoints["user"].inbox if isinstance(m, dict) and "poison_for" in m][-1]
        log2 = list(sim.actors["r"].instance.log)
        sim.send("user", r, {"cmd": "wake", "d": 0.25})
        run()
        wake = [m for _s, m in sim.endpoints["user"].inbox if isinstance(m, dict) and "woke_after" in m][-1]
        sim.send("user", r, {"cmd": "spawn"})
        run()
        child = [m for _s, m in sim.endpoints["user"].inbox if isinstance(m, dict) and "child" in m][-1]["child"]
        sim.send("user", child, ta.ActorExitRequest())
        run()
        exited = sim.actors["r"].instance.child_exited
        n_before = len(sim.endpoints["user"].inbox)
        sim.send("user", child, {"cmd": "ping"})
        run()
        dead = len(sim.endpoints["user"].inbox) > n_before
        return _item("sim-%d" % seed, count, log, log2, poison, wake, exited, dead)
    finally:
        clock.uninstall()


def _item(system, count, log, log2, poison, wake, exited, dead_delivered):
    return {
        "id": system,
        "system": system.split("-")[0],
        "senders": ["a", "b"],
        "count": count,
        "recvd": [{"src": s, "n": n} for s, n in log if s in ("a", "b")],
        "attempts": sum(1 for x in log2 if x[0] == "attempt"),
        "poisonToSender": isinstance(poison, dict) and "poison_for" in poison,
        "poisonIsOriginal": isinstance(poison, dict) and poison.get("poison_for") == {"cmd": "raise", "n": 7},
        "wakeDelayMs": 250,
        "wakeElapsedMs": int(round(wake["woke_after"] * 1000 + 0.5)) if wake["woke_after"] * 1000 % 1 else int(wake["woke_after"] * 1000),
        "wakeSenderIsSelf": bool(wake["sender_is_self"]),
        "childExitSeenByParent": bool(exited),
        "deadLetterDelivered": bool(dead_delivered),
    }


def run(ctx, out):
    out.rule = "case = observation log of the toy actor scenario under one actor system (real Thespian once, SimActorSystem under several seeded random schedules)"
    wd = tlc.prepare_workdir("ActorSem", "actorsem")
    res = tlc.run_tlc(wd, "MC_ActorSem", "ActorSem.quick.cfg", timeout=300, workers=4)
    out.add_tlc(res)
    items = [observe_real(40 if ctx.quick else 400)]
    for k in range(5 if ctx.quick else 40):
        items.append(observe_sim(12, ctx.seed + k))
    for it in items:
        out.add_case(it["id"])
    interleaved = any(items[0]["recvd"][i]["src"] != items[0]["recvd"][i + 1]["src"] for i in range(len(items[0]["recvd"]) - 1))
    out.extra["real_thespian_interleaves_pairs"] = interleaved
    v = tracecheck.validate("ActorSem", "TraceActorSem", "TraceActorSem.cfg", items, name="actorsemtrace")
    out.traces_validated += v.accepted(len(items))
    for tid, fails in v.l1.items():
        clauses = sorted({c for _, cl in fails for c in cl})
        out.violations.append(Violation(",".join(clauses), {"system": tid}, signature={"system": tid, "clauses": clauses}))
    out.sample({k: v2 for k, v2 in items[0].items() if k != "recvd"})
