"""EsStore (extra) — buffering and flushing of metric records in Rally's metrics stores (esrally/metrics.py), specs/EsStore.
Specified: records put into the driver's / race control's store carry the meta info of the scopes active at that moment (cluster <
node < per-record meta_data), relative time since open()/reset_relative_time(), sample type, task/operation fields and the race
context; to_externalizable(clear) + bulk_add moves them to another store; an EsMetricsStore buffers them until flush()/close() hands
the buffer to EsClient.bulk_index = guarded(helpers.bulk): chunks of 5000, one _bulk request each, a transient fault restarts the
WHOLE batch (10 retries), other faults raise.  The buffer is cleared only after bulk_index returned: a flush that raises KEEPS the
whole buffer and the next flush sends all of it again.  open() ensures index template and index "rally-metrics-YYYY-MM".
Invariants that hold for the code: NoLoss/EsNoLoss (between calls every record is buffered, in transit or indexed; a buffer is only
dropped by re-open after a surfaced error), TransferOnce, Intact, ReturnedMeansSent, CloseClears, MetaScopes, Times, Fields, OpenOk,
RequestOk; exactly-once holds when every _bulk request is indexed completely or not at all and the batch is one chunk.
Deviations (model switches, reported as L1): AtMostOnce fails when a request is partially accepted (per-item 429), times out after it
was processed, or a later chunk fails: the retry / next flush re-sends accepted documents, which have no _id (IdempotentIds);
put_doc drops the caller's meta_data when the scope's meta info is empty or level is None (DocMetaAlways).

Leg M   : TLC on specs/EsStore (flush under every outcome, pipeline, record content, open(); self-tests of both switches).
Leg S2C : TLC -simulate behaviours are executed on the REAL EsMetricsStore / InMemoryMetricsStore over the real EsClient and the real
          elasticsearch.helpers.bulk on top of a scripted fake Elasticsearch client (virtual clock, no sleeping); for multi-chunk
          behaviours one record of the specification stands for 2500 documents.
Leg C2S : every recorded execution (S2C ones and seeded random ones not derived from TLC) is validated by TLC against
          TraceEsStore.tla: L1 = the invariants on the recorded state, L2 = the recorded step is the specification's step.
"""
import datetime
import glob
import json
import logging
import os
import pickle
import random
import re
import time
import zlib
from unittest import mock

from .. import tlc, tracecheck
from ..core import Violation
from ..tlaparse import parse_value, to_json

KEYS = ["a", "b"]
TAG = "tag_u"
ALLKEYS = KEYS + [TAG]
NODES = ["n1", "n2"]
EPOCH = 1_700_000_000
EXPL_REL = 5
EXPL_ABS = 7
REAL_RETRIES = 10  # max_execution_count of EsClient.guarded
SIM_RETRIES = 2  # MaxRetries of the simulation configurations (exhaustion is stretched to the real budget)
GROUP = 2500  # grouped executions: one record of the specification = GROUP documents, so that ChunkSize 2 = chunk_size 5000
TRANSIENT = ("reqT", "reqTdone", "itemT")

NO_META = {k: 0 for k in ALLKEYS}
NO_ARGS = {"kind": "", "lvl": "", "node": "", "md": NO_META, "tm": "", "sty": "", "task": "", "op": "", "opt": ""}
NO_WORLD = {"tmpl": "none", "ow": False, "idx": False, "mig": False, "tag": 0}
NO_CTX = {"race": "", "ts": "", "y": 0, "m": 0, "track": "", "chal": "", "car": []}
NO_IX = {"y": 0, "m": 0, "new": False}
CTXS = [
    {"race": "r1", "ts": "20260926T101112Z", "y": 2026, "m": 9, "track": "geo", "chal": "ch1", "car": ["c1", "c2"]},
    {"race": "r2", "ts": "20251231T235959Z", "y": 2025, "m": 12, "track": "nyc", "chal": "ch2", "car": ["c4g"]},
]
TYPES = {"memes": {"drv": "mem", "rc": "es"}, "memmem": {"drv": "mem", "rc": "mem"}, "eses": {"drv": "es", "rc": "es"}}
TYPE_OP = {"memes": "TMemEs", "memmem": "TMemMem", "eses": "TEsEs"}


class _Abort(BaseException):
    """Raised by the fake cluster when a store call does not come to an end."""


def last_of(op, s, k, **kw):
    d = {"op": op, "s": s, "k": k, "reqs": [], "a": NO_ARGS, "create": False, "w": NO_WORLD}
    d.update(kw)
    return d


def _repo():
    return os.environ.get("VERIF_REPO", "/repo")


def _quiet():
    for name in ("esrally.metrics", "elastic_transport", "elasticsearch"):
        lg = logging.getLogger(name)
        lg.addHandler(logging.NullHandler())
        lg.propagate = False
        lg.setLevel(logging.CRITICAL + 1)


_RALLY_TEMPLATE = None


def rally_template():
    global _RALLY_TEMPLATE
    if _RALLY_TEMPLATE is None:
        with open(os.path.join(_repo(), "esrally", "resources", "metrics-template.json"), encoding="utf-8") as f:
            _RALLY_TEMPLATE = json.load(f)["template"]
    return _RALLY_TEMPLATE


_IX = re.compile(r"^rally-metrics-(\d{4})-(\d{2})(\.new)?$")


def parse_ix(name):
    m = _IX.match(name or "")
    if not m:
        return {"y": -1, "m": -1, "new": False}
    return {"y": int(m.group(1)), "m": int(m.group(2)), "new": bool(m.group(3))}


def ix_name(c, new=False):
    return "rally-metrics-%04d-%02d%s" % (c["y"], c["m"], ".new" if new else "")


# ---------------------------------------------------------------------------------------------------
# projection of real documents / stores to the specification's records
# ---------------------------------------------------------------------------------------------------
def _meta(d):
    d = d or {}
    extra = [k for k in d if k not in ALLKEYS]
    if extra:
        return {k: -len(extra) for k in ALLKEYS}
    return {k: (d[k] if isinstance(d.get(k), int) and not isinstance(d.get(k), bool) else (0 if k not in d else -1)) for k in ALLKEYS}


def _secs(ms, offset=0):
    if isinstance(ms, bool) or not isinstance(ms, int) or (ms - offset) % 1000:
        return -777
    return (ms - offset) // 1000


def project_doc(doc):
    if isinstance(doc.get("_source"), dict):  # a buffered bulk action that wraps the document (e.g. to give it an _id)
        doc = doc["_source"]
    kind = "value" if doc.get("name") == "vm" else "doc"
    rid = doc.get("value") if kind == "value" else doc.get("vid")
    return {
        "id": rid if isinstance(rid, int) else 0,
        "kind": kind,
        "meta": _meta(doc.get("meta")),
        "hasMeta": "meta" in doc,
        "rel": _secs(doc.get("relative-time")),
        "abs": _secs(doc.get("@timestamp"), EPOCH * 1000),
        "sty": str(doc.get("sample-type", "none")),
        "task": str(doc.get("task", "")),
        "op": str(doc.get("operation", "")),
        "opt": str(doc.get("operation-type", "")),
        "ctx": {
            "race": str(doc.get("race-id")),
            "ts": str(doc.get("race-timestamp")),
            "env": str(doc.get("environment")),
            "track": str(doc.get("track")),
            "chal": str(doc.get("challenge")),
            "car": str(doc.get("car")),
        },
        "tp": "track-params" in doc,
    }


def _unwrap(doc):
    return doc["_source"] if isinstance(doc, dict) and isinstance(doc.get("_source"), dict) else doc


def project_run(raw, group, proj=None, key=_unwrap):
    """raw documents -> records of the specification.  Consecutive equal raw documents are projected once.  Grouped executions: a run
    of `group` identical documents is ONE record of the specification; a remainder shows as a record with a negated id (which no
    invariant accepts)."""
    proj = proj or project_doc
    out = []
    i = 0
    n = len(raw)
    while i < n:
        r0 = raw[i]
        k0 = key(r0)
        j = i + 1
        while j < n and key(raw[j]) == k0:
            j += 1
        rec = proj(r0)
        cnt = j - i
        out += [rec] * (cnt // group)
        if cnt % group:
            out.append(dict(rec, id=-abs(rec["id"]) - 1))
        i = j
    return out


def collapse_ids(ids, group):
    if group == 1:
        return list(ids)
    out = []
    i = 0
    while i < len(ids):
        j = i
        while j < len(ids) and ids[j] == ids[i]:
            j += 1
        n = j - i
        out += [ids[i]] * (n // group)
        if n % group:
            out.append(-abs(ids[i]) - 1)
        i = j
    return out


# ---------------------------------------------------------------------------------------------------
# the scripted fake Elasticsearch client underneath the real EsClient
# ---------------------------------------------------------------------------------------------------
def _api_meta(status):
    import elastic_transport

    return elastic_transport.ApiResponseMeta(
        status=status, http_version="1.1", headers=elastic_transport.HttpHeaders(), duration=0.0, node=elastic_transport.NodeConfig("https", "metrics.example.org", 9243)
    )


def _api_error(code, what):
    import elasticsearch

    cls = elasticsearch.exceptions.HTTP_EXCEPTIONS.get(int(code), elasticsearch.ApiError)
    return cls(message=what, meta=_api_meta(int(code)), body={"error": {"type": what, "root_cause": [{"reason": "scripted"}]}, "status": int(code)})


def _response(body, status=200):
    import elastic_transport

    return elastic_transport.ObjectApiResponse(body=body, meta=_api_meta(status))


class _NodePool:
    def get(self):
        import elastic_transport

        return elastic_transport.NodeConfig("https", "metrics.example.org", 9243)


class _Transport:
    _serializers = None

    def __init__(self):
        import elastic_transport
        from elasticsearch.serializer import DEFAULT_SERIALIZERS

        if _Transport._serializers is None:
            _Transport._serializers = elastic_transport.SerializerCollection(DEFAULT_SERIALIZERS)
        self.node_pool = _NodePool()
        self.serializers = _Transport._serializers


class _Indices:
    def __init__(self, es):
        self._es = es

    def exists_index_template(self, name=None, **kw):
        self._es.session.on_admin("template_exists", None)
        return self._es.template is not None

    def get_index_template(self, name=None, **kw):
        self._es.session.on_admin("get_template", None)
        tmpls = [] if self._es.template is None else [{"name": name, "index_template": {"index_patterns": ["rally-metrics-*"], "template": self._es.template}}]
        return _response({"index_templates": tmpls})

    def put_index_template(self, name=None, **tmpl):
        self._es.session.on_admin("put_template", None)
        self._es.template = tmpl.get("template")
        return _response({"acknowledged": True})

    def exists(self, index=None, **kw):
        self._es.session.on_admin("exists", index)
        return index in self._es.indices_set

    def create(self, index=None, **kw):
        self._es.session.on_admin("create", index)
        self._es.indices_set.add(index)
        return _response({"acknowledged": True, "index": index})

    def refresh(self, index=None, **kw):
        return self._es.session.on_refresh(index)


class FakeEs:
    """One fake metrics cluster per execution: index template, indices, the documents of the metrics index."""

    def __init__(self, session):
        self.session = session
        self.transport = _Transport()
        self.indices = _Indices(self)
        self._client_meta = ()
        self.template = None
        self.indices_set = set()
        self.docs = []  # [record id, _id] per document of the index, in order of arrival
        self.by_id = {}

    def options(self, **kwargs):
        return self

    def template_kind(self):
        return "none" if self.template is None else "rally" if self.template == rally_template() else "other"

    def index_doc(self, rid, doc_id):
        if doc_id is not None:
            if doc_id in self.by_id:
                self.by_id[doc_id][0] = rid  # same _id: the document is overwritten
                return 200
            self.by_id[doc_id] = entry = [rid, doc_id]
            self.docs.append(entry)
            return 201
        self.docs.append([rid, None])
        return 201

    def bulk(self, *args, operations=None, index=None, **kwargs):
        return self.session.on_bulk(operations or [], index)


class _Factory:
    def __init__(self, fake):
        self._fake = fake

    def __call__(self, cfg):
        return self

    def create(self):
        from esrally import metrics

        return metrics.EsClient(self._fake)


# ---------------------------------------------------------------------------------------------------
# one execution on the real stores
# ---------------------------------------------------------------------------------------------------
class Session:
    def __init__(self, case):
        from esrally import config, metrics

        self.case = case
        self.types = TYPES[case["types"]]
        self.group = int(case.get("group", 1))
        self.t = 0
        self.events = []
        self.pending = None
        self.cur = None  # the flush / close in progress: {op, s, script, rscript, n}
        self.in_open = None
        self.wire = []
        self.stray = 0
        self.fake = FakeEs(self)
        self.cfgs = {}
        self.stores = {}
        for s in ("drv", "rc"):
            cfg = config.Config()
            cfg.add(config.Scope.application, "system", "env.name", "vf")
            cfg.add(config.Scope.application, "track", "params", {"p": 1} if s == "drv" else {})
            cfg.add(config.Scope.application, "node", "rally.root", os.path.join(_repo(), "esrally"))
            self.cfgs[s] = cfg
            if self.types[s] == "es":
                self.stores[s] = metrics.EsMetricsStore(cfg, client_factory_class=_Factory(self.fake))
            else:
                self.stores[s] = metrics.InMemoryMetricsStore(cfg)

    # ---- virtual time (time.perf_counter / time.time are replaced while the case runs)
    def perf_counter(self):
        return self.t

    def wall(self):
        return EPOCH + self.t

    def sleep(self, _seconds):
        pass

    # ---- observation
    def _docs_of(self, s):
        st = self.stores[s]
        docs = (st._docs if self.types[s] == "es" else st.docs) or []  # pylint: disable=protected-access
        return project_run(docs, self.group)

    def _store(self, s):
        from esrally import metrics

        st = self.stores[s]
        rid = st._race_id  # pylint: disable=protected-access
        if rid is None:
            ctx = NO_CTX
        else:
            oc = st.open_context
            ts = str(oc["race-timestamp"])
            car = oc["car"]
            ctx = {
                "race": str(oc["race-id"]),
                "ts": ts,
                "y": int(ts[0:4]) if ts[0:4].isdigit() else -1,
                "m": int(ts[4:6]) if ts[4:6].isdigit() else -1,
                "track": str(oc["track"]),
                "chal": str(oc["challenge"]),
                "car": [str(x) for x in car] if isinstance(car, list) else [str(car)],
            }
        mi = st._meta_info  # pylint: disable=protected-access
        start = st._stop_watch._start  # pylint: disable=protected-access
        return {
            "phase": "open" if st.opened else ("new" if rid is None else "closed"),
            "base": -1 if start is None else int(start),
            "ctx": ctx,
            "index": parse_ix(st._index) if self.types[s] == "es" and st._index is not None else NO_IX,  # pylint: disable=protected-access
            "cl": _meta(mi.get(metrics.MetaInfoScope.cluster)),
            "nd": {n: _meta(mi.get(metrics.MetaInfoScope.node, {}).get(n)) for n in NODES},
            "docs": self._docs_of(s),
        }

    def snapshot(self, last):
        wire = []
        for m in self.wire:
            if m is None:
                wire.append({"none": True, "docs": []})
            else:
                wire.append({"none": False, "docs": project_run(pickle.loads(zlib.decompress(m)), self.group)})
        return {
            "store": {s: self._store(s) for s in ("drv", "rc")},
            "wire": wire,
            "idx": collapse_ids([d[0] for d in self.fake.docs], self.group),
            "last": last,
            "clock": self.t,
        }

    def _finalize(self, k, **kw):
        ev, op, s = self.pending
        ev["st"] = self.snapshot(last_of(op, s, k, **kw))
        self.events.append(ev)
        self.pending = None

    def simple(self, ev, op, s, fn, **kw):
        try:
            fn()
            k = "returned"
        except _Abort:
            k = "aborted"
        except Exception:  # pylint: disable=broad-except
            k = "raised"
        ev["st"] = self.snapshot(last_of(op, s, k, **kw))
        self.events.append(ev)

    # ---- requests arriving at the fake cluster
    def on_admin(self, m, index):
        if self.in_open is not None:
            self.in_open.append({"m": m, "ix": NO_IX if index is None else parse_ix(index)})
        else:
            self.stray += 1

    def on_refresh(self, index):
        if self.in_open is not None:
            self.in_open.append({"m": "refresh", "ix": parse_ix(index)})
            return _response({"_shards": {"failed": 0}})
        if self.cur is None:
            self.stray += 1
            return _response({"_shards": {"failed": 0}})
        cur = self.cur
        cur["n"] += 1
        if cur["n"] > 60:
            raise _Abort()
        if cur["refreshing"]:
            o = "ok"  # a retried refresh is not scripted
        else:
            o = cur["rscript"]
            self._finalize("running")
            self.pending = ({"ev": "RefreshReq", "s": cur["s"], "o": o}, cur["op"].lower(), cur["s"])
            cur["refreshing"] = True
        if o == "ok":
            return _response({"_shards": {"failed": 0}})
        raise _api_error(400, "verif_refresh_failed")

    def on_bulk(self, operations, index):
        import elasticsearch

        pairs = [(operations[i], operations[i + 1]) for i in range(0, len(operations) - 1, 2)]
        ids = {}
        bodies = {}

        def doc_id(action):
            if action not in ids:
                a = json.loads(action)
                ids[action] = a.get("index", a.get("create", {})).get("_id")
            return ids[action]

        def record(body):
            if body not in bodies:
                bodies[body] = project_doc(json.loads(body))
            return bodies[body]

        recs = project_run(pairs, self.group, proj=lambda pr: record(pr[1]), key=lambda pr: pr[1])
        docs = [(doc_id(pr[0]), record(pr[1])) for pr in pairs]  # (_id, record) per document
        if self.cur is None:
            self.stray += 1
            for doc_id, rec in docs:
                self.fake.index_doc(rec["id"], doc_id)
            return _response({"errors": False, "took": 1, "items": [{"index": {"_id": "x", "status": 201}} for _ in docs]})
        cur = self.cur
        cur["n"] += 1
        if cur["n"] > 60:
            raise _Abort()
        o = dict(cur["script"].pop(0)) if cur["script"] else {"k": "ok", "bad": [], "v": 0}
        o["bad"] = [p for p in o["bad"] if 1 <= p <= len(recs)] if o["k"] in ("itemT", "itemF") else []
        if o["k"] in ("itemT", "itemF") and not o["bad"]:
            o["k"] = "ok"  # no item of this chunk is hit: the request succeeds
        self._finalize("running")
        self.pending = ({"ev": "BulkReq", "s": cur["s"], "o": {"k": o["k"], "bad": sorted(o["bad"]), "v": int(o.get("v", 0))}, "req": {"index": parse_ix(index), "recs": recs}}, cur["op"].lower(), cur["s"])
        k = o["k"]
        v = int(o.get("v", 0))
        n = cur["n"]
        if k == "reqT":
            raise [elasticsearch.ConnectionError("verif_conn_%d" % n), elasticsearch.ConnectionTimeout("verif_timeout_%d" % n), _api_error(503, "verif_503"), _api_error(429, "verif_429")][v % 4]
        if k == "reqF":
            import elastic_transport

            raise [_api_error(400, "verif_400"), elastic_transport.TransportError("verif_transport_%d" % n), _api_error(403, "verif_403"), _api_error(404, "verif_404")][v % 4]
        bad_docs = set()
        if k in ("itemT", "itemF"):
            for p in o["bad"]:
                bad_docs.update(range((p - 1) * self.group, min(p * self.group, len(docs))))
        status = ([429, 503] if k == "itemT" else [400, 409])[v % 2]
        items = []
        for j, (doc_id, rec) in enumerate(docs):
            if j in bad_docs:
                items.append({"index": {"_id": doc_id or "auto", "status": status, "error": {"type": "verif_item_%d" % status, "reason": "scripted"}}})
            else:
                st = self.fake.index_doc(rec["id"], doc_id)
                items.append({"index": {"_id": doc_id or "auto", "status": st, "result": "created" if st == 201 else "updated"}})
        if k == "reqTdone":
            raise elasticsearch.ConnectionTimeout("verif_late_timeout_%d" % n)
        return _response({"errors": bool(bad_docs), "took": n, "items": items})

    # ---- store calls
    def do(self, op):
        from esrally import metrics

        name = op["op"]
        s = op.get("s", "")
        store = self.stores.get(s)
        if name == "Tick":
            self.t += 1
            self.events.append({"ev": "Tick", "st": self.snapshot(last_of("tick", "", "returned"))})
        elif name == "Open":
            c, w, create = op["c"], op["w"], bool(op["create"])
            cfg = self.cfgs[s]
            from esrally import config

            cfg.add(config.Scope.application, "race", "user.tags", {"u": w["tag"]} if w["tag"] else {})
            cfg.add(config.Scope.application, "reporting", "datastore.overwrite_existing_templates", bool(w["ow"]))
            if self.types[s] == "es":
                tmpl = rally_template()
                if w["tmpl"] == "none":
                    self.fake.template = None
                elif w["tmpl"] == "same":
                    self.fake.template = json.loads(json.dumps(tmpl))
                else:
                    other = json.loads(json.dumps(tmpl))
                    other.setdefault("settings", {}).setdefault("index", {})["number_of_replicas"] = 7
                    self.fake.template = other
                for nm, ex in ((ix_name(c), w["idx"]), (ix_name(c, True), w["mig"])):
                    if ex:
                        self.fake.indices_set.add(nm)
                    else:
                        self.fake.indices_set.discard(nm)
            self.in_open = []

            def call():
                if op["how"] == "ctx":
                    store.open(ctx=self.stores["rc" if s == "drv" else "drv"].open_context, create=create)
                else:
                    ts = datetime.datetime.strptime(c["ts"], "%Y%m%dT%H%M%SZ")
                    store.open(c["race"], ts, c["track"], c["chal"], list(c["car"]), create=create)

            ev = {"ev": "Open", "s": s, "how": op["how"], "c": c, "create": create, "w": w}
            try:
                call()
                k = "returned"
            except Exception:  # pylint: disable=broad-except
                k = "raised"
            reqs, self.in_open = self.in_open, None
            ev["bk"] = {"tmpl": self.fake.template_kind(), "hasIndex": ix_name(c) in self.fake.indices_set}
            ev["st"] = self.snapshot(last_of("open", s, k, reqs=reqs if self.types[s] == "es" else [], create=create, w=w))
            self.events.append(ev)
        elif name == "AddMeta":
            scope = metrics.MetaInfoScope.cluster if op["scope"] == "cluster" else metrics.MetaInfoScope.node
            self.simple(
                {"ev": "AddMeta", "s": s, "scope": op["scope"], "n": op["n"], "k": op["k"], "v": op["v"]},
                "meta",
                s,
                lambda: store.add_meta_info(scope, None if op["scope"] == "cluster" else op["n"], op["k"], op["v"]),
            )
        elif name == "Put":
            a = op["a"]
            rid = op["id"]
            md = {k: v for k, v in a["md"].items() if v} or (None if rid % 2 else {})
            times = {} if a["tm"] == "auto" else {"absolute_time": EPOCH + EXPL_ABS, "relative_time": EXPL_REL}

            def call():
                for _ in range(self.group):
                    if a["kind"] == "value":
                        kw = dict(
                            name="vm",
                            value=rid,
                            unit="ms",
                            task=a["task"] or None,
                            operation=a["op"] or None,
                            operation_type=a["opt"] or None,
                            sample_type=metrics.SampleType.Warmup if a["sty"] == "warmup" else metrics.SampleType.Normal,
                            meta_data=md,
                            **times,
                        )
                        if a["lvl"] == "node":
                            store.put_value_node_level(a["node"], **kw)
                        else:
                            store.put_value_cluster_level(**kw)
                    else:
                        level = {"cluster": metrics.MetaInfoScope.cluster, "node": metrics.MetaInfoScope.node, "none": None}[a["lvl"]]
                        store.put_doc({"name": "vd", "vid": rid}, level=level, node_name=a["node"] or None, meta_data=md, **times)

            self.simple({"ev": "Put", "s": s, "a": a}, "put", s, call, a=a)
        elif name == "Reset":
            self.simple({"ev": "Reset", "s": s}, "reset", s, store.reset_relative_time)
        elif name == "Ext":

            def call():
                self.wire.append(store.to_externalizable(clear=bool(op["clear"])))

            self.simple({"ev": "Ext", "s": s, "clear": bool(op["clear"])}, "ext", s, call)
        elif name == "BulkAdd":

            def call():
                m = self.wire.pop(0)
                store.bulk_add(m)

            self.simple({"ev": "BulkAdd", "s": s}, "bulkadd", s, call)
        elif name in ("Flush", "Close"):
            self.cur = {"op": name, "s": s, "script": [dict(o) for o in op.get("script", [])], "rscript": op.get("rscript", "ok"), "n": 0, "refreshing": False}
            ev = {"ev": name, "s": s}
            if name == "Flush":
                ev["refresh"] = bool(op["refresh"])
            self.pending = (ev, name.lower(), s)
            try:
                if name == "Flush":
                    store.flush(refresh=bool(op["refresh"]))
                else:
                    store.close()
                k = "returned"
            except _Abort:
                k = "aborted"
            except Exception:  # pylint: disable=broad-except
                k = "raised"
            self._finalize(k)
            self.cur = None
        else:
            raise tlc.MachineryError("unknown op %r" % (name,))


def execute(case):
    """case: {types: memes|memmem|eses, group: 1|GROUP, ops: [...]} -> list of events for TraceEsStore.tla"""
    import random as random_mod

    ses = Session(case)
    rid = 0
    with mock.patch.object(time, "perf_counter", ses.perf_counter), mock.patch.object(time, "time", ses.wall), mock.patch.object(time, "sleep", ses.sleep), mock.patch.object(
        random_mod, "random", lambda: 0.0
    ):
        for op in case["ops"]:
            if op["op"] == "Put":
                rid += 1
                op = dict(op, id=rid)
            ses.do(op)
    return ses.events, ses.stray


# ---------------------------------------------------------------------------------------------------
# case sources
# ---------------------------------------------------------------------------------------------------
def stretch(script, model_retries):
    """A behaviour of a configuration with MaxRetries = model_retries that ends by exhausting the retries is mapped to the real
    budget: the last attempt is repeated until 11 attempts have failed."""
    transient = [o for o in script if o["k"] in TRANSIENT]
    if not script or script[-1]["k"] not in TRANSIENT or len(transient) != model_retries + 1:
        return script
    attempts = [[]]
    for o in script:
        attempts[-1].append(o)
        if o["k"] != "ok":
            attempts.append([])
    attempts = [a for a in attempts if a]
    return script + [dict(o) for _ in range(REAL_RETRIES - model_retries) for o in attempts[-1]]


_ACT = re.compile(r"^/\\ act = (.*?)(?=^/\\ [A-Za-z_]+ = |\Z)", re.M | re.S)


def acts_of_behaviour(path):
    with open(path, "r", encoding="utf-8") as f:
        text = f.read()
    text = "\n".join(ln for ln in text.splitlines() if not ln.startswith("\\*") and not ln.startswith("===="))
    return [to_json(parse_value(m.group(1).strip())) for m in _ACT.finditer(text)]


def ops_from_acts(acts, model_retries):
    ops = []
    cur = None
    for a in acts:
        name = a["name"]
        if name == "Init":
            continue
        if name in ("Flush", "Close"):
            cur = {"op": name, "s": a["s"], "script": [], "rscript": "ok"}
            if name == "Flush":
                cur["refresh"] = bool(a["refresh"])
            ops.append(cur)
        elif name == "BulkReq":
            o = a["o"]
            cur["script"].append({"k": o["k"], "bad": sorted(o["bad"]), "v": int(o.get("v", 0))})
        elif name == "RefreshReq":
            cur["rscript"] = a["o"]
        elif name == "Open":
            ops.append({"op": "Open", "s": a["s"], "how": a["how"], "c": a["c"], "create": bool(a["create"]), "w": a["w"]})
        elif name == "AddMeta":
            ops.append({"op": "AddMeta", "s": a["s"], "scope": a["scope"], "n": a["n"], "k": a["k"], "v": a["v"]})
        elif name == "Put":
            ops.append({"op": "Put", "s": a["s"], "a": a["a"]})
        elif name in ("Reset", "BulkAdd"):
            ops.append({"op": name, "s": a["s"]})
        elif name == "Tick":
            ops.append({"op": "Tick"})
        elif name == "Ext":
            ops.append({"op": "Ext", "s": a["s"], "clear": bool(a["clear"])})
        else:
            raise tlc.MachineryError("unknown action %r in a TLC behaviour" % (name,))
    for op in ops:
        if op["op"] in ("Flush", "Close"):
            op["script"] = stretch(op["script"], model_retries)
    return ops


def behaviours_from_tlc(ctx, out, cfg, num, depth, types, group, seed_off):
    wd = tlc.prepare_workdir("EsStore", "xesstore-sim")
    simdir = os.path.join(wd, "sim")
    os.makedirs(simdir)
    res = tlc.run_tlc(wd, "MC_EsStore", cfg, workers=1, simulate={"num": num, "file": os.path.join(simdir, "b")}, depth=depth, seed=ctx.seed + seed_off, timeout=600)
    if not res.ok:
        raise tlc.MachineryError("simulation of %s reported a violation of the model: %s" % (cfg, res.out[-2000:]))
    out.add_tlc(res)
    cases = []
    for fn in sorted(glob.glob(os.path.join(simdir, "b_*"))):
        ops = ops_from_acts(acts_of_behaviour(fn), SIM_RETRIES)
        if ops:
            cases.append({"src": "tlc-simulate:" + cfg, "types": types, "group": group, "ops": ops})
    return cases


def _md(rnd):
    md = dict(NO_META)
    if rnd.random() < 0.5:
        md[rnd.choice(ALLKEYS)] = 3
    return md


def _script(rnd, nrec, chunk):
    """outcomes of the _bulk requests of one flush: some failing attempts, then success, a fatal fault, or exhaustion"""
    nchunks = max(1, -(-nrec // chunk))

    def fail(n):
        k = rnd.choice(["reqT", "reqT", "reqTdone", "itemT"])
        bad = sorted(rnd.sample(range(1, n + 1), rnd.randint(1, n))) if k == "itemT" else []
        return {"k": k, "bad": bad, "v": rnd.randrange(4)}

    def size(ci):
        return min(chunk, nrec - ci * chunk)

    script = []
    style = rnd.random()
    nfail = 0 if style < 0.35 else rnd.randint(1, 3) if style < 0.8 else REAL_RETRIES + 1 if style < 0.9 else rnd.randint(8, 10)
    for _ in range(nfail):
        upto = rnd.randrange(nchunks)
        script += [{"k": "ok", "bad": [], "v": 0} for _ in range(upto)]
        script.append(fail(size(upto)))
    if nfail <= REAL_RETRIES:
        end = rnd.random()
        if end < 0.7:
            script += [{"k": "ok", "bad": [], "v": 0} for _ in range(nchunks)]
        else:
            upto = rnd.randrange(nchunks)
            script += [{"k": "ok", "bad": [], "v": 0} for _ in range(upto)]
            n = size(upto)
            if rnd.random() < 0.5:
                script.append({"k": "reqF", "bad": [], "v": rnd.randrange(4)})
            else:
                script.append({"k": "itemF", "bad": sorted(rnd.sample(range(1, n + 1), rnd.randint(1, n))), "v": rnd.randrange(2)})
    return script


def random_cases(seed, n, group=1, max_ops=40):
    """Seeded random executions, not derived from TLC: a generator that only knows when a call is legal."""
    rnd = random.Random(seed)
    cases = []
    for _ in range(n):
        types = rnd.choice(["memes", "memes", "memmem", "eses"])
        ty = TYPES[types]
        chunk = 2 if group > 1 else 5000
        phase = {"drv": "new", "rc": "new"}
        nbuf = {"drv": 0, "rc": 0}
        wire = []
        ops = []
        nrec = 0
        max_rec = 6 if group > 1 else 14
        ctx0 = rnd.choice(CTXS)

        def world(s):
            if ty[s] == "mem":
                return dict(NO_WORLD, tag=rnd.choice([0, 0, 2]))
            return {"tmpl": rnd.choice(["none", "same", "diff"]), "ow": rnd.random() < 0.5, "idx": rnd.random() < 0.5, "mig": rnd.random() < 0.3, "tag": rnd.choice([0, 0, 1, 2])}

        for _i in range(rnd.randint(6, max_ops)):
            closed = [s for s in ("drv", "rc") if phase[s] != "open"]
            opened = [s for s in ("drv", "rc") if phase[s] == "open"]
            r = rnd.random()
            if closed and (not opened or r < 0.25):
                s = rnd.choice(closed)
                other = "rc" if s == "drv" else "drv"
                how = "ctx" if phase[other] != "new" and rnd.random() < 0.4 else "direct"
                create = True if ty[s] == "mem" else rnd.random() < 0.8
                ops.append({"op": "Open", "s": s, "how": how, "c": ctx0 if how == "ctx" else ctx0, "create": create, "w": world(s)})
                phase[s] = "open"
                if ty[s] == "es":
                    nbuf[s] = 0
                continue
            if not opened:
                continue
            s = rnd.choice(opened)
            if r < 0.45 and nrec < max_rec:
                kind = rnd.choice(["value", "value", "doc"])
                lvl = rnd.choice(["cluster", "node"] if kind == "value" else ["cluster", "node", "none"])
                a = {
                    "kind": kind,
                    "lvl": lvl,
                    "node": rnd.choice(NODES) if lvl == "node" else "",
                    "md": _md(rnd),
                    "tm": "auto" if rnd.random() < 0.75 else "explicit",
                    "sty": rnd.choice(["warmup", "normal"]) if kind == "value" else "",
                    "task": rnd.choice(["", "t1"]) if kind == "value" else "",
                    "op": rnd.choice(["", "o1"]) if kind == "value" else "",
                    "opt": rnd.choice(["", "bulk"]) if kind == "value" else "",
                }
                ops.append({"op": "Put", "s": s, "a": a})
                nrec += 1
                nbuf[s] += 1
            elif r < 0.55:
                scope = rnd.choice(["cluster", "node"])
                ops.append({"op": "AddMeta", "s": s, "scope": scope, "n": rnd.choice(NODES) if scope == "node" else NODES[0], "k": rnd.choice(KEYS), "v": rnd.choice([1, 2])})
            elif r < 0.63:
                ops.append({"op": "Tick"})
            elif r < 0.67:
                ops.append({"op": "Reset", "s": s})
            elif r < 0.75 and phase["drv"] == "open":
                clear = rnd.random() < 0.85
                ops.append({"op": "Ext", "s": "drv", "clear": clear})
                wire.append(nbuf["drv"] if ty["drv"] == "mem" else 0)
                if clear and ty["drv"] == "mem":
                    nbuf["drv"] = 0
            elif r < 0.83 and wire and phase["rc"] == "open":
                ops.append({"op": "BulkAdd", "s": "rc"})
                nbuf["rc"] += wire.pop(0)
            elif r < 0.95:
                script = _script(rnd, nbuf[s], chunk) if ty[s] == "es" and nbuf[s] else []
                ops.append({"op": "Flush", "s": s, "refresh": rnd.random() < 0.5, "script": script, "rscript": "ok" if rnd.random() < 0.9 else "fatal"})
                if ty[s] == "es" and (not script or script[-1]["k"] == "ok"):
                    nbuf[s] = 0
            else:
                script = _script(rnd, nbuf[s], chunk) if ty[s] == "es" and nbuf[s] else []
                ops.append({"op": "Close", "s": s, "script": script, "rscript": "ok" if rnd.random() < 0.9 else "fatal"})
                phase[s] = "closed"
                if ty[s] == "es" and (not script or script[-1]["k"] == "ok"):
                    nbuf[s] = 0
        if ops:
            cases.append({"src": "random", "types": types, "group": group, "ops": ops})
    return cases


def directed_cases():
    """A few hand-written executions that every run contains (the situations the module's statement is about)."""
    ok = {"k": "ok", "bad": [], "v": 0}
    val = dict(NO_ARGS, kind="value", lvl="cluster", tm="auto", sty="normal", task="t1", op="o1", opt="bulk")

    def opn(s, create=True, how="direct"):
        return {"op": "Open", "s": s, "how": how, "c": CTXS[0], "create": create, "w": dict(NO_WORLD)}

    def put(s, n=1):
        return [{"op": "Put", "s": s, "a": val} for _ in range(n)]

    def flush(s, script, refresh=False):
        return {"op": "Flush", "s": s, "refresh": refresh, "script": script, "rscript": "ok"}

    t = lambda k, v=0: {"k": k, "bad": [], "v": v}  # noqa: E731
    cases = [
        # a later chunk fails transiently: the retry sends the first chunk again
        {"name": "second-chunk-transient", "types": "eses", "group": GROUP, "ops": [opn("rc")] + put("rc", 3) + [flush("rc", [ok, t("reqT"), ok, ok]), {"op": "Close", "s": "rc", "script": [], "rscript": "ok"}]},
        # retries exhausted (11 failed attempts, nothing indexed): the flush raises, the buffer is kept, the next flush delivers everything exactly once
        {"name": "exhausted-then-ok", "types": "eses", "group": 1, "ops": [opn("rc")] + put("rc", 2) + [flush("rc", [t("reqT", i) for i in range(REAL_RETRIES + 1)]), *put("rc", 1), flush("rc", [ok], True)]},
        # non-retryable fault: raises at once, buffer kept, close() delivers
        {"name": "fatal-then-close", "types": "eses", "group": 1, "ops": [opn("rc")] + put("rc", 2) + [flush("rc", [t("reqF")]), {"op": "Close", "s": "rc", "script": [ok], "rscript": "ok"}]},
        # close() raises: the store is closed, the buffer still holds the records; re-opening the store drops them
        {"name": "close-raises-reopen-drops", "types": "eses", "group": 1, "ops": [opn("rc")] + put("rc", 2) + [{"op": "Close", "s": "rc", "script": [t("reqF", 1)], "rscript": "ok"}, opn("rc", create=False), flush("rc", [], True)]},
        # the pipeline between driver and race control, twice, then one flush
        {
            "name": "pipeline",
            "types": "memes",
            "group": 1,
            "ops": [opn("rc"), opn("drv", how="ctx")]
            + put("drv", 2)
            + [{"op": "Ext", "s": "drv", "clear": True}]
            + put("drv", 1)
            + [{"op": "Ext", "s": "drv", "clear": True}, {"op": "BulkAdd", "s": "rc"}, {"op": "BulkAdd", "s": "rc"}, flush("rc", [t("reqT", 1), ok], True), {"op": "Close", "s": "drv", "script": [], "rscript": "ok"}],
        },
        # refresh after a successful bulk fails: the flush raises but the buffer is already empty - nothing is sent twice
        {"name": "refresh-fails", "types": "eses", "group": 1, "ops": [opn("rc")] + put("rc", 1) + [{"op": "Flush", "s": "rc", "refresh": True, "script": [ok], "rscript": "fatal"}, flush("rc", [], False)]},
    ]
    for c in cases:
        c["src"] = "directed:" + c.pop("name")
    return cases


# ---------------------------------------------------------------------------------------------------
# validation
# ---------------------------------------------------------------------------------------------------
def _cfg_text(types, group):
    with open(os.path.join(tlc.SPECS, "EsStore", "TraceEsStore.cfg"), "r", encoding="utf-8") as f:
        text = f.read()
    text, n1 = re.subn(r"^  TypeOf <- \w+$", "  TypeOf <- %s" % TYPE_OP[types], text, flags=re.M)
    text, n2 = re.subn(r"^  ChunkSize = \d+$", "  ChunkSize = %d" % (5000 // group), text, flags=re.M)
    if n1 != 1 or n2 != 1:
        raise tlc.MachineryError("TraceEsStore.cfg: cannot set TypeOf / ChunkSize")
    return text


def _cause(clause, events, line):
    """the kind of input that makes an L1 clause fail at event `line` (1-based), for the signature"""
    ev = events[line - 1]
    if ev["ev"] == "Put":
        a = ev["a"]
        before = events[line - 2]["st"]["store"][ev["s"]] if line >= 2 else None
        scope = {}
        if before is not None and a["lvl"] in ("cluster", "node"):
            scope = {k: v for k, v in before["cl"].items() if v}
            if a["lvl"] == "node":
                scope.update({k: v for k, v in before["nd"].get(a["node"], {}).items() if v})
        return "%s level=%s scope-meta-info=%s meta_data=%s%s" % (
            "put_value" if a["kind"] == "value" else "put_doc",
            a["lvl"],
            "some" if scope else "empty",
            "given" if any(a["md"].values()) else "none",
            " time=" + a["tm"] if clause == "Times" else "",
        )
    if clause == "AtMostOnce":
        now = ev["st"]["idx"]
        before = events[line - 2]["st"]["idx"] if line >= 2 else []
        dups = sorted(d for d in set(now) if now.count(d) > 1 and now.count(d) > before.count(d))
        if not dups:
            return "?"
        first = next(j for j, e in enumerate(events) if dups[0] in e["st"]["idx"])
        same_call = not any(e["ev"] in ("Flush", "Close") for e in events[first + 1 : line])
        again = "the retry of the whole batch" if same_call else "the next flush (the flush raised and kept the whole buffer)"
        k = events[first]["o"]["k"] if events[first]["ev"] == "BulkReq" else "?"
        if k == "ok":
            later = next((e["o"]["k"] for e in events[first + 1 : line] if e["ev"] == "BulkReq" and e["o"]["k"] != "ok"), "?")
            return "a chunk was accepted, a later chunk of the batch failed (%s); re-sent by %s" % (later, again)
        return "%s: the accepted documents are re-sent by %s" % ({"itemT": "items rejected with 429/503", "itemF": "items failed with 400/409", "reqTdone": "timeout after the request was processed"}.get(k, k), again)
    if clause in ("NoLoss", "EsNoLoss") and ev["ev"] in ("BulkReq", "RefreshReq", "Flush", "Close"):
        o = ev["o"]["k"] if ev["ev"] == "BulkReq" else ev.get("o", "")
        return "records are neither buffered nor indexed after a flush/close that %s%s" % (ev["st"]["last"]["k"], " on " + o if o else "")
    kinds = {e["o"]["k"] for e in events[:line] if e["ev"] == "BulkReq"} - {"ok"}
    if ev["ev"] not in ("BulkReq", "RefreshReq"):
        return "at %s%s" % (ev["ev"], " clear=%s" % ev["clear"] if ev["ev"] == "Ext" else "")
    return "%s; faults so far: %s" % (ev["ev"], ",".join(sorted(kinds)) or "none")


def run_cases(cases, out, label):
    batches = {}
    for ci, case in enumerate(cases):
        events, stray = execute(case)
        tid = "%s-%d" % (label, ci)
        item = {"id": tid, "events": events}
        batches.setdefault((case["types"], case.get("group", 1)), []).append((tid, case, item, stray))
        nreq = sum(1 for e in events if e["ev"] in ("BulkReq", "RefreshReq"))
        out.add_case(case["ops"], nontrivial=len(events) >= 4 and (nreq >= 1 or any(e["ev"] == "BulkAdd" for e in events)))
        if stray:
            out.drift.append("case %s: %d request(s) reached the metrics cluster outside open/flush/close" % (tid, stray))
    all_items = {}
    for (types, group), lst in sorted(batches.items()):
        items = [x[2] for x in lst]
        index = {x[0]: x for x in lst}
        all_items.update(index)
        verdicts = tracecheck.validate("EsStore", "TraceEsStore", "TraceEsStore.cfg", items, name="xesstore-trace", chunk=400, timeout=900, cfg_text=_cfg_text(types, group))
        out.states += verdicts.n_events
        out.transitions += verdicts.n_events
        out.traces_validated += verdicts.accepted(len(items))
        for tid, fails in verdicts.l1.items():
            _tid, case, item, _ = index[tid]
            for line, clauses in fails:
                for clause in clauses:
                    cause = _cause(clause, item["events"], line)
                    ev = item["events"][line - 1]
                    out.violations.append(
                        Violation(
                            clause,
                            case,
                            signature={"clause": clause, "cause": cause, "types": case["types"], "multi_chunk": case.get("group", 1) > 1},
                            detail="trace %s event %d (%s%s): %s fails; %s" % (tid, line, ev["ev"], " " + ev["o"]["k"] if ev["ev"] == "BulkReq" else "", clause, cause),
                        )
                    )
        for tid, lines in verdicts.l2.items():
            _tid, case, item, _ = index[tid]
            ev = item["events"][lines[0] - 1]
            out.drift.append("trace %s (%s): event %d %s is not the step of EsStore.tla: recorded last=%s" % (tid, case["src"], lines[0], {k: v for k, v in ev.items() if k not in ("st", "req")}, ev["st"]["last"]["k"]))
    return all_items


LEG_M = [
    # cfg, expected violated invariant (None = must hold)
    ("EsStore.quick.cfg", None),
    ("EsStore.whole.cfg", None),
    ("EsStore.pipe.cfg", None),
    ("EsStore.pipemem.cfg", None),
    ("EsStore.rec.cfg", None),
    ("EsStore.open.cfg", None),
    ("EsStore.pinned.cfg", "InvAtMostOnce"),
    ("EsStore.pinnedmeta.cfg", "InvMetaData"),
]


def run(ctx, out):
    _quiet()
    out.rule = (
        "case = a sequence of store calls on the driver's and race control's metrics store (open / add_meta_info / put_value_* / put_doc / reset_relative_time / clock tick / "
        "to_externalizable / bulk_add / flush / close) with the scripted outcome of every _bulk and refresh request; distinct by hash; non-trivial = at least 4 events and "
        "a request to the metrics cluster or a bulk_add. Sources: TLC -simulate behaviours of EsStore.tla (single-chunk and multi-chunk configuration) and seeded random executions."
    )
    out.assumptions = [
        "observation points: the calls of the store API and the requests arriving at the fake Elasticsearch client underneath the real EsClient (bulk is called once per chunk by the real "
        "elasticsearch.helpers.bulk); the state is projected from the real objects (_docs / docs, _meta_info, stop watch, opened, _index) at the next observation point",
        "virtual clock: time.perf_counter / time.time are replaced, time.sleep does not sleep, random.random returns 0; whole seconds",
        "a transient request fault (connection error / timeout / 429 / 503) means nothing was indexed, except outcome reqTdone (timeout after the cluster processed the request)",
        "multi-chunk executions: one record of the specification stands for %d identical documents, so that ChunkSize = 2 records is the code's chunk_size = 5000" % GROUP,
        "documents without _id get a fresh id on the fake cluster (every accepted item is a new document), documents with _id overwrite",
        "index existence / template state met by open() is chosen anew for every open (not tracked between opens); faults during open() are not injected (EsClient.guarded is specified by specs/Guarded)",
    ]
    quick = ctx.quick
    # ---- Leg M
    for cfg, expect in LEG_M + ([] if quick else [("EsStore.thorough.cfg", None), ("EsStore.pipe.thorough.cfg", None)]):
        wd = tlc.prepare_workdir("EsStore", "xesstore-mc")
        res = tlc.run_tlc(wd, "MC_EsStore", cfg, workers=1 if expect else 4 if quick else 8, timeout=280 if quick else 1500, allow_violation=True)
        out.add_tlc(res)
        if expect is None:
            if not res.ok:
                raise tlc.MachineryError("model violates %s in %s: %s" % (res.invariant_violated or res.property_violated, cfg, res.out[-1500:]))
            out.note("leg M %s: %d distinct states, depth %d, %.1fs" % (cfg, res.distinct, res.depth, res.wall_s))
        else:
            if res.invariant_violated != expect:
                raise tlc.MachineryError("self-test failed: %s should violate %s, got %s" % (cfg, expect, res.invariant_violated or res.error or "no violation"))
            out.note("leg M self-test %s: code-as-it-is variant violates %s in the model, as expected (%d states)" % (cfg, expect, res.distinct))
    out.extra["model_selftest"] = "IdempotentIds=FALSE violates InvAtMostOnce, DocMetaAlways=FALSE violates InvMetaData (the code as it is); with all-or-nothing single-chunk requests the code as it is satisfies every invariant (EsStore.whole.cfg)"
    out.exhaustive = False
    # ---- Leg S2C + C2S
    sims = []
    for types, off in (("memes", 11), ("eses", 12), ("memmem", 13)):
        n = {"memes": 120, "eses": 60, "memmem": 30}[types] * (1 if quick else 12)
        cfg_text_types = {"memes": "EsStore.sim.cfg", "eses": "EsStore.simes.cfg", "memmem": "EsStore.simmem.cfg"}[types]
        sims += behaviours_from_tlc(ctx, out, cfg_text_types, n, 60, types, 1, off)
    out.note("leg S2C: %d TLC behaviours (single chunk)" % len(sims))
    items = run_cases(sims, out, "sim")
    pick = next((c for c in sims if any(o["op"] in ("Flush", "Close") and len(o["script"]) >= 2 for o in c["ops"])), sims[0])
    out.sample({"source": pick["src"], "types": pick["types"], "ops": pick["ops"][:14]})
    chunked = behaviours_from_tlc(ctx, out, "EsStore.simchunk.cfg", 10 if quick else 150, 40, "eses", GROUP, 14)
    out.note("leg S2C: %d TLC behaviours (multi-chunk, one record = %d documents)" % (len(chunked), GROUP))
    run_cases(chunked, out, "simchunk")
    directed = directed_cases()
    run_cases(directed, out, "dir")
    failing = {}
    for v in out.violations:
        if v.case["src"].startswith("directed:"):
            failing.setdefault(v.case["src"], set()).add(v.clause)
    out.extra["directed"] = {c["src"]: ("fails " + ",".join(sorted(failing[c["src"]])) if c["src"] in failing else "all invariants hold") for c in directed}
    out.note("directed executions: %s" % out.extra["directed"])
    rnd = random_cases(ctx.seed + 1, 200 if quick else 4000)
    run_cases(rnd, out, "rnd")
    out.sample({"source": "random", "types": rnd[0]["types"], "ops": rnd[0]["ops"][:10]})
    rndc = random_cases(ctx.seed + 2, 5 if quick else 80, group=GROUP, max_ops=16)
    run_cases(rndc, out, "rndchunk")
    out.note("leg C2S: %d executions validated by TLC, %d L1 findings, %d drift" % (out.traces_validated, len(out.violations), len(out.drift)))
    # one line per kind of finding
    kinds = {}
    for v in out.violations:
        key = (v.clause, v.signature["cause"], v.signature["multi_chunk"])
        kinds.setdefault(key, []).append(v)
    out.extra["l1_findings_by_kind"] = {"%s: %s%s" % (k[0], k[1], " (multi-chunk)" if k[2] else ""): len(v) for k, v in sorted(kinds.items())}
    out.violations.sort(key=lambda v: (v.clause, len(v.case["ops"]), repr(v.case)))
    for k, vs in sorted(kinds.items()):
        smallest = min(vs, key=lambda v: len(v.case["ops"]))
        out.note("L1 %s: %s%s: %d executions, smallest has %d calls" % (k[0], k[1], " (multi-chunk)" if k[2] else "", len(vs), len(smallest.case["ops"])))


def replay(ctx, case):
    from ..core import Outcome

    _quiet()
    out = Outcome(ctx.pid)
    run_cases([case], out, "replay")
    for v in out.violations:
        print("L1 clause=%s %s" % (v.clause, v.detail))
    for d in out.drift:
        print("MODEL-DRIFT %s" % d)
    return 0
