"""Extra module Options: how Rally turns --target-hosts / --client-options into what the load driver uses (specs/Options).
Part 1 (esrally/utils/opts.py + rally.configure_connection_params): an option string is abstract syntax (host items host | host:port with
scheme / spelling variant / empty item; k:v items with a value token of a spelling class; JSON object with cluster members, inline or as a
.json file, duplicates possible); the result is the clusters, the hosts per cluster in order ([host, port, use_ssl]), the typed options per
cluster (1 / '1' / true stay distinct), the stage that refused (th / co / cons = "--target-hosts and --client-options must define the same
keys"), with_max_connections(n) and uses_static_responses.  Invariants (TLC + L1 on every run of the REAL code): HostOrderPreserved,
ClustersAsGiven (plain list = "default"), PortRules (absent or 1..65535, https -> 443 + use_ssl), EveryClusterHasOptions, DefaultAppliesToAll
(absent --client-options = timeout:60 for EVERY cluster, a plain k:v list = "default" only), TimeoutDefaultUnlessGiven, TypesByClass,
LastDuplicateWins, MaxConnectionsNeverLowered (floor 256, a user's value beats n, other options untouched), OptionsNotMutated,
RefusalsAreErrors.  Part 2 (client/factory.py EsClientFactory.__init__, TLS context replaced by a recorder): SchemeFollowsSsl,
SslOnlyWhenAsked, CertAndKeyTogether, BasicAuthPair, ApiKeyNeedsBasicAuth, TimeoutBecomesRequestTimeout, MaxConnectionsFloor, SecretsMasked,
OptionsNotMutated.  /repo does not meet three strong forms, each pinned behind a model switch (FALSE = /repo), shown as notes:
DefaultClusterAlwaysPresent (DefaultRequired), TimeoutDefaultAlsoJson (JsonTimeoutDefault), NoNamelessHost (EmptyHostRefused).

Leg M: TLC on Options.quick.cfg (code as it is; dump = test table), Options.intended.cfg (switches TRUE: strong clauses hold), 3 self-tests.
Leg S2C: every TLC input rendered to concrete strings / .json files and run through the REAL functions.  Leg C2S: those runs and seeded random
option strings (odd spacing, empty items, trailing commas, upper-case booleans, leading zeros, ports out of range, duplicate keys / clusters)
validated by TLC against TraceOptions.tla (L1 clauses, L2 = the transcription Code / FCode); corrupted recordings check the binding.
"""
import copy
import json
import logging
import os
import random
import shutil
import types
from unittest import mock
from concurrent.futures import ThreadPoolExecutor

from .. import tlc, tracecheck
from ..core import Violation
from ..tlaparse import parse_dump, to_json

SPEC = "Options"
PINNED = {
    "DefaultClusterAlwaysPresent": ("DefaultRequired", "a JSON --target-hosts without a \"default\" member is accepted (docs: there must be one default); the KeyError comes later, far from the option"),
    "TimeoutDefaultAlsoJson": ("JsonTimeoutDefault", "the documented default timeout:60 'for all cluster connections' is only merged into the plain k:v form; a JSON --client-options member without timeout gets the client library's default"),
    "NoNamelessHost": ("EmptyHostRefused", "an empty item of the host list (trailing comma, ',,') becomes a host entry {'host': None}"),
}
SELFTESTS = [("Options.pinned.default.cfg", "IDefaultClusterAlwaysPresent"), ("Options.pinned.timeout.cfg", "ITimeoutDefaultAlsoJson"), ("Options.pinned.nameless.cfg", "INoNamelessHost")]
MAXINT = 2**31 - 2

# ------------------------------------------------------------------ rendering (abstract syntax -> concrete text)


def render_host(it, in_json=False):
    v = it["v"]
    if it["k"] == "empty":
        return "  " if v == "pad" and not in_json else ""
    h = it["h"]
    if v == "br6":
        h = "[" + h + "]"
    s = h
    if it["k"] == "hp":
        p = str(it["p"])
        if v == "lz":
            p = "0" + p
        s += (": " if v == "inner" else ":") + p
    if it["sch"] != "none":
        s = it["sch"] + "://" + s
    if v == "upper":
        s = s.upper()
    if v == "pad" and not in_json:
        s = "  " + s + " "
    return s


def render_th(a, scratch, tag):
    if a["form"] == "csv":
        return ",".join(render_host(it) for it in a["items"])
    if a["top"] == "list":
        text = '["a:9200"]'
    elif a["top"] == "num":
        text = "9200"
    else:
        members = []
        for c in a["cl"]:
            strs = [json.dumps(render_host(it, True)) for it in c["hosts"]]
            val = "null" if c["shape"] == "null" else strs[0] if c["shape"] == "str" else "[" + ", ".join(strs) + "]"
            members.append(json.dumps(c["name"]) + ": " + val)
        text = "{" + ", ".join(members) + "}"
    return _deliver(a["form"], text, scratch, tag + "-th")


def _deliver(form, text, scratch, name):
    if form == "file":
        path = os.path.join(scratch, name + ".json")
        with open(path, "w", encoding="utf-8") as f:
            f.write(text)
        return path
    return text


def render_kv(it):
    if it["k"] == "empty":
        s = ""
    elif it["k"] == "nocolon":
        s = it["key"]
    elif it["k"] == "twocolon":
        s = it["key"] + ":" + it["tok"]["txt"] + ":z"
    else:
        s = it["key"] + ":" + it["tok"]["txt"]
    if it["v"] == "pad":
        s = " " + s.replace(":", " : ") + "  "
    return s


def json_val(v):
    return {"int": lambda: str(v["n"]), "bool": lambda: v["s"], "none": lambda: "null", "float": lambda: v["s"], "str": lambda: json.dumps(v["s"])}[v["t"]]()


def render_co(a, scratch, tag):
    if a["form"] == "csv":
        return ",".join(render_kv(it) for it in a["items"])
    members = [json.dumps(c["name"]) + ": {" + ", ".join(json.dumps(o["name"]) + ": " + json_val(o["v"]) for o in c["opts"]) + "}" for c in a["cl"]]
    return _deliver(a["form"], "{" + ", ".join(members) + "}", scratch, tag + "-co")


# ------------------------------------------------------------------ projection (python values -> tagged records)


def proj_val(v):
    if isinstance(v, bool):
        return {"t": "bool", "s": "true" if v else "false", "n": 0}
    if isinstance(v, int):
        return {"t": "int", "s": "", "n": v}
    if isinstance(v, float):
        return {"t": "float", "s": repr(v), "n": 1 if v > 256 else 0}
    if v is None:
        return {"t": "none", "s": "None", "n": 0}
    if isinstance(v, str):
        return {"t": "str", "s": v, "n": 0}
    return {"t": "other", "s": type(v).__name__, "n": 0}


def proj_opts(d):
    return [{"name": k, "v": proj_val(v)} for k, v in d.items()]


def proj_host(h):
    if not isinstance(h, dict) or "host" not in h:
        return {"host": "<absent>", "port": -1, "ssl": False}
    return {"host": "<None>" if h["host"] is None else str(h["host"]), "port": h.get("port", -1), "ssl": bool(h.get("use_ssl", False))}


def proj_clusters(d, f):
    return [{"name": k, "v": f(v)} for k, v in d.items()]


def bool_val(b):
    return {"t": "bool", "s": "true" if b else "false", "n": 0}


NO_MC = {"k": "err", "exc": "-", "cl": []}
NO_VAL = {"t": "absent", "s": "", "n": 0}
SECRET_KEYS = ("basic_auth_password", "api_key")


def unproj_val(v):
    return {"int": lambda: v["n"], "bool": lambda: v["s"] == "true", "none": lambda: None, "float": lambda: float(v["s"]), "str": lambda: v["s"]}[v["t"]]()


def unproj_host(h):
    if h["host"] == "<absent>":
        return {}
    d = {"host": h["host"]}
    if h["port"] != -1:
        d["port"] = h["port"]
    if h["ssl"]:
        d["use_ssl"] = True
    return d


def no_res():
    return {"stage": "-", "exc": "-", "th": [], "co": [], "mc": dict(NO_MC), "static": bool_val(False), "mut": False}


# ------------------------------------------------------------------ execution of the real code


class _ParserError(Exception):
    pass


class _Parser:
    def error(self, msg):
        raise _ParserError(msg)


class _Cfg:
    def __init__(self):
        self.v = {}

    def add(self, scope, section, key, value):
        self.v[(section, key)] = value


class Rt:
    def __init__(self):
        from esrally import rally  # the module under test ($VERIF_REPO)
        from esrally.client import factory
        from esrally.utils import opts

        self.rally, self.opts, self.factory = rally, opts, factory
        self.scratch = tlc.scratch("xopts-files")
        os.makedirs(self.scratch, exist_ok=True)

    def parse(self, a, tag):
        th_s = render_th(a["th"], self.scratch, tag)
        co_s = render_co(a["co"], self.scratch, tag)
        cfg = _Cfg()
        r = no_res()
        info = {"th": th_s, "co": co_s}
        try:
            self.rally.configure_connection_params(_Parser(), types.SimpleNamespace(target_hosts=th_s, client_options=co_s), cfg)
            r["stage"] = "ok"
        except _ParserError as ex:
            r["stage"] = "cons"
            info["msg"] = str(ex)
        except Exception as ex:  # pylint: disable=broad-except
            r["stage"] = "th" if ("client", "hosts") not in cfg.v else "co"
            r["exc"] = type(ex).__name__
            info["msg"] = str(ex)
        th = cfg.v.get(("client", "hosts"))
        co = cfg.v.get(("client", "options"))
        if th is not None:
            r["th"] = proj_clusters(th.all_hosts, lambda hs: [proj_host(h) for h in hs])
        if co is not None:
            if not isinstance(co.all_client_options, dict) or not all(isinstance(v, dict) for v in co.all_client_options.values()):
                r["stage"] = "shape"
                return r, info
            r["co"] = proj_clusters(co.all_client_options, proj_opts)
            before = copy.deepcopy((r["th"], r["co"]))
            try:
                r["mc"] = {"k": "ok", "exc": "-", "cl": proj_clusters(co.with_max_connections(a["n"]), proj_opts)}
            except Exception as ex:  # pylint: disable=broad-except
                r["mc"] = {"k": "err", "exc": type(ex).__name__, "cl": []}
            try:
                r["static"] = proj_val(co.uses_static_responses)
            except Exception as ex:  # pylint: disable=broad-except
                r["static"] = {"t": "err", "s": type(ex).__name__, "n": 0}
            after = (proj_clusters(th.all_hosts, lambda hs: [proj_host(h) for h in hs]), proj_clusters(co.all_client_options, proj_opts))
            r["mut"] = json.dumps(before, sort_keys=True) != json.dumps(after, sort_keys=True)
        return r, info

    def make_client_factory(self, a, tag):
        import ssl

        import certifi

        hosts = [unproj_host(h) for h in a["hosts"]]
        caller = {o["name"]: unproj_val(o["v"]) for o in a["opts"]}
        snapshot = copy.deepcopy(caller)
        hosts_snapshot = copy.deepcopy(hosts)
        ctxs = []

        class _Tls:
            def __init__(self, cafile):
                self.cafile, self.check_hostname, self.verify_mode, self.loaded = cafile, None, None, None

            def load_cert_chain(self, certfile=None, keyfile=None):
                self.loaded = (certfile, keyfile)

        def create_default_context(purpose=None, cafile=None, **kw):
            ctxs.append(_Tls(cafile))
            return ctxs[-1]

        records = []

        class _H(logging.Handler):
            def emit(self, record):
                try:
                    records.append(record.getMessage())
                except Exception as ex:  # pylint: disable=broad-except
                    records.append("unformattable %s %r %r" % (ex, record.msg, record.args))

        logger = logging.getLogger(self.factory.__name__)
        handler, level, propagate = _H(), logger.level, logger.propagate
        logger.addHandler(handler)
        logger.setLevel(logging.DEBUG)
        logger.propagate = False
        r = {"k": "err", "exc": "-", "urls": [], "opts": [], "ssl": "off", "cafile": dict(NO_VAL), "chk": False, "cert": [], "maxc": dict(NO_VAL), "static": dict(NO_VAL), "cleanup": dict(NO_VAL)}
        try:
            with mock.patch.object(ssl, "create_default_context", create_default_context), mock.patch.object(self.factory.console, "println", lambda *a_, **k_: None), mock.patch.object(self.factory.console, "warn", lambda *a_, **k_: None):
                f = self.factory.EsClientFactory(hosts, caller)
            tls = f.ssl_context
            opts = []
            for k, v in f.client_options.items():
                if k == "basic_auth" and isinstance(v, tuple) and len(v) == 2:
                    opts += [{"name": "basic_auth.0", "v": proj_val(v[0])}, {"name": "basic_auth.1", "v": proj_val(v[1])}]
                else:
                    opts.append({"name": k, "v": proj_val(v)})
            r.update(k="ok", urls=list(f.hosts), opts=opts, maxc=proj_val(f.max_connections), static=proj_val(f.static_responses), cleanup=proj_val(f.enable_cleanup_closed))
            if tls is not None:
                r.update(ssl="noverify" if tls.verify_mode == ssl.CERT_NONE else "verify", chk=bool(tls.check_hostname), cert=[proj_val(x) for x in tls.loaded] if tls.loaded else [],
                         cafile={"t": "str", "s": "<certifi>", "n": 0} if tls.cafile == certifi.where() else proj_val(tls.cafile))  # fmt: skip
        except Exception as ex:  # pylint: disable=broad-except
            r["exc"] = type(ex).__name__
        finally:
            logger.removeHandler(handler)
            logger.setLevel(level)
            logger.propagate = propagate
        text = "\n".join(records)
        r["leak"] = sorted(k for k in SECRET_KEYS if k in snapshot and isinstance(snapshot[k], (str, int)) and not isinstance(snapshot[k], bool) and len(str(snapshot[k])) >= 6 and str(snapshot[k]) in text)
        r["mut"] = repr(caller) != repr(snapshot) or repr(hosts) != repr(hosts_snapshot)
        return r, {"opts": snapshot, "log": text[:400]}

    def close(self):
        shutil.rmtree(self.scratch, ignore_errors=True)


# ------------------------------------------------------------------ random option strings (not derived from TLC)

HOSTS = ["a", "b", "es1.example.org", "10.0.0.5"]
HOSTS6 = ["::1", "fe80::1"]
PORTS = [-1, 0, 1, 80, 443, 9200, 9243, 39200, 65535, 65536, 70000, 99999]
CLUSTERS = ["default", "remote", "other"]
CO_KEYS = ["timeout", "max_connections", "static_responses", "use_ssl", "verify_certs", "basic_auth_user", "basic_auth_password", "retry_on_timeout"]
FLOATS = [("6.5", "6.5"), ("1e3", "1000.0"), ("nan", "nan"), ("inf", "inf"), (".5", "0.5"), ("300.", "300.0"), ("-2.5", "-2.5"), ("1E2", "100.0"), ("Infinity", "inf"), ("256.0", "256.0"), ("NaN", "nan")]
WORDS = ["abc", "elastic", "changeme", "r.json", "/path/to/ca.pem", "0x10", "1.2.3", "yes", "tru", "nul", "60s", "--x"]


def tok(c, txt, s, n):
    return {"c": c, "txt": txt, "s": s, "n": n}


def random_token(rnd):
    c = rnd.choice(["int", "int", "intlz", "intplus", "intus", "intneg", "float", "bool", "boolup", "none", "noneup", "str", "str", "qstr", "qnum", "qbool", "blank"])
    n = rnd.choice([0, 1, 7, 10, 60, 255, 256, 257, 300, 1000, 5000, 123456])
    if c == "int":
        return tok(c, str(n), "", n)
    if c == "intlz":
        return tok(c, "0" * rnd.randint(1, 3) + str(n), "", n)
    if c == "intplus":
        return tok(c, "+" + str(n), "", n)
    if c == "intus":
        n = rnd.choice([1000, 5000, 123456])
        return tok(c, str(n)[:-3] + "_" + str(n)[-3:], "", n)
    if c == "intneg":
        return tok(c, "-" + str(n), "", -n)
    if c == "float":
        txt, s = rnd.choice(FLOATS)
        f = float(txt)
        return tok("floatword" if txt.lower() in ("nan", "inf", "infinity") else "floatexp" if "e" in txt.lower() else "float", txt, s, 1 if f > 256 else 0)
    if c in ("bool", "boolup"):
        b = rnd.choice(["true", "false"])
        return tok(c, b if c == "bool" else rnd.choice([b.upper(), b.capitalize(), b[0].upper() + b[1:-1] + b[-1].upper()]), b, 0)
    if c in ("none", "noneup"):
        return tok(c, "none" if c == "none" else rnd.choice(["None", "NONE"]), "None", 0)
    if c == "str":
        w = rnd.choice(WORDS)
        return tok("hex" if w == "0x10" else "jsonname" if w.endswith(".json") else "str", w, w, 0)
    if c == "qstr":
        w = rnd.choice(WORDS + ["", "a b"])
        return tok(c, "'" + w + "'", w, 0)
    if c == "qnum":
        return tok(c, "'" + str(n) + "'", str(n), 0)
    if c == "qbool":
        b = rnd.choice(["true", "False", "none"])
        return tok(c, "'" + b + "'", b, 0)
    return tok("blank", "", "", 0)


def random_host(rnd, json_form=False):
    if rnd.random() < 0.12:
        return {"k": "empty", "h": "", "p": 0, "sch": "none", "v": "plain" if json_form else rnd.choice(["plain", "pad"])}
    k = rnd.choice(["name", "hp", "hp", "hp"])
    sch = rnd.choice(["none", "none", "none", "http", "https"])
    if rnd.random() < 0.15:
        return {"k": k, "h": rnd.choice(HOSTS6), "p": rnd.choice(PORTS), "sch": sch, "v": rnd.choice(["br6", "br6", "bare6"])}
    return {"k": k, "h": rnd.choice(HOSTS), "p": rnd.choice(PORTS) if rnd.random() < 0.5 else rnd.choice([9200, 9201, 443]), "sch": sch, "v": rnd.choice(["plain", "plain", "pad", "upper", "lz", "inner"] if rnd.random() < 0.4 else ["plain"])}


def random_jval(rnd):
    c = rnd.choice(["int", "int", "bool", "str", "none", "float"])
    if c == "int":
        return {"t": "int", "s": "", "n": rnd.choice([0, 10, 30, 60, 120, 255, 256, 1000, 4096])}
    if c == "bool":
        return bool_val(rnd.random() < 0.5)
    if c == "str":
        return {"t": "str", "s": rnd.choice(WORDS + ["60", "true", ""]), "n": 0}
    if c == "none":
        return {"t": "none", "s": "None", "n": 0}
    f = rnd.choice([6.5, 1000.0, 0.5, 256.0, 300.25])
    return {"t": "float", "s": repr(f), "n": 1 if f > 256 else 0}


def random_input(rnd):
    x = rnd.random()
    if x < 0.45:
        items = [random_host(rnd) for _ in range(rnd.choice([0, 1, 1, 2, 2, 3, 4]))]
        if len(items) == 1 and items[0]["k"] == "empty":
            items[0]["v"] = rnd.choice(["plain", "pad"])
        th = {"form": "csv", "items": items, "top": "obj", "cl": []}
    else:
        cl = []
        for _ in range(rnd.choice([0, 1, 1, 2, 2, 2, 3, 4])):
            shape = rnd.choice(["list", "list", "list", "list", "str", "null"])
            hosts = [random_host(rnd, True) for _ in range(rnd.choice([0, 1, 1, 2, 3]) if shape == "list" else 1)]
            cl.append({"name": rnd.choice(CLUSTERS + ["default"]), "shape": shape, "hosts": hosts})
        th = {"form": "json" if x < 0.8 else "file", "items": [], "top": rnd.choice(["obj"] * 12 + ["list", "num"]), "cl": cl}
    y = rnd.random()
    if y < 0.15:
        co = {"form": "csv", "items": [{"k": "kv", "key": "timeout", "tok": tok("int", "60", "", 60), "v": "plain"}], "cl": []}
    elif y < 0.55:
        items = []
        for _ in range(rnd.choice([0, 1, 1, 2, 2, 3, 4, 5])):
            k = rnd.choice(["kv"] * 14 + ["empty", "nocolon", "twocolon"])
            items.append({"k": k, "key": rnd.choice(CO_KEYS), "tok": random_token(rnd), "v": rnd.choice(["plain", "plain", "pad"])})
        co = {"form": "csv", "items": items, "cl": []}
    else:
        names = [c["name"] for c in th["cl"]] if th["cl"] and rnd.random() < 0.6 else [rnd.choice(CLUSTERS + ["default"]) for _ in range(rnd.choice([0, 1, 2, 2, 3]))]
        if rnd.random() < 0.2:
            names = names + [rnd.choice(CLUSTERS)]
        cl = [{"name": nm, "opts": [{"name": rnd.choice(CO_KEYS), "v": random_jval(rnd)} for _ in range(rnd.choice([0, 1, 2, 2, 3]))]} for nm in names]
        co = {"form": rnd.choice(["json", "json", "file"]), "items": [], "cl": cl}
    return {"th": th, "co": co, "n": rnd.choice([1, 8, 255, 256, 257, 1000, 5000])}


# ------------------------------------------------------------------ TLC


def _run_tlc(cfg, name, dump=False, **kw):
    wd = tlc.prepare_workdir(SPEC, name)
    d = os.path.join(wd, "states") if dump else None
    res = tlc.run_tlc(wd, "MC_Options", cfg, dump=d, **kw)
    res.wd = wd
    res.dump_path = (d + ".dump" if os.path.exists(d + ".dump") else d) if dump else None
    return res


def _fits(obj):
    if isinstance(obj, bool):
        return True
    if isinstance(obj, int):
        return abs(obj) <= MAXINT
    if isinstance(obj, float) or obj is None:
        return False
    if isinstance(obj, dict):
        return all(_fits(v) for v in obj.values())
    if isinstance(obj, (list, tuple)):
        return all(_fits(v) for v in obj)
    return True


def _arg(text):
    if isinstance(text, str) and text.endswith(".json") and os.path.isfile(text):
        with open(text, encoding="utf-8") as f:
            return "<name of a .json file with> " + f.read()
    return text


def _short(case, info):
    return {"target_hosts": _arg(info.get("th")), "client_options": _arg(info.get("co")), "n": case["a"].get("n")} if case["kind"] == "p" else {"hosts": case["a"]["hosts"], "options": info.get("opts")}


def run_cases(rt, cases, out, label, stats):
    items, index = [], {}
    for ci, case in enumerate(cases):
        tid = "%s-%d" % (label, ci)
        if case["kind"] == "p":
            r, info = rt.parse(case["a"], tid)
        else:
            r, info = rt.make_client_factory(case["a"], tid)
        out.add_case({"kind": case["kind"], "a": case["a"]}, nontrivial=True)
        stats["cases"] += 1
        key = "stage_" + r["stage"] if case["kind"] == "p" else "factory_" + (r["k"] if r["k"] == "ok" else r["exc"])
        stats[key] = stats.get(key, 0) + 1
        if case["kind"] == "f" and r["k"] == "ok":
            for key in ("ssl_" + r["ssl"], "client_cert_loaded" if r["cert"] else "", "basic_auth" if any(o["name"] == "basic_auth.0" for o in r["opts"]) else "", "maxc_raised" if r["maxc"]["n"] > 256 else ""):
                if key:
                    stats[key] = stats.get(key, 0) + 1
        item = {"id": tid, "kind": case["kind"], "a": case["a"], "r": r}
        if not _fits(item):
            out.drift.append("%s: the result does not fit TLC's values: %s" % (tid, json.dumps(r, sort_keys=True, default=str)[:300]))
            continue
        if case.get("model") is not None:
            stats["s2c"] += 1
            rr = dict(r, opts=sorted(r["opts"], key=lambda e: e["name"])) if case["kind"] == "f" else r
            stats["s2c_followed"] += json.dumps(case["model"], sort_keys=True) == json.dumps(rr, sort_keys=True)
        items.append(item)
        index[tid] = (case, item, info)
    v = tracecheck.validate(SPEC, "TraceOptions", "TraceOptions.cfg", items, name="xoptrace", timeout=600, chunk=4000)
    out.states += v.n_events
    out.transitions += v.n_events
    bad = set(v.l2) | {tid for tid, fails in v.l1.items() if any(c not in PINNED for _, cl in fails for c in cl)}
    out.traces_validated += max(0, v.n_items - len(bad))
    for tid, fails in sorted(v.l1.items()):
        case, item, info = index[tid]
        for _line, clauses in fails:
            for c in sorted(clauses):
                stats["l1"][c] = stats["l1"].get(c, 0) + 1
                if c in PINNED and tid in v.l2:
                    continue  # a strong clause /repo is known not to meet, on a result that is reported as drift anyway
                if c in PINNED:
                    rec = out.extra.setdefault("pinned_behaviour_observed", {}).setdefault(c, {"switch": PINNED[c][0], "what": PINNED[c][1], "cases": 0, "size": 10**9, "example": None})
                    rec["cases"] += 1
                    size = len(json.dumps(case["a"]))
                    if size < rec["size"]:
                        rec["size"] = size
                        rec["example"] = {"case": tid, "input": _short(case, info), "result": item["r"]}
                elif len(out.violations) < 40:
                    out.violations.append(Violation(c, {"kind": case["kind"], "a": case["a"], "rendered": _short(case, info)}, {"kind": case["kind"]}, "clause %s fails on the recorded result %s" % (c, json.dumps(item["r"], sort_keys=True)[:600])))
    for tid in sorted(v.l2):
        case, item, info = index[tid]
        stats["l2"] += 1
        if len(out.drift) < 25:
            out.drift.append("case %s (%s): the recorded result is not the one of Options.tla (code as it is): input %s -> recorded %s" % (tid, case.get("src", label), json.dumps(_short(case, info), sort_keys=True)[:500], json.dumps(item["r"], sort_keys=True)[:700]))
    return items


def table_from_dump(path):
    table = []
    for st in parse_dump(path):
        st = to_json(st)
        if st["done"] and "hosts" in st["in"]:
            m = dict(st["res"])
            # records inside a TLA+ set come frozen as sorted (field, value) pairs
            m["opts"] = sorted(({"name": dict(map(tuple, e))["name"], "v": dict(map(tuple, dict(map(tuple, e))["v"]))} for e in m["opts"]), key=lambda e: e["name"])
            table.append({"kind": "f", "a": st["in"], "model": m, "src": "tlc"})
        elif st["done"]:
            table.append({"kind": "p", "a": st["in"], "model": st["res"], "src": "tlc"})
    table.sort(key=lambda c: json.dumps(c["a"], sort_keys=True))
    return table


def run(ctx, out):
    out.rule = (
        "case = abstract option strings (--target-hosts argument, --client-options argument, n of with_max_connections) or (hosts, options of one cluster) for the client factory; "
        "distinct by that input. Sources: every state of the TLC run (S2C, exhaustive for the configuration), seeded random inputs over wider alphabets (C2S only)."
    )
    out.exhaustive = True
    out.assumptions = [
        "the rendering of the abstract syntax to text (render_host / render_kv / JSON members in textual order, .json files in a scratch directory) and the projection of Python values to "
        "tagged records [t, s, n] are trusted; a float is recorded by its repr and the one fact 'exceeds 256'",
        "configure_connection_params is called with a recording cfg and an arg_parser whose error() raises; with_max_connections / uses_static_responses are called on the objects it stored",
        "EsClientFactory.__init__: ssl.create_default_context is replaced by a recorder (cafile, check_hostname, verify_mode, load_cert_chain), console output suppressed, the log record captured",
        "not modelled: user:password@ / path parts of a host URL, host dicts inside JSON, a value with an opening quote only, JSON client options that are not an object of objects, csv_to_list's JSON array form",
    ]
    pool = ThreadPoolExecutor(4)
    tlc.scratch_root()
    main_cfg = "Options.quick.cfg" if ctx.quick else "Options.thorough.cfg"
    futs = {main_cfg: pool.submit(_run_tlc, main_cfg, "xopmc", dump=True, timeout=900, workers=4, allow_violation=True)}
    futs["Options.intended.cfg"] = pool.submit(_run_tlc, "Options.intended.cfg", "xopmc", timeout=300, workers=2, allow_violation=True)
    for cfg, _inv in SELFTESTS:
        futs[cfg] = pool.submit(_run_tlc, cfg, "xopmc", timeout=300, workers=1, allow_violation=True)
    rt = Rt()
    try:
        _run(ctx, out, futs, main_cfg, rt)
    finally:
        pool.shutdown(wait=True)
        rt.close()


def _run(ctx, out, futs, main_cfg, rt):
    stats = {"cases": 0, "s2c": 0, "s2c_followed": 0, "l2": 0, "l1": {}}
    main = futs[main_cfg].result()
    out.add_tlc(main)
    if not main.ok:
        raise tlc.MachineryError("model violates %s in %s: %s" % (main.invariant_violated or "?", main_cfg, main.out[-1500:]))
    table = table_from_dump(main.dump_path)
    if len(table) * 2 != main.distinct:
        raise tlc.MachineryError("dump has %d evaluated states, TLC reports %d distinct states" % (len(table), main.distinct))
    out.note("leg M %s: %d distinct states, %.1fs" % (main_cfg, main.distinct, main.wall_s))
    items = run_cases(rt, table, out, "tab", stats)
    out.note("leg S2C: %d inputs from TLC, the real code gives the model's result in %d of %d executions" % (len(table), stats["s2c_followed"], stats["s2c"]))
    out.extra["table"] = {"rows": len(table), "real_code_equals_table": stats["s2c_followed"], "compared": stats["s2c"]}
    out.sample({"source": "tlc", "input": items[len(items) // 2]["a"], "recorded": items[len(items) // 2]["r"]})
    rnd = random.Random(ctx.seed + 31)
    rc = [{"kind": "p", "a": random_input(rnd), "src": "random"} for _ in range(4000 if ctx.quick else 60000)]
    rc += extra_cases(rt, ctx, items)
    ritems = run_cases(rt, rc, out, "rnd", stats)
    out.sample({"source": "random", "input": ritems[0]["a"], "recorded": ritems[0]["r"]})
    res = futs["Options.intended.cfg"].result()
    out.add_tlc(res)
    if not res.ok:
        raise tlc.MachineryError("model violates %s in Options.intended.cfg: %s" % (res.invariant_violated or "?", res.out[-1500:]))
    for cfg, inv in SELFTESTS:
        res = futs[cfg].result()
        if res.invariant_violated != inv:
            raise tlc.MachineryError("self-test failed: %s no longer violates %s (%s)" % (cfg, inv, res.invariant_violated or res.error))
        out.extra.setdefault("model_selftests", []).append("%s violates %s in the model, as expected" % (cfg, inv[1:]))
    out.extra["coverage_of_cases"] = stats
    out.note("leg C2S: %d executions validated, %d accepted; option parsing ended %s; factory %s" % (stats["cases"], out.traces_validated, {k[6:]: v for k, v in sorted(stats.items()) if k.startswith("stage_")}, {k: v for k, v in sorted(stats.items()) if k.split("_")[0] in ("factory", "ssl", "client", "basic", "maxc")}))
    for key in ("stage_ok", "stage_cons", "stage_th", "stage_co", "factory_ok", "factory_SystemSetupError", "factory_KeyError", "factory_TypeError", "factory_ValueError", "ssl_verify", "ssl_noverify", "ssl_off", "client_cert_loaded", "basic_auth", "maxc_raised"):
        if not stats.get(key):
            out.vacuous.append("no executed case exercised: " + key)
    binding_selftest(out, items + ritems)
    for key, rec in sorted(out.extra.get("pinned_behaviour_observed", {}).items()):
        rec.pop("size", None)
        out.note("pinned behaviour of /repo (strong clause %s fails in %d cases; model switch %s = FALSE): %s; smallest example %s" % (key, rec["cases"], rec["switch"], rec["what"], json.dumps(rec["example"]["input"], sort_keys=True)))
    for c in PINNED:
        if c not in out.extra.get("pinned_behaviour_observed", {}) and not (out.violations or out.drift):
            out.note("pinned behaviour %s (switch %s) was NOT observed on this tree" % (c, PINNED[c][0]))
    if out.vacuous:
        out.note("VACUOUS: %s" % out.vacuous)


F_HOSTS = [("a", False), ("b", False), ("es1.example.org", False), ("10.0.0.5", True), ("::1", True)]
F_VALUES = {
    "use_ssl": [True, True, False, "true", "false", 1, 0, None, ""],
    "verify_certs": [True, False, False, "false", 0, None],
    "ca_certs": ["/path/to/ca.pem", ""],
    "client_cert": ["/path/to/cert.pem", "", False],
    "client_key": ["/path/to/key.pem", "", None],
    "basic_auth_user": ["elastic", "", 12345678],
    "basic_auth_password": ["pw-S3CR3T", 987654321, "", "changeme-S3CR3T"],
    "api_key": ["key-S3CR3T==", "", 1234567890],
    "create_api_key_per_client": [True, False, "true"],
    "timeout": [60, 0, 6.5, "60", None, 120],
    "max_connections": [10, 256, 1000, "7", None, True, 300.25, 6.5],
    "static_responses": ["r.json", None, False],
    "compressed": [True, False, "yes"],
    "http_compress": [True, False],
    "enable_cleanup_closed": [True, False, "no", "yes", "maybe", 1, 0, "1", 7],
    "retry_on_timeout": [True, False],
}


def random_factory_input(rnd):
    hosts = []
    for _ in range(rnd.choice([0, 1, 1, 2, 2, 3])):
        h, ip = rnd.choice(F_HOSTS)
        hosts.append({"host": h, "port": rnd.choice([9200, 9200, 9243, 443, -1] if rnd.random() < 0.3 else [9200, 9243]), "ssl": rnd.random() < 0.25, "ip": ip})
    if rnd.random() < 0.03:
        hosts.append({"host": "<absent>", "port": -1, "ssl": False, "ip": False})
    group = rnd.choice([["use_ssl", "verify_certs", "ca_certs", "client_cert", "client_key"], ["basic_auth_user", "basic_auth_password", "api_key", "create_api_key_per_client"], list(F_VALUES)])
    keys = [k for k in F_VALUES if (k in group and rnd.random() < 0.6) or rnd.random() < 0.12]
    rnd.shuffle(keys)
    return {"hosts": hosts, "opts": [{"name": k, "v": proj_val(rnd.choice(F_VALUES[k]))} for k in keys]}


def extra_cases(rt, ctx, items):
    rnd = random.Random(ctx.seed + 32)
    cases = [{"kind": "f", "a": random_factory_input(rnd), "src": "random"} for _ in range(3000 if ctx.quick else 40000)]
    # the pipeline as the load driver runs it: parsed hosts and with_max_connections(n) options of the default cluster
    for it in items:
        if len(cases) >= (3600 if ctx.quick else 44000):
            break
        r = it["r"]
        if it["kind"] == "p" and r["stage"] == "ok" and r["mc"]["k"] == "ok" and r["th"] and all(h["host"] not in ("<None>", "<absent>") for h in r["th"][0]["v"]):
            hosts = [dict(h, ip=h["host"][0].isdigit() or ":" in h["host"]) for h in r["th"][0]["v"]]
            cases.append({"kind": "f", "a": {"hosts": hosts, "opts": r["mc"]["cl"][0]["v"]}, "src": "pipeline"})
    return cases


def binding_selftest(out, items):
    base = next((it for it in items if it["kind"] == "p" and it["r"]["stage"] == "ok" and len(it["r"]["th"]) == 2 and len(it["r"]["th"][0]["v"]) >= 1 and it["r"]["mc"]["k"] == "ok" and it["r"]["th"][0]["v"][0]["port"] > 1), None)
    if base is None:
        if not (out.violations or out.drift):
            raise tlc.MachineryError("binding self-test: no suitable recorded case")
        return
    m1 = copy.deepcopy(base)
    m1["id"] = "bind-port"
    m1["r"]["th"][0]["v"][0]["port"] = 70000
    m2 = copy.deepcopy(base)
    m2["id"] = "bind-cluster"
    m2["r"]["co"] = m2["r"]["co"][:1]
    m3 = copy.deepcopy(base)
    m3["id"] = "bind-mc"
    for e in m3["r"]["mc"]["cl"][0]["v"]:
        if e["name"] == "max_connections":
            e["v"]["n"] = 100
    m4 = copy.deepcopy(base)
    m4["id"] = "bind-mut"
    m4["r"]["mut"] = True
    fb = next((it for it in items if it["kind"] == "f" and it["r"]["k"] == "ok" and it["r"]["ssl"] == "verify" and any(o["name"] == "basic_auth.1" for o in it["r"]["opts"])), None)
    extra = []
    if fb is not None:
        m5 = copy.deepcopy(fb)
        m5["id"] = "bind-leak"
        m5["r"]["leak"] = ["basic_auth_password"]
        m6 = copy.deepcopy(fb)
        m6["id"] = "bind-ssl"
        m6["r"]["ssl"] = "off"
        extra = [m5, m6]
    v = tracecheck.validate(SPEC, "TraceOptions", "TraceOptions.cfg", [m1, m2, m3, m4] + extra, name="xopbind")
    want = {"bind-leak": "SecretsMasked", "bind-ssl": "SslOnlyWhenAsked"} if extra else {}
    want.update({"bind-port": "PortRules", "bind-cluster": "EveryClusterHasOptions", "bind-mc": "MaxConnectionsNeverLowered", "bind-mut": "OptionsNotMutated"})
    missed = [m for m, c in want.items() if not any(c in cl for _, cl in v.l1.get(m, [])) or m not in v.l2]
    if missed:
        raise tlc.MachineryError("binding self-test failed: corrupted recordings accepted: %s (l1 %s, l2 %s)" % (missed, sorted(v.l1.items()), sorted(v.l2)))
    out.extra["binding_selftest"] = "recordings with a port out of range, a cluster without options, a lowered max_connections and a mutated option object are rejected by TLC (L1 and L2); likewise a factory recording with a leaked password / without the TLS context"
