"""Extra module RunnerRegistry: the runner registry and wrapper stack of esrally/driver/runner.py (specs/RunnerRegistry).
Part "call": one register_runner(op, user's object, async_runner=...) and one invocation of runner_for(op) -- `async with w: await w(es, params)`
or driver.execute_single(w, es, params, on_error).  The user's object is a plain async function / an object with async __call__ / a context
manager (__aenter__ and __aexit__) / one with __aenter__ only, with or without `multi_cluster`, `completed` / `percent_completed`, wrapped in
Retry or not.  Observed: wrapper chain, repr, unwrap, completed / percent_completed, the client(s) the user's runner received, enter/call/exit,
the keys read from the returned dict, the outcome (the very object / exception class + text / the triple of execute_single).  Invariants (TLC +
L1 on every run of the REAL code): AsyncRequired, StackOrder (completion > assertions > client selection [> Retry] > user), RetryInnermostWrapper,
ReprNamesRunner, ClientSelection (multi_cluster -> all clients, else es["default"]), ContextManagerHonoured, CompletionFromUser,
PassingCallUnchanged, UserExceptionPropagates, DisabledNeverEvaluates (no key of the result is read unless --enable-assertions AND the operation
has "assertions"), FailsIffPredicateFalse (operator table > >= < <= == on dotted property paths), NoReturnOnFailure, FailureMessage (first
failing assertion, "Expected [p] in [name] to be c [v] but was [x]."), NonDictIsDataError, NormalisedTriple (weight/unit/meta of execute_single).
Part "hist": histories of register / remove / lookup / register_default_runners: LatestRegistrationWins, FailedCallChangesNothing,
OnlyOwnOperationType, DefaultsCoverBuiltins, LookupTotal (an OperationType lands under its hyphenated name).  Part "census": WHERE
register_default_runners applies Retry (EveryTypeHasRunner, DefaultStackOrder; the set of the 20 non-retryable types is L2).  Part "mand":
runner.mandatory (PresentIsReturned -- also a value None --, MissingIsDataError).  AssertionFailureNotRetried: Retry sits inside the assertion
check, the user's runner is called once.  /repo does not meet two strong forms, pinned behind model switches (FALSE = /repo):
BadAssertionIsAssertionError (MissingIsAssertionError: a property path that is not in the result / an unknown condition / unorderable values
escape as KeyError / TypeError; execute_single reports the KeyError as "Cannot execute [...]. Provided parameters are ...") and
UnwrapReturnsUser (UnwrapStopsAtUser: a registered object with an attribute `delegate` of its own is unwrapped further).

Leg M: TLC on RunnerRegistry.quick.cfg (code as it is; dump = test table), RunnerRegistry.intended.cfg (switches TRUE), 2 self-tests.
Leg S2C: every TLC input built as real objects and run through the REAL registry / stack / execute_single.  Leg C2S: those runs and seeded
random registrations / calls / histories validated by TLC against TraceRunnerRegistry.tla (L1 clauses, L2 = Code); corrupted recordings check
the binding.  The stack never sees the sample type: assertions are checked on warm-up and measurement requests alike (nothing to model).
"""
import asyncio
import copy
import json
import logging
import os
import random
import re
from concurrent.futures import ThreadPoolExecutor

from .. import tlc, tracecheck
from ..core import Violation
from ..tlaparse import parse_dump, to_json

SPEC = "RunnerRegistry"
PINNED = {
    "BadAssertionIsAssertionError": (
        "MissingIsAssertionError",
        "an assertion on a property path that is not in the result (or with an unknown condition / unorderable values) does not fail as a task "
        "assertion: KeyError / TypeError escape, and execute_single words the KeyError as 'Cannot execute [runner]. Provided parameters are: ...'",
    ),
    "UnwrapReturnsUser": ("UnwrapStopsAtUser", "unwrap() and the multi_cluster / completion probes follow an attribute `delegate` of the user's own runner object"),
}
SELFTESTS = [("RunnerRegistry.pinned.unwrap.cfg", "IUnwrapReturnsUser"), ("RunnerRegistry.pinned.missing.cfg", "IBadAssertionIsAssertionError")]
NOT_RETRYABLE = ("bulk force-merge node-stats search paginated-search composite-agg scroll-search raw-request composite submit-async-search delete-async-search "
                 "open-point-in-time close-point-in-time sql field-caps esql sleep create-snapshot restore-snapshot downsample").split()  # for the wording of a drift line only
NIL = {"t": "nil", "n": 0, "s": "", "d": []}
NONORM = {"ops": 0, "unit": "", "keys": [], "success": False}
MAXINT = 2**31 - 2

# ------------------------------------------------------------------ real code


class RecDict(dict):
    """The dict a user's runner returns; records every d[key] (the only way check_assertion reads it)."""

    def __init__(self, data, log, prefix=""):
        super().__init__(data)
        self._log = log
        self._prefix = prefix

    def __getitem__(self, key):
        if getattr(self._log, "on", True):
            self._log.append(self._prefix + key)
        return super().__getitem__(key)


class Log(list):
    on = True


class Through:
    """What execute_single is given: the registered stack, observed until its call returns (execute_single reads the dict itself afterwards)."""

    def __init__(self, w, log):
        self.w, self.log = w, log

    async def __aenter__(self):
        await self.w.__aenter__()
        return self

    async def __aexit__(self, exc_type, exc_val, exc_tb):
        return await self.w.__aexit__(exc_type, exc_val, exc_tb)

    async def __call__(self, *args):
        try:
            return await self.w(*args)
        finally:
            self.log.on = False

    def __repr__(self):
        return repr(self.w)


def to_py(v, log, prefix=""):
    if v["t"] == "int":
        return v["n"]
    if v["t"] == "bool":
        return bool(v["n"])
    if v["t"] == "str":
        return v["s"]
    if v["t"] == "nil":
        return None
    return RecDict({e["key"]: to_py(e["v"], log, prefix + e["key"] + ".") for e in v["d"]}, log, prefix)


class UserError(Exception):
    pass


class Bare:
    pass


class Rt:
    def __init__(self):
        from esrally import exceptions, track
        from esrally.driver import driver, runner

        self.runner, self.driver, self.track, self.exceptions = runner, driver, track, exceptions
        self.registry = runner.__dict__["__RUNNERS"]
        self.saved = dict(self.registry)
        self.saved_enabled = runner.AssertingRunner.assertions_enabled
        self.loop = asyncio.new_event_loop()
        self.default, self.other = Bare(), Bare()
        self.es = {"default": self.default, "other": self.other}
        self.sent_c, self.sent_p = Bare(), Bare()
        logging.disable(logging.CRITICAL)

    def close(self):
        logging.disable(logging.NOTSET)
        self.registry.clear()
        self.registry.update(self.saved)
        self.runner.AssertingRunner.assertions_enabled = self.saved_enabled
        self.loop.close()

    # -- the user's runner object
    def make_user(self, a, st):
        rt = self

        async def body(es, params):
            st["ev"].append("call")
            st["client"] = "all" if es is rt.es else "default" if es is rt.default else "other"
            if a["ret"]["k"] == "raise":
                st["exc"] = KeyError("k") if a["ret"]["s"] == "KeyError" else UserError("boom")
                raise st["exc"]
            return st["retval"]

        if a["kind"] == "fn":

            async def U(es, params):
                return await body(es, params)

            u = U
        else:
            ns = {"__call__": lambda self, es, params: body(es, params), "__repr__": lambda self: "U"}
            if a["kind"] in ("cm", "half"):

                async def aenter(self):
                    st["ev"].append("enter")
                    return self

                ns["__aenter__"] = aenter
            if a["kind"] == "cm":

                async def aexit(self, exc_type, exc_val, exc_tb):
                    st["ev"].append("exit")
                    return False

                ns["__aexit__"] = aexit
            u = type("U", (), ns)()
        if a["mc"]:
            u.multi_cluster = True
        if a["prog"] in ("half", "both"):
            u.completed = self.sent_c
        if a["prog"] == "both":
            u.percent_completed = self.sent_p
        if a["deleg"]:
            u.delegate = Bare()
        return u

    def call(self, a):
        runner = self.runner
        st = {"ev": [], "client": "nocall", "reads": Log(), "exc": None}
        rk = a["ret"]["k"]
        st["retval"] = to_py(a["ret"]["v"], st["reads"]) if rk == "val" else (a["ret"]["n"], a["ret"]["s"]) if rk == "tuple" else (1, "ops", 2) if rk == "tuple3" else None
        u = self.make_user(a, st)
        reg = runner.Retry(u) if a["retry"] else u
        kw = {"true": {"async_runner": True}, "false": {"async_runner": False}, "absent": {}}[a["async"]]
        op = "verif-x"
        self.registry.pop(op, None)
        try:
            runner.register_runner(op, reg, **kw)
        except self.exceptions.RallyAssertionError as ex:
            ok = "must be implemented as async runner and registered with async_runner=True" in str(ex) and op not in self.registry
            return {"part": "call", "reg": "refused" if ok else "refused-oddly"}, {}
        w = runner.runner_for(op)
        chain, x = [], w
        while x is not u and x is not None and len(chain) < 10:
            chain.append(type(x).__name__)
            x = getattr(x, "delegate", None)
        c, p = getattr(w, "completed", "missing"), getattr(w, "percent_completed", "missing")
        compl = "user" if c is self.sent_c and p is self.sent_p else "none" if c is None and p is None else "other"
        params = {}
        if a["name"] != "<absent>":
            params["name"] = a["name"]
        if a["has"]:
            params["assertions"] = [{"property": ".".join(x["p"]), "condition": x["c"], "value": to_py(x["v"], [])} for x in a["as"]]
        if a["rp"]:
            params["retries"] = 2
            params["retry-on-error"] = True
        runner.enable_assertions(a["enabled"])
        norm = dict(NONORM)
        same = False

        async def direct():
            async with w:
                return await w(self.es, params)

        try:
            if a["stage"] == "direct":
                rv = self.loop.run_until_complete(direct())
                o = {"k": "ret", "cls": "", "msg": ""}
                same = rv is st["retval"]
            else:
                ops, unit, meta = self.loop.run_until_complete(self.driver.execute_single(Through(w, st["reads"]), self.es, params, "abort" if a["stage"] == "abort" else "continue"))
                o = {"k": "norm", "cls": "", "msg": ""}
                same = meta is st["retval"]
                norm = {"ops": ops, "unit": unit, "keys": sorted(meta.keys()), "success": dict.get(meta, "success")}
        except Exception as ex:  # pylint: disable=broad-except
            o = {"k": "exc", "cls": type(ex).__name__, "msg": "" if isinstance(ex, TypeError) else str(ex)}
            same = ex is st["exc"]
        finally:
            runner.enable_assertions(False)
            self.registry.pop(op, None)
        r = {"part": "call", "reg": "ok", "chain": chain, "repr": re.sub(r"<function .*? at 0x[0-9a-f]+>", "<function>", repr(w)), "unwrapU": runner.unwrap(w) is u, "compl": compl, "client": st["client"],
             "ev": st["ev"], "o": dict(o, msg=re.sub(r"<function .*? at 0x[0-9a-f]+>", "<function>", o["msg"])), "reads": list(st["reads"]), "same": same, "norm": norm}
        return r, {"params": params}

    def mand(self, a):
        vals = {k: (None if a["nul"] else Bare()) for k in a["keys"]}
        try:
            x = self.runner.mandatory(vals, a["key"], a["op"])
            ok = a["key"] in vals and x is vals[a["key"]]
            return {"part": "mand", "k": "val" if ok else "other", "cls": "", "msg": ""}, {}
        except Exception as ex:  # pylint: disable=broad-except
            return {"part": "mand", "k": "exc", "cls": type(ex).__name__, "msg": str(ex)}, {}

    def rid(self, opname):
        try:
            w = self.runner.runner_for(opname)
        except self.exceptions.RallyError as ex:
            return -1 if type(ex) is self.exceptions.RallyError else -2  # pylint: disable=unidiomatic-typecheck
        u = self.runner.unwrap(w)
        r = getattr(u, "rid", None)
        return r if r is not None else 0 if isinstance(u, self.runner.Runner) else -3

    def hist(self, a):
        runner = self.runner
        self.registry.clear()
        name = {o: (o if o == "force-merge" else "verif-" + o) for o in a["ops"]}
        obs = []
        for i, stp in enumerate(a["h"], 1):
            try:
                if stp["a"] == "reg":
                    u = type("U", (), {"__call__": None, "__repr__": lambda self: "U"})()
                    u.rid = i
                    key = self.track.OperationType.ForceMerge if stp["enum"] and stp["op"] == "force-merge" else name[stp["op"]]
                    runner.register_runner(key, u, **({"async_runner": True} if stp["ok"] else {}))
                    r = "ok"
                elif stp["a"] == "rm":
                    runner.remove_runner(name[stp["op"]])
                    r = "ok"
                elif stp["a"] == "get":
                    x = self.rid(name[stp["op"]])
                    r = "RallyError" if x == -1 else str(x)
                else:
                    runner.register_default_runners()
                    r = "ok"
            except Exception as ex:  # pylint: disable=broad-except
                r = type(ex).__name__
            obs.append({"r": r, "st": [self.rid(name[o]) for o in a["ops"]]})
        self.registry.clear()
        return {"part": "hist", "obs": obs}, {}


# ------------------------------------------------------------------ TLC


def _run_tlc(cfg, name, dump=False, **kw):
    wd = tlc.prepare_workdir(SPEC, name)
    d = os.path.join(wd, "states") if dump else None
    res = tlc.run_tlc(wd, "MC_RunnerRegistry", cfg, dump=d, **kw)
    res.wd = wd
    res.dump_path = (d + ".dump" if os.path.exists(d + ".dump") else d) if dump else None
    return res


def _fits(obj):
    if isinstance(obj, bool):
        return True
    if isinstance(obj, int):
        return abs(obj) <= MAXINT
    if isinstance(obj, float) or obj is None:
        return False
    if isinstance(obj, dict):
        return all(_fits(v) for v in obj.values())
    if isinstance(obj, (list, tuple)):
        return all(_fits(v) for v in obj)
    return True


def _key(a):
    return json.dumps(a, sort_keys=True)


def _short(case):
    a = case["a"]
    if a["part"] == "mand":
        return a
    if a["part"] == "hist":
        return {"history": [[s["a"], s["op"]] + (["async_runner=True" if s["ok"] else "no async_runner"] if s["a"] == "reg" else []) + (["as OperationType"] if s["enum"] else []) for s in a["h"]]}
    d = {k: a[k] for k in ("kind", "mc", "prog", "retry", "deleg", "async", "enabled", "has", "name", "stage", "rp")}
    d["assertions"] = [[".".join(x["p"]), x["c"], _plain(x["v"])] for x in a["as"]]
    d["returns"] = _plain(a["ret"]["v"]) if a["ret"]["k"] == "val" else a["ret"]["k"] + ("" if a["ret"]["k"] != "raise" else " " + a["ret"]["s"])
    return d


def _plain(v):
    return to_py(v, []) if v["t"] != "dict" else {e["key"]: _plain(e["v"]) for e in v["d"]}


def run_cases(rt, cases, out, label, stats):
    items, index = [], {}
    for ci, case in enumerate(cases):
        tid = "%s-%d" % (label, ci)
        a = case["a"]
        r, info = rt.call(a) if a["part"] == "call" else rt.hist(a) if a["part"] == "hist" else rt.mand(a)
        out.add_case(a, nontrivial=True)
        stats["cases"] += 1
        if a["part"] == "mand":
            key = "mand_" + r["k"]
        elif a["part"] == "hist":
            key = "hist"
            for o in r["obs"]:
                stats["hist_" + o["r"] if not o["r"].isdigit() else "hist_found"] = stats.get("hist_" + o["r"] if not o["r"].isdigit() else "hist_found", 0) + 1
        elif r["reg"] != "ok":
            key = "call_refused"
        else:
            key = "call_" + (r["o"]["cls"] if r["o"]["k"] == "exc" else r["o"]["k"])
            for k2 in ("chain_" + r["chain"][0], "client_" + r["client"], "ctx" if "enter" in r["ev"] else "noctx", "reads" if r["reads"] else "", "retry" if "Retry" in r["chain"] else ""):
                if k2:
                    stats[k2] = stats.get(k2, 0) + 1
        stats[key] = stats.get(key, 0) + 1
        item = {"id": tid, "a": a, "r": r}
        if not _fits(item):
            out.drift.append("%s: the result does not fit TLC's values: %s" % (tid, json.dumps(r, sort_keys=True, default=str)[:300]))
            continue
        if case.get("model") is not None:
            stats["s2c"] += 1
            stats["s2c_followed"] += json.dumps(case["model"], sort_keys=True) == json.dumps(r, sort_keys=True)
        items.append(item)
        index[tid] = (case, item, info)
    v = tracecheck.validate(SPEC, "TraceRunnerRegistry", "TraceRunnerRegistry.cfg", items, name="xrrtrace", timeout=600, chunk=4000)
    out.states += v.n_events
    out.transitions += v.n_events
    bad = set(v.l2) | {tid for tid, fails in v.l1.items() if any(c not in PINNED for _, cl in fails for c in cl)}
    out.traces_validated += max(0, v.n_items - len(bad))
    for tid, fails in sorted(v.l1.items()):
        case, item, info = index[tid]
        for _line, clauses in fails:
            for c in sorted(clauses):
                stats["l1"][c] = stats["l1"].get(c, 0) + 1
                if c in PINNED and tid in v.l2:
                    continue
                if c in PINNED:
                    rec = out.extra.setdefault("pinned_behaviour_observed", {}).setdefault(c, {"switch": PINNED[c][0], "what": PINNED[c][1], "cases": 0, "size": 10**9, "example": None})
                    rec["cases"] += 1
                    size = len(json.dumps(case["a"]))
                    if size < rec["size"]:
                        rec["size"] = size
                        rec["example"] = {"case": tid, "input": _short(case), "result": item["r"]}
                elif len(out.violations) < 40:
                    out.violations.append(Violation(c, {"a": case["a"], "rendered": _short(case)}, {"part": case["a"]["part"]}, "clause %s fails on the recorded result %s" % (c, json.dumps(item["r"], sort_keys=True)[:600])))
    for tid in sorted(v.l2):
        case, item, info = index[tid]
        stats["l2"] += 1
        if len(out.drift) < 25:
            out.drift.append("case %s (%s): the recorded result is not the one of RunnerRegistry.tla (code as it is): input %s -> recorded %s" % (tid, case.get("src", label), json.dumps(_short(case), sort_keys=True)[:500], json.dumps(item["r"], sort_keys=True)[:700]))
    return items


def table_from_dump(path):
    table = []
    for st in parse_dump(path):
        st = to_json(st)
        if st["done"]:
            table.append({"a": st["in"], "model": st["res"], "src": "tlc"})
    table.sort(key=lambda c: _key(c["a"]))
    return table


# ------------------------------------------------------------------ random inputs (C2S only)


def tv(x):
    if isinstance(x, bool):
        return {"t": "bool", "n": int(x), "s": "", "d": []}
    if isinstance(x, int):
        return {"t": "int", "n": x, "s": "", "d": []}
    if isinstance(x, str):
        return {"t": "str", "n": 0, "s": x, "d": []}
    return {"t": "dict", "n": 0, "s": "", "d": [{"key": k, "v": tv(v)} for k, v in x.items()]}


KEYS = ["hits", "took", "nested", "a", "b", "relation", "timed_out"]


def random_dict(rnd, depth=0):
    d = {}
    for k in rnd.sample(KEYS, rnd.choice([0, 1, 2, 3, 4])):
        x = rnd.random()
        d[k] = random_dict(rnd, depth + 1) if x < 0.3 and depth < 2 else rnd.choice(["eq", "gte", ""]) if x < 0.45 else rnd.random() < 0.5 if x < 0.55 else rnd.randint(-2, 8)
    if depth == 0:
        if rnd.random() < 0.4:
            d["weight"] = rnd.choice([0, 1, 5, 1000])
        if rnd.random() < 0.4:
            d["unit"] = rnd.choice(["docs", "ops", "pages"])
        if rnd.random() < 0.3:
            d["success"] = rnd.random() < 0.5
    return d


def _lookup(d, path):
    v = d
    for k in path:
        if not isinstance(v, dict) or k not in v:
            return None
        v = v[k]
    return v


def random_call(rnd):
    kind = rnd.choice(["fn", "obj", "cm", "half"])
    retry = kind == "cm" and rnd.random() < 0.3
    x = rnd.random()
    if x < 0.7:
        d = random_dict(rnd)
        ret = {"k": "val", "v": tv(d), "n": 0, "s": ""}
    else:
        d = None
        ret = rnd.choice([{"k": "tuple", "v": NIL, "n": rnd.choice([0, 1, 500]), "s": rnd.choice(["docs", "ops"])}, {"k": "tuple3", "v": NIL, "n": 0, "s": ""}, {"k": "none", "v": NIL, "n": 0, "s": ""},
                          {"k": "val", "v": tv(rnd.choice(["text", 7, True])), "n": 0, "s": ""}, {"k": "raise", "v": NIL, "n": 0, "s": "UserError"}, {"k": "raise", "v": NIL, "n": 0, "s": "KeyError"}])
    asl = []
    for _ in range(rnd.choice([0, 1, 1, 2, 2, 3, 4])):
        path = [rnd.choice(KEYS + ["weight", "unit", "success", "missing", ""]) for _ in range(rnd.choice([1, 1, 1, 2, 2, 3]))]
        if d is not None and rnd.random() < 0.5:
            # a path that exists
            path, v = [], d
            while isinstance(v, dict) and v and (not path or rnd.random() < 0.8):
                k = rnd.choice(sorted(v))
                path.append(k)
                v = v[k]
            path = path or ["hits"]
        cond = rnd.choice([">", ">=", "<", "<=", "==", "==", "!=", "=", "gt"]) if rnd.random() < 0.2 else rnd.choice([">", ">=", "<", "<=", "=="])
        val = rnd.choice(["eq", "gte", "x"]) if rnd.random() < 0.15 else rnd.random() < 0.5 if rnd.random() < 0.1 else rnd.randint(-2, 8)
        actual = _lookup(d, path) if d is not None else None
        # not modelled: the text of a dict in a failure message, the lexicographic order of two strings
        if (isinstance(actual, dict) and cond == "==") or (isinstance(actual, str) and isinstance(val, str) and cond != "=="):
            continue
        asl.append({"p": path, "c": cond, "v": tv(val)})
    return {"part": "call", "kind": kind, "mc": rnd.random() < 0.3, "prog": rnd.choice(["none", "none", "half", "both"]), "retry": retry,
            "deleg": kind != "fn" and not retry and rnd.random() < 0.1, "async": rnd.choice(["true"] * 8 + ["false", "absent"]), "enabled": rnd.random() < 0.7,
            "has": rnd.random() < 0.8, "name": rnd.choice(["q", "term-query", "", "<absent>"]), "ret": ret, "as": asl, "stage": rnd.choice(["direct", "cont", "abort"]), "rp": rnd.random() < 0.3 and not (d is not None and d.get("success") is False)}


def random_hist(rnd):
    ops = ["a", "b", "force-merge"]
    h = []
    for _ in range(rnd.randint(1, 14)):
        x = rnd.random()
        op = rnd.choice(ops)
        if x < 0.4:
            h.append({"a": "reg", "op": op, "ok": rnd.random() < 0.8, "enum": op == "force-merge" and rnd.random() < 0.5})
        elif x < 0.6:
            h.append({"a": "rm", "op": op, "ok": False, "enum": False})
        elif x < 0.9:
            h.append({"a": "get", "op": op, "ok": False, "enum": False})
        else:
            h.append({"a": "defaults", "op": "", "ok": False, "enum": False})
    return {"part": "hist", "ops": ops, "h": h}


# ------------------------------------------------------------------ run


def run(ctx, out):
    out.rule = (
        "case = (shape of the registered object, async_runner flag, enable flag, params name/assertions, returned value, stage) or a history of registry calls; "
        "distinct by that input. Sources: every state of the TLC run (S2C, exhaustive for the configuration), seeded random inputs over wider alphabets (C2S only)."
    )
    out.exhaustive = True
    out.assumptions = [
        "the construction of the user's objects from the abstract shape (async function U / class U with async __call__, __aenter__, __aexit__, attributes multi_cluster, completed, "
        "percent_completed, delegate) and the projection of results to tagged values are trusted; the text of a TypeError is not recorded",
        "reads of the returned dict are observed through a dict subclass recording __getitem__ (the way check_assertion reads); es = {'default': D, 'other': O}",
        "histories: the registry dict is emptied before each history and restored afterwards; the entry of an operation type is observed by runner_for + unwrap (rid of the user's object, 0 = a Runner of Rally)",
        "not modelled: what Retry does (specs/Retry), transport/API errors in execute_single (specs/ClientLoop), floats, lexicographic comparison of two strings, the text of a dict in a failure message, "
        "a user's __aexit__ that swallows exceptions, property names containing a dot (cannot be addressed by a path)",
    ]
    pool = ThreadPoolExecutor(4)
    tlc.scratch_root()
    main_cfg = "RunnerRegistry.quick.cfg" if ctx.quick else "RunnerRegistry.thorough.cfg"
    futs = {main_cfg: pool.submit(_run_tlc, main_cfg, "xrrmc", dump=True, timeout=900, workers=4, allow_violation=True)}
    futs["RunnerRegistry.intended.cfg"] = pool.submit(_run_tlc, "RunnerRegistry.intended.cfg", "xrrmc", timeout=300, workers=1, allow_violation=True)
    for cfg, _inv in SELFTESTS:
        futs[cfg] = pool.submit(_run_tlc, cfg, "xrrmc", timeout=300, workers=1, allow_violation=True)
    rt = Rt()
    try:
        _run(ctx, out, futs, main_cfg, rt)
    finally:
        pool.shutdown(wait=True)
        rt.close()


def _run(ctx, out, futs, main_cfg, rt):
    stats = {"cases": 0, "s2c": 0, "s2c_followed": 0, "l2": 0, "l1": {}}
    main = futs[main_cfg].result()
    out.add_tlc(main)
    if not main.ok:
        raise tlc.MachineryError("model violates %s in %s: %s" % (main.invariant_violated or "?", main_cfg, main.out[-1500:]))
    table = table_from_dump(main.dump_path)
    if len(table) * 2 != main.distinct:
        raise tlc.MachineryError("dump has %d evaluated states, TLC reports %d distinct states" % (len(table), main.distinct))
    out.note("leg M %s: %d distinct states, %.1fs" % (main_cfg, main.distinct, main.wall_s))
    items = run_cases(rt, table, out, "tab", stats)
    out.note("leg S2C: %d inputs from TLC, the real code gives the model's result in %d of %d executions" % (len(table), stats["s2c_followed"], stats["s2c"]))
    out.extra["table"] = {"rows": len(table), "real_code_equals_table": stats["s2c_followed"], "compared": stats["s2c"]}
    mid = next(it for it in items if it["a"]["part"] == "call" and it["r"]["reg"] == "ok" and it["r"]["o"]["cls"] == "RallyTaskAssertionError")
    out.sample({"source": "tlc", "input": _short({"a": mid["a"]}), "recorded": mid["r"]})
    rnd = random.Random(ctx.seed + 41)
    rc = [{"a": random_call(rnd), "src": "random"} for _ in range(3000 if ctx.quick else 80000)]
    rc += [{"a": random_hist(rnd), "src": "random"} for _ in range(800 if ctx.quick else 20000)]
    ritems = run_cases(rt, rc, out, "rnd", stats)
    out.sample({"source": "random", "input": _short({"a": ritems[-1]["a"]}), "recorded": ritems[-1]["r"]})
    res = futs["RunnerRegistry.intended.cfg"].result()
    out.add_tlc(res)
    if not res.ok:
        raise tlc.MachineryError("model violates %s in RunnerRegistry.intended.cfg: %s" % (res.invariant_violated or "?", res.out[-1500:]))
    for cfg, inv in SELFTESTS:
        res = futs[cfg].result()
        if res.invariant_violated != inv:
            raise tlc.MachineryError("self-test failed: %s no longer violates %s (%s)" % (cfg, inv, res.invariant_violated or res.error))
        out.extra.setdefault("model_selftests", []).append("%s violates %s in the model, as expected" % (cfg, inv[1:]))
    defaults_census(rt, out)
    out.extra["coverage_of_cases"] = stats
    out.note("leg C2S: %d executions validated, %d accepted; %s" % (stats["cases"], out.traces_validated, {k: v for k, v in sorted(stats.items()) if k.split("_")[0] in ("call", "hist", "mand", "chain", "client", "ctx", "noctx", "reads", "retry")}))
    for key in ("call_ret", "call_norm", "call_refused", "call_RallyTaskAssertionError", "call_DataError", "call_KeyError", "call_TypeError", "call_SystemSetupError", "call_UserError",
                "call_RallyAssertionError", "chain_WithCompletion", "chain_NoCompletion", "client_all", "client_default", "ctx", "noctx", "reads", "retry", "hist_found", "hist_RallyError", "hist_KeyError",
                "hist_RallyAssertionError", "hist_ok", "mand_val", "mand_exc"):
        if not stats.get(key):
            out.vacuous.append("no executed case exercised: " + key)
    binding_selftest(out, table)
    for key, rec in sorted(out.extra.get("pinned_behaviour_observed", {}).items()):
        rec.pop("size", None)
        out.note("pinned behaviour of /repo (strong clause %s fails in %d cases; model switch %s = FALSE): %s; smallest example %s" % (key, rec["cases"], rec["switch"], rec["what"], json.dumps(rec["example"]["input"], sort_keys=True)))
    for c in PINNED:
        if c not in out.extra.get("pinned_behaviour_observed", {}) and not (out.violations or out.drift):
            out.note("pinned behaviour %s (switch %s) was NOT observed on this tree" % (c, PINNED[c][0]))
    if out.vacuous:
        out.note("VACUOUS: %s" % out.vacuous)


def defaults_census(rt, out):
    """WHERE Retry is applied by register_default_runners (what Retry does is specs/Retry): every operation type of track.OperationType has a
    runner; the stack is completion > assertions > client selection [> Retry] > runner for all of them."""
    runner, track = rt.runner, rt.track
    rt.registry.clear()
    runner.register_default_runners()
    census = {"retry": [], "plain": [], "missing": [], "odd": []}
    for t in track.OperationType:
        name = t.to_hyphenated_string()
        try:
            w = runner.runner_for(name)
        except rt.exceptions.RallyError:
            census["missing"].append(name)
            continue
        chain, x = [], w
        while x is not None and len(chain) < 10:
            chain.append(type(x).__name__)
            x = getattr(x, "delegate", None)
        head = chain[:3]
        if head[1:] != ["AssertingRunner", "MultiClientRunner"] or head[0] not in ("NoCompletion", "WithCompletion") or len(chain) not in (4, 5) or (len(chain) == 5 and chain[3] != "Retry"):
            census["odd"].append([name, chain])
        elif len(chain) == 5:
            census["retry"].append(name)
        else:
            census["plain"].append(name)
    rt.registry.clear()
    types = [t.to_hyphenated_string() for t in track.OperationType]
    kind = {n: "retry" for n in census["retry"]}
    kind.update({n: "plain" for n in census["plain"]})
    kind.update({n: "missing" for n in census["missing"]})
    kind.update({n: "odd" for n, _ in census["odd"]})
    item = {"id": "census", "a": {"part": "census", "types": types}, "r": {"part": "census", "stacks": [kind[n] for n in types]}}
    v = tracecheck.validate(SPEC, "TraceRunnerRegistry", "TraceRunnerRegistry.cfg", [item], name="xrrcensus", timeout=300)
    out.add_case(item["a"], nontrivial=True)
    out.extra["census_validated"] = v.accepted(1) == 1
    for _line, clauses in v.l1.get("census", []):
        for c in clauses:
            out.violations.append(Violation(c, {"a": item["a"], "r": item["r"]}, {"part": "census"}, "register_default_runners: %s" % {n: k for n, k in kind.items() if k in ("missing", "odd")}))
    if "census" in v.l2:
        model_plain = set(NOT_RETRYABLE)
        out.drift.append("register_default_runners wraps other operation types in Retry than RunnerRegistry.tla (NotRetryable): now retryable %s, no longer retryable %s, new types %s" % (
            sorted(n for n in types if kind[n] == "retry" and n in model_plain), sorted(n for n in types if kind[n] == "plain" and n not in model_plain), sorted(n for n in types if kind[n] in ("missing", "odd"))))
    out.extra["default_runners"] = {"retryable": sorted(census["retry"]), "not_retryable": sorted(census["plain"]), "without_runner": census["missing"], "odd_stack": census["odd"]}
    out.note("register_default_runners: %d operation types, %d wrapped in Retry, %d not (%s), %d without a runner, %d with another stack" % (
        len(list(track.OperationType)), len(census["retry"]), len(census["plain"]), ", ".join(sorted(census["plain"])), len(census["missing"]), len(census["odd"])))


def binding_selftest(out, table):
    """Corrupted recordings must be rejected by TLC with the expected clause."""
    items = [{"id": "t%d" % i, "a": c["a"], "r": c["model"]} for i, c in enumerate(table)]  # the model's own results: independent of the tree under test
    calls = [it for it in items if it["a"]["part"] == "call" and it["r"]["reg"] == "ok" and it["a"]["stage"] == "direct" and not it["a"]["deleg"]]
    base = next((it for it in calls if it["r"]["o"]["cls"] == "RallyTaskAssertionError" and len(it["a"]["as"]) == 1), None)
    ok = next((it for it in calls if it["r"]["o"]["k"] == "ret" and it["r"]["reads"] and it["a"]["mc"] is False), None)
    dis = next((it for it in calls if it["r"]["o"]["k"] == "ret" and not it["a"]["enabled"] and it["a"]["has"] and it["a"]["as"] and it["a"]["ret"]["k"] == "val"), None)
    hist = next((it for it in items if it["a"]["part"] == "hist" and any(o["r"].isdigit() and o["r"] != "0" for o in it["r"]["obs"])), None)
    if None in (base, ok, dis, hist):
        raise tlc.MachineryError("binding self-test: no suitable row in the table")
    muts = []

    def mk(src, tid, fn, clause):
        m = copy.deepcopy(src)
        m["id"] = tid
        fn(m["r"])
        muts.append((m, clause))

    mk(base, "bind-pass", lambda r: r.update(o={"k": "ret", "cls": "", "msg": ""}), "FailsIffPredicateFalse")
    mk(base, "bind-msg", lambda r: r["o"].update(msg=r["o"]["msg"].replace("Expected", "Wanted")), "FailureMessage")
    mk(ok, "bind-fail", lambda r: r.update(o={"k": "exc", "cls": "RallyTaskAssertionError", "msg": "x"}, same=False), "PassingCallUnchanged")
    mk(ok, "bind-copy", lambda r: r.update(same=False), "PassingCallUnchanged")
    mk(ok, "bind-client", lambda r: r.update(client="all"), "ClientSelection")
    mk(ok, "bind-order", lambda r: r.update(chain=[r["chain"][1], r["chain"][0]] + r["chain"][2:]), "StackOrder")
    mk(dis, "bind-dis", lambda r: r.update(reads=["hits"]), "DisabledNeverEvaluates")

    def hmut(r):
        for o in r["obs"]:
            if o["r"].isdigit() and o["r"] != "0":
                o["r"] = "0"
                return

    mk(hist, "bind-hist", hmut, "LatestRegistrationWins")
    v = tracecheck.validate(SPEC, "TraceRunnerRegistry", "TraceRunnerRegistry.cfg", [m for m, _ in muts], name="xrrbind", timeout=300)
    for m, clause in muts:
        got = {c for _, cl in v.l1.get(m["id"], []) for c in cl}
        if clause not in got or m["id"] not in v.l2:
            raise tlc.MachineryError("binding self-test: corrupted recording %s is not rejected with %s (L1 %s, L2 %s)" % (m["id"], clause, sorted(got), m["id"] in v.l2))
    out.extra["binding_selftest"] = "%d corrupted recordings rejected by TLC with the expected clauses" % len(muts)
